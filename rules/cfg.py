"""Per-function CFG utilities on extracted MIR (normal edges only; unwind edges are ignored
because panicking paths are the subject of separate rules)."""


def reachable(body, starts, avoid=(), avoid_edges=()):
    """Blocks reachable from `starts` (inclusive) without entering `avoid` blocks or using `avoid_edges`."""
    avoid = set(avoid)
    avoid_edges = set(avoid_edges)
    succ = body.successors()
    seen = set()
    stack = [s for s in starts if s not in avoid]
    while stack:
        b = stack.pop()
        if b in seen:
            continue
        seen.add(b)
        for s in succ[b]:
            if s in avoid or (b, s) in avoid_edges or s in seen:
                continue
            stack.append(s)
    return seen


def reachable_blocks(body):
    return reachable(body, [0])


def dominators(body):
    """idom-free dominator sets: dom[b] = set of blocks dominating b (over blocks reachable from bb0)."""
    succ = body.successors()
    pred = body.predecessors()
    rs = reachable_blocks(body)
    order = sorted(rs)
    dom = {b: set(rs) for b in rs}
    dom[0] = {0}
    changed = True
    while changed:
        changed = False
        for b in order:
            if b == 0:
                continue
            ps = [p for p in pred[b] if p in rs]
            new = set(rs)
            for p in ps:
                new &= dom[p]
            new.add(b)
            if new != dom[b]:
                dom[b] = new
                changed = True
    return dom


def exits(body):
    return [i for i, b in enumerate(body.blocks) if b["term"]["k"] == "return"]


def must_pass(body, src_blocks, dst_blocks, through_blocks, through_edges=()):
    """True iff every CFG path from any src to any dst passes through one of `through_blocks`
    or uses one of `through_edges` (src blocks themselves count if they are in through_blocks)."""
    r = reachable(body, src_blocks, avoid=through_blocks, avoid_edges=through_edges)
    return not (set(dst_blocks) & r)


def back_edges(body):
    """Edges (a, b) where b dominates a."""
    dom = dominators(body)
    out = []
    for a in dom:
        for s in body.successors()[a]:
            if s in dom and s in dom[a]:
                out.append((a, s))
    return out


def natural_loop(body, back_edge):
    a, h = back_edge
    pred = body.predecessors()
    loop = {h}
    stack = [a]
    while stack:
        x = stack.pop()
        if x in loop:
            continue
        loop.add(x)
        stack.extend(pred[x])
    return loop


def blocks_calling(body, pred_fn):
    """Blocks whose terminator is a call whose callee name satisfies pred_fn(name, term)."""
    from facts import callee_name
    out = []
    for bb, t in body.calls():
        n = callee_name(t)
        if pred_fn(n, t):
            out.append(bb)
    return out


def in_cycle(body, bb):
    """True if bb lies on a CFG cycle."""
    succ = body.successors()
    seen = set()
    stack = list(succ[bb])
    while stack:
        x = stack.pop()
        if x == bb:
            return True
        if x in seen:
            continue
        seen.add(x)
        stack.extend(succ[x])
    return False
