"""A5: panic-site inventory.  A panic site is
  (i)   a MIR Assert terminator (overflow, bounds, division/remainder by zero, ...),
  (ii)  a call to an external function whose rustdoc has a `# Panics` section (recorded by the extractor from crate metadata)
        or that is listed in the supplement below,
  (iii) an explicit panic (call to core::panicking::* / std::rt::begin_panic*, i.e. panic!/assert!/unreachable!/expect-like helpers).
Sites get a semantic key (function, kind, descriptor, ordinal) - never a line number."""
import re

from facts import callee_name
from terms import TermBuilder, show
import cfg

PANIC_FNS = ("core::panicking::panic", "core::panicking::panic_fmt", "core::panicking::panic_nounwind", "core::panicking::assert_failed",
             "core::panicking::panic_explicit", "core::panicking::unreachable_display", "core::panicking::panic_display", "core::panicking::panic_str",
             "std::rt::begin_panic", "std::rt::panic_fmt", "core::panicking::panic_bounds_check", "core::option::unwrap_failed", "core::option::expect_failed",
             "core::result::unwrap_failed", "core::panicking::panic_const", "core::slice::index::slice", "core::str::slice_error_fail",
             "std::process::abort", "std::process::exit")

# external callees that can panic although their rustdoc (as shipped) has no `# Panics` heading, or whose heading is on the trait
SUPPLEMENT = (
    "core::option::Option::<T>::unwrap!", "core::option::Option::<T>::expect!", "core::result::Result::<T, E>::unwrap!", "core::result::Result::<T, E>::expect!",
    "core::result::Result::<T, E>::unwrap_err!", "core::result::Result::<T, E>::expect_err!",
    "core::ops::index::Index", "core::ops::index::IndexMut", "core::slice::<impl [T]>::split_at", "core::str::<impl str>::split_at",
    "core::slice::<impl [T]>::copy_from_slice", "core::slice::<impl [T]>::swap", "core::slice::<impl [T]>::chunks", "core::slice::<impl [T]>::windows",
    "alloc::vec::Vec::<T, A>::remove", "alloc::vec::Vec::<T, A>::insert", "alloc::vec::Vec::<T, A>::swap_remove", "alloc::vec::Vec::<T, A>::drain", "alloc::vec::Vec::<T, A>::split_off",
    "alloc::string::String::remove", "alloc::string::String::insert", "alloc::string::String::truncate", "alloc::string::String::split_off", "alloc::string::String::drain",
    "core::cell::RefCell::<T>::borrow", "core::cell::RefCell::<T>::borrow_mut",
    "core::time::Duration::from_secs_f64", "core::time::Duration::from_secs_f32", "core::time::Duration::mul_f64", "core::time::Duration::mul_f32", "core::time::Duration::div_f64",
    "std::time::Instant::duration_since", "core::iter::traits::iterator::Iterator::step_by", "core::char::methods::<impl char>::to_digit", "core::char::methods::<impl char>::from_digit",
    "rand::rng::Rng::gen_range", "rand::Rng::gen_range", "std::thread::spawn", "std::sync::mpsc::Sender::<T>::send",
    "core::fmt::num", "std::io::stdio::_print", "std::io::stdio::_eprint",
)
# doc-flagged or supplement callees that are accepted without a per-site argument (reason given once, printed in the evidence)
BENIGN = {
    "<core::iter::adapters::enumerate::Enumerate<I> as core::iter::traits::iterator::Iterator>::next": "documented to panic only if the element index overflows usize (2^64 elements)",
    "core::iter::traits::iterator::Iterator::enumerate": "constructing the adapter never panics",
    "std::io::stdio::_print": "println!/print! panic only when stdout is closed (broken pipe); outside the property's input quantifier (process I/O failure)",
    "std::io::stdio::_eprint": "eprintln! panics only when stderr is closed; process I/O failure",
    "std::thread::spawn": "thread::spawn panics only when the OS refuses to create a thread (resource exhaustion, not input-dependent)",
    "alloc::vec::Vec::<T, A>::push": "capacity overflow only (allocation failure)",
    "alloc::vec::Vec::<T, A>::with_capacity": "capacity overflow only (allocation failure)",
    "alloc::vec::Vec::<T>::with_capacity": "capacity overflow only (allocation failure)",
    "alloc::vec::from_elem": "capacity overflow only (allocation failure)",
    "alloc::vec::Vec::<T, A>::reserve": "capacity overflow only (allocation failure)",
    "alloc::vec::Vec::<T, A>::extend_from_slice": "capacity overflow only (allocation failure)",
    "alloc::string::String::push": "capacity overflow only (allocation failure)",
    "alloc::string::String::push_str": "capacity overflow only (allocation failure)",
    "alloc::slice::<impl [T]>::join": "capacity overflow only (allocation failure)",
    "alloc::str::<impl str>::repeat": "capacity overflow only (allocation failure)",
    "core::iter::traits::iterator::Iterator::collect": "allocation failure only",
    "<T as alloc::string::ToString>::to_string": "panics only if a Display impl returns an error; the workspace Display impls only forward write! errors of a String sink, which cannot fail",
    "alloc::fmt::format": "panics only if a Display impl returns an error (String sink never fails)",
    "core::iter::traits::iterator::Iterator::sum": "overflow of a sum of counters (needs > 2^63 elements)",
    "core::iter::traits::iterator::Iterator::nth": "doc mentions overflow only for iterators longer than usize::MAX",
    "core::iter::traits::iterator::Iterator::enumerate": "index overflow needs more than usize::MAX elements",
    "core::iter::traits::iterator::Iterator::count": "overflow needs more than usize::MAX elements",
    "core::iter::traits::iterator::Iterator::position": "index overflow needs more than usize::MAX elements",
    "core::iter::traits::iterator::Iterator::rev": "no panic of its own",
    "core::iter::traits::iterator::Iterator::max": "no panic of its own",
    "core::str::<impl str>::parse": "returns Err on bad input",
    "std::sync::mpsc::Sender::<T>::send": "returns Err when the receiver is gone; never panics",
    "std::time::Instant::now": "no panic on supported platforms",
    "std::sync::poison::rwlock::RwLock::<T>::read": "panics only if the calling thread already holds the lock; C15/T8 shows every table operation takes exactly one guard and releases it before returning",
    "std::sync::poison::rwlock::RwLock::<T>::write": "panics only if the calling thread already holds the lock; C15/T8 shows every table operation takes exactly one guard and releases it before returning",
    "alloc::slice::<impl [T]>::sort_by_cached_key": "may panic only if the key's Ord is not a total order; the keys are Evaluation(i32) / i32",
    "alloc::slice::<impl [T]>::sort_by_key": "may panic only if the key's Ord is not a total order",
    "std::thread::join_handle::JoinHandle::<T>::join": "join itself panics only if a thread joins itself; the handles here are owned and joined by the UCI thread (the Err of a panicked thread is a separate unwrap site)",
    "std::time::Instant::elapsed": "monotonic clock; saturates since Rust 1.60",
}


class Site:
    __slots__ = ("body", "bb", "kind", "desc", "line", "term", "key", "macros")

    def __init__(self, body, bb, kind, desc, line, term, macros):
        self.body = body
        self.bb = bb
        self.kind = kind
        self.desc = desc
        self.line = line
        self.term = term
        self.macros = macros
        self.key = None

    def where(self):
        return self.body.where(self.line)


def is_panic_fn(name):
    return any(name == p or name.startswith(p) for p in PANIC_FNS)


def doc_or_supplement(t):
    n = callee_name(t)
    if t.get("doc_panics"):
        return True
    for s in SUPPLEMENT:
        if s.endswith("!"):
            if n == s[:-1]:
                return True
        elif n.startswith(s) or (s in n and s.startswith("core::ops::index")):
            return True
    return False


def _named(body, text):
    """Parameters by name rather than by position (p7 -> current_depth): keys survive a changed parameter list."""
    def sub(m):
        i = int(m.group(1))
        return (body.local_name(i) or m.group(0)) if 1 <= i <= body.arg_count else m.group(0)
    return re.sub(r"\bp(\d+)\b", sub, text)


def inventory(prog, body, with_cleanup=False):
    """All panic sites of one body (blocks reachable from entry, cleanup blocks excluded)."""
    out = []
    rs = cfg.reachable_blocks(body)
    tb = None
    for bb in sorted(rs):
        blk = body.blocks[bb]
        if blk.get("cleanup") and not with_cleanup:
            continue
        t = blk["term"]
        macros = t.get("macros", [])
        if t["k"] == "assert":
            tb = tb or TermBuilder(prog, body)
            ops = ", ".join(_named(body, show(tb.operand(o)))[:60] for o in t["msg_ops"])
            out.append(Site(body, bb, "assert:" + t["msg"], "%s(%s)" % (t["msg"], ops), t["line"], t, macros))
        elif t["k"] == "call":
            if "callee" not in t:
                continue
            n = callee_name(t)
            if is_panic_fn(n):
                m = [x for x in macros if x in ("assert", "assert_eq", "assert_ne", "debug_assert", "debug_assert_eq", "debug_assert_ne", "panic", "unreachable", "unimplemented", "todo")]
                out.append(Site(body, bb, "explicit:" + (m[0] if m else n.split("::")[-1]), n, t["line"], t, macros))
            elif n in prog.bodies:
                continue
            elif doc_or_supplement(t):
                out.append(Site(body, bb, "call", n, t["line"], t, macros))
    # semantic keys: kind + descriptor + ordinal among equal ones
    seen = {}
    for s in out:
        d = s.desc
        if s.kind == "call" and d.endswith("::expect"):
            d = d[:-len("expect")] + "unwrap"      # `.expect(msg)` and `.unwrap()` are the same site for review purposes
        base = "%s|%s" % (s.kind, d)
        seen[base] = seen.get(base, 0) + 1
        s.key = "%s#%d" % (base, seen[base])
    return out
