"""Path-sensitive term propagation over one small function body.

Enumerates the acyclic normal-edge paths entry -> return (each block at most once per path, so a
loop body is traversed at most once) and pushes a term environment along each path.  No solver
and no execution: branch conditions are only *recorded* (term, value taken), never decided,
except that a branch on a literal constant takes only the matching edge.

Result per path: conditions, effects (calls and stores, in order) and the term of the return value.
Used for decision tables of small functions and for per-path call sequences."""
from facts import callee_name
from terms import mk_bin, mk_field, freeze, inline_call, const_value


class TooManyPaths(Exception):
    pass


class Path:
    __slots__ = ("conds", "effects", "ret", "blocks", "env")

    def __init__(self, conds, effects, ret, blocks, env):
        self.conds = conds      # list of (term, taken) ; taken = int value or ('else', (values...))
        self.effects = effects  # list of ('call', name, args, bb, dest_term) | ('store', place_term, value_term, bb)
        self.ret = ret
        self.blocks = blocks
        self.env = env

    def calls(self, name=None):
        return [e for e in self.effects if e[0] == "call" and (name is None or e[1] == name)]


class SymEx:
    def __init__(self, prog, body, inline_depth=0, max_paths=4000, stop_at=None):
        self.prog = prog
        self.body = body
        self.inline_depth = inline_depth
        self.max_paths = max_paths
        self.paths = []
        self.stop_at = stop_at  # optional set of blocks at which a path ends (treated like return)

    # ---- term construction against an environment
    def const(self, c):
        if "fn" in c:
            f = c["fn"]
            return ("fn", f.get("resolved") or f["$fn"])
        return ("const", c.get("path") if "promoted" not in c else None, freeze(c.get("val")))

    def local(self, env, l):
        if l in env:
            return env[l]
        if 1 <= l <= self.body.arg_count:
            return ("param", l)
        return ("undef", l)

    def place(self, env, p):
        t = self.local(env, p["l"])
        for e in p["p"]:
            if e == "*":
                continue
            if "f" in e:
                t = mk_field(t, e["f"], e["i"])
            elif "downcast" in e:
                t = ("variant", t, e["downcast"] or str(e["v"]))
            elif "index" in e:
                t = ("index", t, self.local(env, e["index"]))
            elif "cindex" in e:
                t = ("cindex", t, e["cindex"])
            else:
                t = ("proj", t, tuple(sorted(e.keys())))
        return t

    def operand(self, env, o):
        if "const" in o:
            return self.const(o["const"])
        return self.place(env, o.get("copy") or o.get("move"))

    def rvalue(self, env, rv):
        if "use" in rv:
            return self.operand(env, rv["use"])
        if "ref" in rv:
            return self.place(env, rv["ref"])
        if "rawptr" in rv:
            return self.place(env, rv["rawptr"])
        if "cast" in rv:
            inner = self.operand(env, rv["cast"])
            if rv["kind"].startswith("PointerCoercion") or rv["kind"] in ("PtrToPtr", "Transmute", "Subtype"):
                return inner
            return ("cast", rv["to"], inner)
        if "binop" in rv:
            return mk_bin(rv["binop"], self.operand(env, rv["a"]), self.operand(env, rv["b"]), rv.get("ty"))
        if "unop" in rv:
            return ("un", rv["unop"], self.operand(env, rv["a"]), rv.get("ty"))
        if "discr" in rv:
            return ("discr", self.place(env, rv["discr"]))
        if "agg" in rv:
            k = rv["agg"]
            if "adt" in k:
                kind = "%s::%s" % (k["adt"], k["variant"])
            elif "closure" in k:
                kind = "closure:" + k["closure"]
            elif "array" in k:
                kind = "array"
            else:
                kind = "tuple"
            return ("agg", kind, tuple(self.operand(env, o) for o in rv["ops"]))
        if "repeat" in rv:
            return ("repeat", self.operand(env, rv["repeat"]), rv["count"])
        return ("opaque", freeze(rv))

    # ---- path enumeration
    def run(self):
        self._dfs(0, {}, [], [], [], set())
        return self.paths

    def _dfs(self, bb, env, conds, effects, blocks, visited):
        if len(self.paths) > self.max_paths:
            raise TooManyPaths(self.body.name)
        if bb in visited:
            return  # loop: abandon the revisiting path (each block once per path)
        body = self.body
        env = dict(env)
        effects = list(effects)
        blocks = blocks + [bb]
        visited = visited | {bb}
        if self.stop_at is not None and bb in self.stop_at and len(blocks) > 1:
            self.paths.append(Path(conds, effects, self.local(env, 0), blocks, env))
            return
        for s in body.stmts(bb):
            if s["k"] == "assign":
                p = s["place"]
                v = self.rvalue(env, s["rv"])
                if not p["p"]:
                    env[p["l"]] = v
                else:
                    effects.append(("store", self.place(env, p), v, bb))
                    if p["p"][0] != "*":
                        # partial write to a local aggregate: remember it as an updated aggregate
                        env[p["l"]] = ("upd", self.local(env, p["l"]), self.place(env, p), v)
            elif s["k"] == "set_discr":
                env[s["place"]["l"]] = ("setdiscr", self.local(env, s["place"]["l"]), s["v"])
        t = body.term(bb)
        k = t["k"]
        if k == "return":
            self.paths.append(Path(conds, effects, self.local(env, 0), blocks, env))
            return
        if k == "goto":
            return self._dfs(t["target"], env, conds, effects, blocks, visited)
        if k in ("drop", "assert"):
            if k == "assert":
                effects.append(("assert", t["msg"], self.operand(env, t["cond"]), bb))
            return self._dfs(t["target"], env, conds, effects, blocks, visited)
        if k == "call":
            args = tuple(self.operand(env, a) for a in t["args"])
            if "callee" in t:
                name = callee_name(t)
                res = None
                if self.inline_depth > 0:
                    res = inline_call(self.prog, name, args, self.inline_depth)
                if res is None:
                    res = ("call", name, args)
                effects.append(("call", name, args, bb, res))
            else:
                f = self.operand(env, t["indirect"])
                res = ("icall", f, args)
                effects.append(("icall", f, args, bb, res))
            d = t["dest"]
            if not d["p"]:
                env[d["l"]] = res
            else:
                effects.append(("store", self.place(env, d), res, bb))
            if t["target"] is None:
                return  # diverges
            return self._dfs(t["target"], env, conds, effects, blocks, visited)
        if k == "switch":
            dt = self.operand(env, t["discr"])
            cv = const_value(dt)
            cases = t["cases"]
            vals = tuple(c[0] for c in cases)
            if cv is not None and not isinstance(cv, str):
                iv = int(cv)
                tgt = None
                for v, b in cases:
                    if v == iv:
                        tgt = b
                if tgt is None:
                    tgt = t["otherwise"]
                return self._dfs(tgt, env, conds, effects, blocks, visited)
            # a path that decides the same (pure) condition term differently twice is infeasible
            prior = [tv for c0, tv in conds if c0 == dt] if _pure_term(dt) else []
            for v, b in cases:
                if prior and not _agrees(prior[-1], v, vals):
                    continue
                self._dfs(b, env, conds + [(dt, v)], effects, blocks, visited)
            if not prior or _agrees(prior[-1], ("else", vals), vals):
                self._dfs(t["otherwise"], env, conds + [(dt, ("else", vals))], effects, blocks, visited)
            return
        # unreachable / resume / other: path ends without a return
        return


def decision_table(prog, body, inline_depth=0, max_paths=4000):
    return SymEx(prog, body, inline_depth=inline_depth, max_paths=max_paths).run()


_IMPURE = ("::next", "rand", "::recv", "::take", "::pop", "::insert", "::push", "::remove", "::get_or_init", "::replace", "::swap", "::next_u", "::gen")


def _pure_term(t):
    """No call in the term can yield a different value when evaluated again on the same path (iterator steps, RNG, channel, mutation)."""
    from terms import walk
    for x in walk(t):
        if x[0] in ("call", "icall"):
            n = x[1] if x[0] == "call" else ""
            if x[0] == "icall" or any(k in n for k in _IMPURE):
                return False
        if x[0] in ("var", "opaque"):
            return False
    return True


def _agrees(prev, now, vals):
    """Can a switch over the same value take `now` after having taken `prev`?  Values are case constants or ('else', excluded)."""
    def as_set(v):
        if isinstance(v, tuple) and v and v[0] == "else":
            return None, set(v[1])
        return v, None
    pv, pex = as_set(prev)
    nv, nex = as_set(now)
    if pv is not None and nv is not None:
        return pv == nv
    if pv is not None:      # previously a concrete value, now the default edge: fine iff the value is not one of the present cases
        return pv not in nex
    if nv is not None:      # previously "none of these", now a concrete value
        return nv not in pex
    return True
