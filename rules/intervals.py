"""A5(b): forward interval analysis over the integer-like locals of MIR bodies.

Domain: intervals of mathematical integers for locals of integer / char / bool type and of the newtypes wrapping them
(Square, File, Rank, PieceIndex, ...: transparent), an extra payload interval for Option<int-like>/Result locals, and the
un-wrapped mathematical result for checked-arithmetic tuples.  Branch conditions defined by comparisons refine operands;
edges whose refinement is empty are infeasible.  Widening to the type range at loop heads.

Inter-procedural: return summaries (callee analysed with parameter intervals joined over the workspace call sites seen so
far, closed world) and "succeeds-only-if" guard summaries for fallible constructors (Ok/Some implies an argument range).
The newtype invariants of tables/invariants.json are ASSUMED when a value of such a type is read and CHECKED (rule INV) at
every construction site."""
import json
import os
import re

import cfg
from facts import callee_name

VERIF = os.path.dirname(os.path.dirname(os.path.abspath(__file__)))
INF = float("inf")

INT_RANGES = {
    "u8": (0, 2 ** 8 - 1), "u16": (0, 2 ** 16 - 1), "u32": (0, 2 ** 32 - 1), "u64": (0, 2 ** 64 - 1), "u128": (0, 2 ** 128 - 1), "usize": (0, 2 ** 64 - 1),
    "i8": (-2 ** 7, 2 ** 7 - 1), "i16": (-2 ** 15, 2 ** 15 - 1), "i32": (-2 ** 31, 2 ** 31 - 1), "i64": (-2 ** 63, 2 ** 63 - 1), "i128": (-2 ** 127, 2 ** 127 - 1),
    "isize": (-2 ** 63, 2 ** 63 - 1), "char": (0, 0x10FFFF), "bool": (0, 1),
}


def load_invariants():
    with open(os.path.join(VERIF, "tables", "invariants.json")) as fh:
        return json.load(fh)


class Iv:
    """Closed interval [lo, hi] of integers; lo > hi means empty (bottom)."""
    __slots__ = ("lo", "hi")

    def __init__(self, lo, hi):
        self.lo = lo
        self.hi = hi

    def empty(self):
        return self.lo > self.hi

    def join(self, o):
        if self.empty():
            return o
        if o.empty():
            return self
        return Iv(min(self.lo, o.lo), max(self.hi, o.hi))

    def meet(self, o):
        return Iv(max(self.lo, o.lo), min(self.hi, o.hi))

    def within(self, o):
        return self.empty() or (self.lo >= o.lo and self.hi <= o.hi)

    def __eq__(self, o):
        return isinstance(o, Iv) and ((self.empty() and o.empty()) or (self.lo == o.lo and self.hi == o.hi))

    def __repr__(self):
        return "[%s, %s]" % (self.lo, self.hi) if not self.empty() else "[]"


BOT = Iv(1, 0)


def is_slice_ty(ty):
    t = strip_refs(ty)
    return (t.startswith("[") and not re.search(r"; [^\]]+\]$", t)) or t == "str"


def strip_refs(ty):
    while ty.startswith("&"):
        ty = ty[1:].lstrip()
        if ty.startswith("mut "):
            ty = ty[4:]
        ty = re.sub(r"^'[a-z_]+ ", "", ty)
    return ty


class Types:
    def __init__(self, prog, inv):
        self.prog = prog
        self.inv = inv["types"]

    def range_of(self, ty):
        """Interval of the integer content of a value of type ty, or None if ty is not int-like."""
        ty = strip_refs(ty)
        if ty in INT_RANGES:
            return Iv(*INT_RANGES[ty])
        if ty in self.inv:
            r = self.inv[ty]["range"]
            return Iv(r[0], r[1])
        a = self.prog.adt(ty)
        if a is not None:
            if a["kind"] == "enum" and all(not v["fields"] for v in a["variants"]):
                ds = [v["discr"] for v in a["variants"]]
                return Iv(min(ds), max(ds))
            if a["kind"] == "struct" and len(a["variants"][0]["fields"]) == 1:
                return self.range_of(a["variants"][0]["fields"][0]["ty"])
        return None

    def raw_range_of(self, ty):
        """Range by representation only (no invariant): what a constructor may be handed."""
        ty = strip_refs(ty)
        if ty in INT_RANGES:
            return Iv(*INT_RANGES[ty])
        a = self.prog.adt(ty)
        if a is not None and a["kind"] == "struct" and len(a["variants"][0]["fields"]) == 1:
            return self.raw_range_of(a["variants"][0]["fields"][0]["ty"])
        return self.range_of(ty)

    def payload_ty(self, ty):
        """T of Option<T> / Result<T, _> / ControlFlow<_, T>."""
        ty = strip_refs(ty)
        m = re.match(r"core::option::Option<(.*)>$", ty)
        if m:
            return m.group(1)
        m = re.match(r"core::result::Result<(.*), [^,]*>$", ty)
        if m:
            return m.group(1)
        m = re.match(r"core::ops::control_flow::ControlFlow<.*?, (.*)>$", ty)
        if m:
            return m.group(1)
        return None


class State:
    """Abstract state at a program point."""
    __slots__ = ("iv", "pay", "chk")

    def __init__(self, iv=None, pay=None, chk=None):
        self.iv = iv or {}     # local -> Iv
        self.pay = pay or {}   # local -> Iv of the Some/Ok payload
        self.chk = chk or {}   # local -> (math Iv, type range Iv) for checked-op tuples

    def copy(self):
        return State(dict(self.iv), dict(self.pay), dict(self.chk))

    def join(self, o):
        iv = {}
        for k in set(self.iv) & set(o.iv):
            iv[k] = self.iv[k].join(o.iv[k])
        pay = {}
        for k in set(self.pay) & set(o.pay):
            pay[k] = self.pay[k].join(o.pay[k])
        chk = {}
        for k in set(self.chk) & set(o.chk):
            chk[k] = (self.chk[k][0].join(o.chk[k][0]), self.chk[k][1])
        return State(iv, pay, chk)

    def __eq__(self, o):
        return self.iv == o.iv and self.pay == o.pay and self.chk == o.chk


def arith(op, a, b, rng):
    """Mathematical result interval of `a op b` (no wrapping)."""
    if a.empty() or b.empty():
        return BOT
    if op == "Add":
        return Iv(a.lo + b.lo, a.hi + b.hi)
    if op == "Sub":
        return Iv(a.lo - b.hi, a.hi - b.lo)
    if op == "Mul":
        c = [a.lo * b.lo, a.lo * b.hi, a.hi * b.lo, a.hi * b.hi]
        return Iv(min(c), max(c))
    if op == "Div":
        if b.lo <= 0 <= b.hi:
            return rng
        c = [int(a.lo / b.lo), int(a.lo / b.hi), int(a.hi / b.lo), int(a.hi / b.hi)]
        return Iv(min(c), max(c))
    if op == "Rem":
        if b.lo > 0 and a.lo >= 0:
            return Iv(0, min(a.hi, b.hi - 1))
        if b.lo > 0:
            return Iv(-(b.hi - 1), b.hi - 1)
        return rng
    if op == "BitAnd":
        if a.lo >= 0 and b.lo >= 0:
            return Iv(0, min(a.hi, b.hi))
        if b.lo >= 0:
            return Iv(0, b.hi)
        if a.lo >= 0:
            return Iv(0, a.hi)
        return rng
    if op in ("BitOr", "BitXor"):
        if a.lo >= 0 and b.lo >= 0 and a.hi != INF and b.hi != INF and (a.hi - a.lo) <= 64 and (b.hi - b.lo) <= 64:
            vals = [(x | y) if op == "BitOr" else (x ^ y) for x in range(int(a.lo), int(a.hi) + 1) for y in range(int(b.lo), int(b.hi) + 1)]
            return Iv(min(vals), max(vals))
        if a.lo >= 0 and b.lo >= 0 and a.hi != INF and b.hi != INF:
            bits = max(int(a.hi).bit_length(), int(b.hi).bit_length())
            return Iv(0, (1 << bits) - 1)
        return rng
    if op == "Shl":
        if a.lo >= 0 and b.lo >= 0 and b.hi < 256:
            return Iv(a.lo << int(b.lo), a.hi << int(b.hi))
        return rng
    if op == "Shr":
        if a.lo >= 0 and b.lo >= 0 and b.hi < 256:
            return Iv(a.lo >> int(b.hi), a.hi >> int(b.lo))
        return rng
    return rng


class FnAnalysis:
    """Result of analysing one body: states at block entry, feasibility, per-terminator evaluation helpers."""

    def __init__(self, eng, body, params):
        self.eng = eng
        self.body = body
        self.params = params
        self.inn = {}
        self.cmp_defs = {}    # local -> (op, operand a, operand b) for comparison results (single def)
        self.not_defs = {}    # local -> operand (for `Not`)
        self.guard_defs = {}  # local -> ('discr', local) for discriminant reads
        self.alias = {}       # local -> local it is a plain copy/ref of (single def)
        self.ret = BOT
        self.ret_pay = BOT
        self.returns = False
        self._prepare()
        self._run()

    # ---------------------------------------------------------------- helpers
    def ty(self, l):
        return self.body.local_ty(l)

    def prog_adt(self, ty):
        return self.eng.prog.adt(strip_refs(ty))

    def _prepare(self):
        defs = {}
        self.def_sites = {}   # local -> [(block, rvalue or {"call": term})]
        for bb, blk in enumerate(self.body.blocks):
            for s in blk["stmts"]:
                if s["k"] == "assign" and not s["place"]["p"]:
                    defs.setdefault(s["place"]["l"], []).append(s["rv"])
                    self.def_sites.setdefault(s["place"]["l"], []).append((bb, s["rv"]))
            t = blk["term"]
            if t["k"] == "call" and not t["dest"]["p"]:
                defs.setdefault(t["dest"]["l"], []).append({"call": t})
                self.def_sites.setdefault(t["dest"]["l"], []).append((bb, {"call": t}))
        self.defs = defs
        for l, ds in defs.items():
            if len(ds) != 1:
                continue
            rv = ds[0]
            if "binop" in rv and rv["binop"] in ("Lt", "Le", "Gt", "Ge", "Eq", "Ne"):
                self.cmp_defs[l] = (rv["binop"], rv["a"], rv["b"])
            elif "unop" in rv and rv["unop"] == "Not":
                self.not_defs[l] = rv["a"]
            elif "discr" in rv:
                self.guard_defs[l] = rv["discr"]
            elif "use" in rv:
                p = rv["use"].get("copy") or rv["use"].get("move")
                if p is not None:
                    self.alias[l] = p
            elif "ref" in rv:
                self.alias[l] = rv["ref"]

    def root_local(self, place, depth=0):
        """Follow plain copies / reborrows to the local whose integer content this place denotes."""
        if place is None:
            return None
        proj = [e for e in place["p"] if e != "*"]
        # newtype field .0 is transparent
        if len(proj) == 1 and isinstance(proj[0], dict) and proj[0].get("i") == 0 and self.eng.types.range_of(proj[0].get("of", "")) is not None and \
                self.eng.types.range_of(self.ty(place["l"])) is not None:
            proj = []
        if proj:
            return None
        l = place["l"]
        if depth < 8 and l in self.alias and l > self.body.arg_count:
            r = self.root_local(self.alias[l], depth + 1)
            if r is not None:
                return r
        return l

    def read_place(self, st, place):
        """Interval of the integer content of a place (None if not int-like)."""
        l = place["l"]
        proj = [e for e in place["p"] if e != "*"]
        if not proj:
            if l in st.iv:
                return st.iv[l]
            if is_slice_ty(self.ty(l)):
                return Iv(0, 2 ** 63 - 1)
            return self.eng.types.range_of(self.ty(l))
        e = proj[0]
        if len(proj) == 1 and isinstance(e, dict) and "f" in e:
            # checked-op tuple: .0 is the result (valid after the assert), .1 the flag
            if l in st.chk:
                m, rng = st.chk[l]
                if e["i"] == 0:
                    return m.meet(rng)
                return Iv(0, 0) if m.within(rng) else Iv(0, 1)
            # newtype wrapper
            base_rng = self.eng.types.range_of(self.ty(l))
            if e["i"] == 0 and base_rng is not None and self.eng.types.range_of(e["ty"]) is not None and self.eng.types.payload_ty(self.ty(l)) is None:
                if l in st.iv:
                    return st.iv[l]
                return base_rng
        # payload of an Option/Result: (x as Some).0
        if len(proj) == 2 and isinstance(proj[0], dict) and "downcast" in proj[0] and isinstance(proj[1], dict) and proj[1].get("i") == 0:
            if proj[0]["downcast"] in ("Some", "Ok", "Continue") and l in st.pay:
                return st.pay[l]
            return self.eng.types.range_of(proj[1]["ty"])
        last = proj[-1]
        if isinstance(last, dict) and "f" in last:
            T = self.eng.types
            if last.get("i") == 0 and T.range_of(last.get("of", "")) is not None and T.payload_ty(last.get("of", "")) is None and T.range_of(last["ty"]) is not None:
                return T.range_of(last["of"])
            return T.range_of(last["ty"])
        return None

    def read_op(self, st, o):
        if "const" in o:
            c = o["const"]
            v = c.get("val")
            from terms import scalar
            sv = scalar(v) if v is not None else None
            if isinstance(sv, bool):
                return Iv(int(sv), int(sv))
            if isinstance(sv, int):
                return Iv(sv, sv)
            if isinstance(sv, str) and len(sv) == 1 and strip_refs(c["ty"]) == "char":
                return Iv(ord(sv), ord(sv))
            if is_slice_ty(c["ty"]):
                if isinstance(v, list):
                    return Iv(len(v), len(v))
                if isinstance(v, dict) and "$str" in v:
                    n = len(v["$str"].encode())
                    return Iv(n, n)
                return Iv(0, 2 ** 63 - 1)
            return self.eng.types.range_of(c["ty"])
        p = o.get("copy") or o.get("move")
        return self.read_place(st, p)

    def op_ty(self, o):
        if "const" in o:
            return o["const"]["ty"]
        p = o.get("copy") or o.get("move")
        ty = self.ty(p["l"])
        for e in p["p"]:
            if isinstance(e, dict) and "ty" in e:
                ty = e["ty"]
        return ty

    # ---------------------------------------------------------------- transfer
    def eval_rvalue(self, st, dst_ty, rv):
        """-> (interval or None, payload interval or None, checked tuple or None)"""
        T = self.eng.types
        rng = T.range_of(dst_ty)
        if "use" in rv:
            o = rv["use"]
            p = o.get("copy") or o.get("move")
            pay = None
            if p is not None and not p["p"] and p["l"] in st.pay:
                pay = st.pay[p["l"]]
            chk = st.chk.get(p["l"]) if p is not None and not p["p"] else None
            return self.read_op(st, o), pay, chk
        if "ref" in rv:
            p = rv["ref"]
            pay = st.pay.get(p["l"]) if not [e for e in p["p"] if e != "*"] else None
            return self.read_place(st, p), pay, None
        if "cast" in rv:
            v = self.read_op(st, rv["cast"])
            to = T.raw_range_of(rv["to"])
            if v is None or to is None:
                return to, None, None
            if rv["kind"] in ("IntToInt",) or True:
                return (v if v.within(to) else to), None, None
        if "binop" in rv:
            op = rv["binop"]
            a = self.read_op(st, rv["a"])
            b = self.read_op(st, rv["b"])
            ty = strip_refs(rv.get("ty", ""))
            trng = T.raw_range_of(ty) or rng
            if op in ("Lt", "Le", "Gt", "Ge", "Eq", "Ne"):
                return self.eval_cmp(op, a, b), None, None
            if a is None or b is None:
                return rng, None, None
            if op.endswith("WithOverflow"):
                m = arith(op[: -len("WithOverflow")], a, b, trng)
                return None, None, (m, trng)
            base = op[:-len("Unchecked")] if op.endswith("Unchecked") else op
            m = arith(base, a, b, trng)
            if trng is not None and not m.within(trng):
                m = trng
            return m, None, None
        if "unop" in rv and rv["unop"] == "PtrMetadata":
            o = rv["a"]
            if "const" in o and isinstance(o["const"].get("val"), list):
                n = len(o["const"]["val"])
                return Iv(n, n), None, None
            p = o.get("copy") or o.get("move")
            if p is not None:
                r = self.root_local(p)
                if r is not None and r in st.iv and is_slice_ty(self.ty(r)):
                    return st.iv[r], None, None
            return Iv(0, 2 ** 63 - 1), None, None
        if "unop" in rv:
            a = self.read_op(st, rv["a"])
            if rv["unop"] == "Not" and a is not None and strip_refs(rv.get("ty", "")) == "bool":
                if a == Iv(0, 0):
                    return Iv(1, 1), None, None
                if a == Iv(1, 1):
                    return Iv(0, 0), None, None
                return Iv(0, 1), None, None
            if rv["unop"] == "Neg" and a is not None:
                m = Iv(-a.hi, -a.lo)
                return (m if rng is None or m.within(rng) else rng), None, None
            return rng, None, None
        if "discr" in rv:
            p = rv["discr"]
            pty = self.ty(p["l"]) if not [e for e in p["p"] if e != "*"] else None
            if pty is not None:
                a = self.prog_adt(pty)
                if a is not None and a["kind"] == "enum" and all(not v["fields"] for v in a["variants"]):
                    cur = st.iv.get(p["l"])
                    return (cur if cur is not None else T.range_of(pty)), None, None
            return rng, None, None
        if "agg" in rv:
            k = rv["agg"]
            if "adt" in k and k["adt"].endswith(("Option", "Result", "ControlFlow")):
                if k["variant"] in ("Some", "Ok", "Continue") and len(rv["ops"]) == 1:
                    return None, self.read_op(st, rv["ops"][0]), None
                return None, BOT, None   # None / Err / Break: no success payload on this path
            if "adt" in k and len(rv["ops"]) == 1:
                v = self.read_op(st, rv["ops"][0])
                if T.range_of(k["adt"]) is not None:
                    return v, None, None
            return rng, None, None
        return rng, None, None

    def eval_cmp(self, op, a, b):
        if a is None or b is None or a.empty() or b.empty():
            return Iv(0, 1)
        if op == "Lt":
            return Iv(1, 1) if a.hi < b.lo else (Iv(0, 0) if a.lo >= b.hi else Iv(0, 1))
        if op == "Le":
            return Iv(1, 1) if a.hi <= b.lo else (Iv(0, 0) if a.lo > b.hi else Iv(0, 1))
        if op == "Gt":
            return Iv(1, 1) if a.lo > b.hi else (Iv(0, 0) if a.hi <= b.lo else Iv(0, 1))
        if op == "Ge":
            return Iv(1, 1) if a.lo >= b.hi else (Iv(0, 0) if a.hi < b.lo else Iv(0, 1))
        if op == "Eq":
            if a.lo == a.hi == b.lo == b.hi:
                return Iv(1, 1)
            return Iv(0, 0) if a.meet(b).empty() else Iv(0, 1)
        if op == "Ne":
            if a.lo == a.hi == b.lo == b.hi:
                return Iv(0, 0)
            return Iv(1, 1) if a.meet(b).empty() else Iv(0, 1)
        return Iv(0, 1)

    def assign(self, st, place, dst_ty, res):
        iv, pay, chk = res
        l = place["l"]
        proj = [e for e in place["p"] if e != "*"]
        if proj:
            # partial write: forget what we knew about the aggregate, unless it is the transparent newtype field
            if len(proj) == 1 and isinstance(proj[0], dict) and proj[0].get("i") == 0 and self.eng.types.range_of(self.ty(l)) is not None and iv is not None:
                st.iv[l] = iv
            else:
                st.iv.pop(l, None)
                st.pay.pop(l, None)
            return
        if place["p"] and place["p"][0] == "*":
            # write through a reference: update what it points to if it is a known alias
            tgt = self.root_local({"l": l, "p": []})
            if tgt is not None and tgt != l:
                if iv is not None:
                    st.iv[tgt] = iv if tgt not in st.iv else st.iv[tgt].join(iv)
                else:
                    st.iv.pop(tgt, None)
            return
        st.iv.pop(l, None)
        st.pay.pop(l, None)
        st.chk.pop(l, None)
        if chk is not None:
            st.chk[l] = chk
        if iv is not None and (is_slice_ty(dst_ty) or (self.eng.types.range_of(dst_ty) is not None and self.eng.types.payload_ty(dst_ty) is None)):
            st.iv[l] = iv
        if pay is not None:
            st.pay[l] = pay

    def transfer_block(self, bb, st, collect=None):
        st = st.copy()
        body = self.body
        for i, s in enumerate(body.stmts(bb)):
            if s["k"] != "assign":
                continue
            pl = s["place"]
            dst_ty = self.ty(pl["l"])
            for e in pl["p"]:
                if isinstance(e, dict) and "ty" in e:
                    dst_ty = e["ty"]
            res = self.eval_rvalue(st, dst_ty, s["rv"])
            if collect is not None and "agg" in s["rv"] and "adt" in s["rv"]["agg"]:
                collect.append(("construct", bb, s, st.copy(), res))
            self.assign(st, pl, dst_ty, res)
            # a `&mut x` borrow lets the borrower change x: forget x (its type range is used from now on)
            if "ref" in s["rv"] and s["rv"].get("mutbl"):
                tgt = s["rv"]["ref"]
                if not tgt["p"] or tgt["p"][0] != "*":
                    pass  # handled at the call that receives the borrow
        return st

    def call_transfer(self, bb, st, t):
        """State after a call terminator (on the normal return edge)."""
        st = st.copy()
        eng = self.eng
        n = callee_name(t)
        d = t["dest"]
        dst_ty = t.get("dest_ty", self.ty(d["l"]))
        args = [self.read_op(st, a) for a in t["args"]]
        pays = []
        for a in t["args"]:
            p = a.get("copy") or a.get("move")
            pays.append(st.pay.get(p["l"]) if p is not None and not p["p"] else None)
        # &mut arguments: the pointee may change arbitrarily
        for a in t["args"]:
            p = a.get("copy") or a.get("move")
            if p is not None and self.ty(p["l"]).startswith("&mut "):
                tgt = self.root_local({"l": p["l"], "p": []})
                if tgt is not None:
                    st.iv.pop(tgt, None)
                    st.pay.pop(tgt, None)
        iv, pay = eng.call_result(self, n, t, args, pays, dst_ty)
        if n.endswith("ArrayMap<I, T> as core::ops::index::Index<I>>::index") and t["args"]:
            hull = self.const_table_hull(t["args"][0])
            if hull is not None:
                iv = hull
        self.assign(st, d, dst_ty, (iv, pay, None))
        return st

    def const_table_hull(self, op, depth=0):
        """If the operand is (a reference to) a decoded constant table of integers, the hull of its entries."""
        from terms import scalar
        if "const" in op:
            v = op["const"].get("val")
            while isinstance(v, dict) and "$ref" in v and len(v) == 1:
                v = v["$ref"]
            if isinstance(v, dict) and "array" in v:
                v = v["array"]
            if isinstance(v, list) and v:
                xs = [scalar(x) for x in v]
                if all(isinstance(x, int) and not isinstance(x, bool) for x in xs):
                    return Iv(min(xs), max(xs))
            return None
        p = op.get("copy") or op.get("move")
        if p is None or depth > 6 or [e for e in p["p"] if e != "*"]:
            return None
        ds = self.defs.get(p["l"], [])
        if len(ds) != 1:
            return None
        d = ds[0]
        if "use" in d:
            return self.const_table_hull(d["use"], depth + 1)
        if "ref" in d:
            return self.const_table_hull({"copy": d["ref"]}, depth + 1)
        return None

    # ---------------------------------------------------------------- branches
    def refine_edge(self, st, t, value, is_otherwise, case_values):
        """State on the edge of a switch taking `value` (or the otherwise edge). None if infeasible."""
        st = st.copy()
        d = t["discr"]
        p = d.get("copy") or d.get("move")
        if p is None or p["p"]:
            return st
        l = p["l"]
        dv = st.iv.get(l)
        # constant discriminant: only the matching edge is feasible
        if dv is not None and not dv.empty() and dv.lo == dv.hi:
            if is_otherwise:
                if dv.lo in case_values:
                    return None
            elif dv.lo != value:
                return None
        truth = None
        if t.get("discr_ty") == "bool":
            truth = (value != 0) if not is_otherwise else (0 in case_values)
        if truth is not None:
            return self.assume_bool(st, l, truth, 0)
        # integer switch on a tracked local (e.g. match on a char / digit)
        root = self.root_local({"l": l, "p": []})
        if root is not None and self.eng.types.range_of(self.ty(root)) is not None and root not in self.guard_defs:
            cur = self.read_place(st, {"l": root, "p": []})
            if cur is not None:
                if not is_otherwise:
                    m = cur.meet(Iv(value, value))
                    if m.empty():
                        return None
                    st.iv[root] = m
                else:
                    # exclude boundary case values
                    lo, hi = cur.lo, cur.hi
                    vs = set(case_values)
                    while lo in vs and lo <= hi:
                        lo += 1
                    while hi in vs and hi >= lo:
                        hi -= 1
                    if lo > hi:
                        return None
                    st.iv[root] = Iv(lo, hi)
        # discriminant of an Option/Result whose success implies an argument range (guard summaries)
        if l in self.guard_defs and not is_otherwise:
            self.eng.apply_guard(self, st, self.guard_defs[l], value)
        return st

    def assume_bool(self, st, l, truth, depth):
        if depth > 6:
            return st
        if l in self.not_defs:
            p = self.not_defs[l].get("copy") or self.not_defs[l].get("move")
            if p is not None and not p["p"]:
                return self.assume_bool(st, p["l"], not truth, depth + 1)
            return st
        if l in self.alias and not self.alias[l]["p"] and l not in self.cmp_defs:
            return self.assume_bool(st, self.alias[l]["l"], truth, depth + 1)
        if l in self.cmp_defs:
            op, a, b = self.cmp_defs[l]
            if not truth:
                op = {"Lt": "Ge", "Le": "Gt", "Gt": "Le", "Ge": "Lt", "Eq": "Ne", "Ne": "Eq"}[op]
            av = self.read_op(st, a)
            bv = self.read_op(st, b)
            if av is None or bv is None:
                return st
            na, nb = av, bv
            if op == "Lt":
                na, nb = av.meet(Iv(-INF, bv.hi - 1)), bv.meet(Iv(av.lo + 1, INF))
            elif op == "Le":
                na, nb = av.meet(Iv(-INF, bv.hi)), bv.meet(Iv(av.lo, INF))
            elif op == "Gt":
                na, nb = av.meet(Iv(bv.lo + 1, INF)), bv.meet(Iv(-INF, av.hi - 1))
            elif op == "Ge":
                na, nb = av.meet(Iv(bv.lo, INF)), bv.meet(Iv(-INF, av.hi))
            elif op == "Eq":
                na = nb = av.meet(bv)
            elif op == "Ne":
                if bv.lo == bv.hi:
                    if av.lo == bv.lo:
                        na = Iv(av.lo + 1, av.hi)
                    elif av.hi == bv.lo:
                        na = Iv(av.lo, av.hi - 1)
                if av.lo == av.hi:
                    if bv.lo == av.lo:
                        nb = Iv(bv.lo + 1, bv.hi)
                    elif bv.hi == av.lo:
                        nb = Iv(bv.lo, bv.hi - 1)
            if na.empty() or nb.empty():
                return None
            for o, nv in ((a, na), (b, nb)):
                p = o.get("copy") or o.get("move")
                if p is None:
                    continue
                r = self.root_local(p)
                if r is not None:
                    st.iv[r] = nv
                    # keep the directly named local in sync as well
                    if not p["p"]:
                        st.iv[p["l"]] = nv
            return st
        # a materialised `a && b` / `a || b`: two definitions, one of them the constant that short-circuits
        sites = self.def_sites.get(l, [])
        if len(sites) == 2:
            const_sites = [(bb, rv) for bb, rv in sites if isinstance(rv, dict) and "use" in rv and "const" in rv["use"] and isinstance(rv["use"]["const"].get("val"), bool)]
            other = [(bb, rv) for bb, rv in sites if (bb, rv) not in const_sites]
            if len(const_sites) == 1 and len(other) == 1 and const_sites[0][1]["use"]["const"]["val"] != truth:
                # the value came from the other definition: that one has this truth, and so has the test that led to it
                obb, orv = other[0]
                tmp = None
                if isinstance(orv, dict) and "call" in orv:
                    self.eng.apply_bool_guard(self, st, l, truth, site=orv)
                elif isinstance(orv, dict) and "use" in orv:
                    q = orv["use"].get("copy") or orv["use"].get("move")
                    if q is not None and not q["p"]:
                        r = self.assume_bool(st, q["l"], truth, depth + 1)
                        if r is None:
                            return None
                        st = r
                preds = [p for p in self.body.predecessors()[obb] if not self.body.is_cleanup(p)]
                if len(preds) == 1:
                    pt = self.body.term(preds[0])
                    if pt["k"] == "switch" and pt.get("discr_ty") == "bool":
                        q = pt["discr"].get("copy") or pt["discr"].get("move")
                        zero = [c[1] for c in pt["cases"] if c[0] == 0]
                        took_true = not (zero and zero[0] == obb)
                        if q is not None and not q["p"] and took_true == truth:
                            r = self.assume_bool(st, q["l"], truth, depth + 1)
                            if r is None:
                                return None
                            st = r
                return st
        # boolean produced by a call with a known "true implies" summary
        self.eng.apply_bool_guard(self, st, l, truth)
        return st

    # ---------------------------------------------------------------- fixpoint
    def _run(self):
        body = self.body
        st0 = State()
        for i in range(1, body.arg_count + 1):
            if i in self.params and self.params[i] is not None:
                st0.iv[i] = self.params[i]
        self.inn = {0: st0}
        visits = {}
        work = [0]
        loop_heads = {h for _, h in cfg.back_edges(body)}
        while work:
            bb = work.pop(0)
            st = self.inn[bb]
            out = self.transfer_block(bb, st)
            t = body.term(bb)
            succs = []
            if t["k"] == "goto":
                succs.append((t["target"], out))
            elif t["k"] == "switch":
                cvals = [c[0] for c in t["cases"]]
                for v, tgt in t["cases"]:
                    r = self.refine_edge(out, t, v, False, cvals)
                    if r is not None:
                        succs.append((tgt, r))
                r = self.refine_edge(out, t, None, True, cvals)
                if r is not None:
                    succs.append((t["otherwise"], r))
            elif t["k"] == "assert":
                o2 = out.copy()
                # after a passed overflow assert the tuple's .0 is inside the type range (read_place handles it)
                c = t["cond"]
                p = c.get("copy") or c.get("move")
                if p is not None and not p["p"]:
                    r = self.assume_bool(o2, p["l"], t["expected"], 0)
                    if r is None:
                        continue
                    o2 = r
                elif p is not None and p["l"] in o2.chk:
                    m, rng = o2.chk[p["l"]]
                    o2.chk[p["l"]] = (m.meet(rng), rng)
                # bounds check passed: index < len
                if t["msg"] == "BoundsCheck":
                    ln = self.read_op(o2, t["msg_ops"][0])
                    ip = t["msg_ops"][1].get("copy") or t["msg_ops"][1].get("move")
                    if ln is not None and ip is not None and not ip["p"]:
                        cur = self.read_place(o2, ip)
                        if cur is not None:
                            o2.iv[ip["l"]] = cur.meet(Iv(-INF, ln.hi - 1))
                succs.append((t["target"], o2))
            elif t["k"] == "drop":
                succs.append((t["target"], out))
            elif t["k"] == "call":
                if t["target"] is not None and not self.eng.diverges(t):
                    succs.append((t["target"], self.call_transfer(bb, out, t)))
            elif t["k"] == "return":
                self.returns = True
                r = self.read_place(out, {"l": 0, "p": []})
                if r is not None:
                    self.ret = self.ret.join(r)
                if 0 in out.pay:
                    self.ret_pay = self.ret_pay.join(out.pay[0])
                elif self.eng.types.payload_ty(self.ty(0)) is not None:
                    pr = self.eng.types.range_of(self.eng.types.payload_ty(self.ty(0)))
                    if pr is not None:
                        self.ret_pay = self.ret_pay.join(pr)
            for tgt, s2 in succs:
                if tgt not in self.inn:
                    self.inn[tgt] = s2
                    work.append(tgt)
                    continue
                old = self.inn[tgt]
                new = old.join(s2)
                if new == old:
                    continue
                visits[tgt] = visits.get(tgt, 0) + 1
                if tgt in loop_heads and visits[tgt] > 3:
                    # widen: drop everything that is still changing
                    for k in list(new.iv):
                        if k not in old.iv or old.iv[k] != new.iv[k]:
                            del new.iv[k]
                    for k in list(new.pay):
                        if k not in old.pay or old.pay[k] != new.pay[k]:
                            del new.pay[k]
                    new.chk = {k: v for k, v in new.chk.items() if k in old.chk and old.chk[k] == v}
                self.inn[tgt] = new
                if tgt not in work:
                    work.append(tgt)

    # ---------------------------------------------------------------- queries
    def feasible(self, bb):
        return bb in self.inn

    def state_before_term(self, bb):
        return self.transfer_block(bb, self.inn[bb]) if bb in self.inn else None

    def cond_value(self, bb):
        """Definite boolean of an assert/switch condition at the end of block bb: True / False / None."""
        st = self.state_before_term(bb)
        if st is None:
            return None
        t = self.body.term(bb)
        o = t.get("cond") or t.get("discr")
        p = o.get("copy") or o.get("move")
        if p is None:
            v = self.read_op(st, o)
        elif p["p"] and p["l"] in st.chk:
            v = self.read_place(st, p)
        elif not p["p"] and p["l"] in self.cmp_defs and p["l"] not in st.iv:
            op, a, b = self.cmp_defs[p["l"]]
            v = self.eval_cmp(op, self.read_op(st, a), self.read_op(st, b))
        else:
            v = self.read_place(st, p)
        if v is None or v.empty():
            return None
        if v.lo == v.hi:
            return bool(v.lo)
        return None


class Engine:
    def __init__(self, prog):
        self.prog = prog
        self.inv = load_invariants()
        self.types = Types(prog, self.inv)
        self.param_env = {}    # fn name -> {param index: Iv} joined over analysed call sites
        self.cache = {}
        self._in_progress = set()
        self._depth = 0
        self.summaries = {}

    # -- callee knowledge
    def diverges(self, t):
        return t["target"] is None

    def std_result(self, n, t, args, pays, dst_ty):
        T = self.types
        base = n.split("::")[-1]
        if base in ("len", "count", "capacity") and strip_refs(dst_ty) == "usize":
            return Iv(0, 2 ** 63 - 1), None
        if base in ("trailing_zeros", "leading_zeros", "count_ones", "count_zeros", "leading_ones", "trailing_ones"):
            bits = 64
            for a in t["args"]:
                ty = strip_refs(a["const"]["ty"]) if "const" in a else None
            m = re.search(r"impl (u|i)(\d+)>", n)
            if m:
                bits = int(m.group(2))
            return Iv(0, bits), None
        if n.endswith("<impl char>::to_digit"):
            r = args[1] if len(args) > 1 and args[1] is not None else Iv(2, 36)
            return None, Iv(0, max(0, r.hi - 1))
        if base in ("min",) and len(args) == 2 and args[0] is not None and args[1] is not None:
            return Iv(min(args[0].lo, args[1].lo), min(args[0].hi, args[1].hi)), None
        if base in ("max",) and len(args) == 2 and args[0] is not None and args[1] is not None:
            return Iv(max(args[0].lo, args[1].lo), max(args[0].hi, args[1].hi)), None
        if base in ("abs",) and args and args[0] is not None:
            a = args[0]
            return Iv(0, max(abs(a.lo), abs(a.hi))), None
        if base in ("saturating_sub",) and len(args) == 2 and args[0] is not None:
            return Iv(0, args[0].hi) if args[0].lo >= 0 else T.range_of(dst_ty), None
        # Option/Result adapters that keep the success payload
        if base in ("ok_or", "ok_or_else", "ok", "map_err", "copied", "cloned", "branch", "into_iter", "as_ref", "peekable", "or") and pays and pays[0] is not None:
            return None, pays[0]
        if base in ("unwrap", "expect", "unwrap_or", "unwrap_or_default", "unwrap_or_else") and pays and pays[0] is not None:
            v = pays[0]
            if base in ("unwrap_or",) and len(args) > 1 and args[1] is not None:
                v = v.join(args[1])
            elif base in ("unwrap_or_default", "unwrap_or_else"):
                v = None
            return v, None
        if base in ("from", "into", "try_from", "try_into") and n.startswith("<") and "core::convert" in n and "weechess" not in n and args and args[0] is not None:
            # std integer conversions
            to = T.range_of(dst_ty)
            if to is not None:
                return (args[0] if args[0].within(to) else to), None
        return "unknown", None

    def call_result(self, fa, n, t, args, pays, dst_ty):
        T = self.types
        if n in self.prog.bodies:
            # record the call-site argument intervals (closed-world parameter environments)
            env = self.param_env.setdefault(n, {})
            for i, a in enumerate(args):
                if a is None:
                    continue
                env[i + 1] = a if (i + 1) not in env else env[i + 1].join(a)
            s = None
            cb = self.prog.body(n)
            if len(cb.blocks) <= 30 and self._depth < 3 and n not in self._in_progress and any(a is not None for a in args):
                self._depth += 1
                self._in_progress.add(n)
                try:
                    fa2 = self.analyse(n, {i + 1: a for i, a in enumerate(args) if a is not None})
                    s = (fa2.ret if fa2.returns else None, fa2.ret_pay if fa2.returns and not fa2.ret_pay.empty() else None)
                finally:
                    self._depth -= 1
                    self._in_progress.discard(n)
            if s is None:
                s = self.summary(n)
            if s is not None:
                iv, pay = s
                rng = T.range_of(dst_ty)
                pty = T.payload_ty(dst_ty)
                if pty is not None:
                    return None, (pay if pay is not None and not pay.empty() else T.range_of(pty))
                if rng is not None:
                    return (iv if iv is not None and not iv.empty() else rng), None
            return T.range_of(dst_ty), (T.range_of(T.payload_ty(dst_ty)) if T.payload_ty(dst_ty) else None)
        r = self.std_result(n, t, args, pays, dst_ty)
        if r[0] != "unknown":
            return r
        pty = T.payload_ty(dst_ty)
        return T.range_of(dst_ty) if pty is None else None, (T.range_of(pty) if pty else None)

    def summary(self, name):
        """(return interval, payload interval) of a workspace function with parameters at their type/invariant ranges."""
        if name in self.summaries:
            return self.summaries[name]
        if name in self._in_progress:
            return None
        body = self.prog.body(name)
        if body is None or len(body.blocks) > 400:
            return None
        self._in_progress.add(name)
        try:
            fa = FnAnalysis(self, body, {})
            res = (fa.ret if fa.returns else None, fa.ret_pay if fa.returns and not fa.ret_pay.empty() else None)
        finally:
            self._in_progress.discard(name)
        self.summaries[name] = res
        return res

    def analyse(self, name, params=None):
        key = (name, tuple(sorted((k, (v.lo, v.hi)) for k, v in (params or {}).items())))
        if key not in self.cache:
            self.cache[key] = FnAnalysis(self, self.prog.body(name), params or {})
        return self.cache[key]

    # -- guard summaries: success of a fallible constructor implies an argument range
    def success_range(self, name):
        """If workspace fn `name` returns Ok/Some only when its (single integer) argument lies in a range, return (param index, Iv)."""
        g = self.inv.get("success_implies", {}).get(name)
        if g:
            return g["param"], Iv(g["range"][0], g["range"][1])
        return None

    def apply_guard(self, fa, st, discr_place, value):
        """On the edge where discriminant(place) == value: if place holds (adapters of) the result of a guarded constructor,
        refine the constructor's argument."""
        if discr_place["p"]:
            return
        l = discr_place["l"]
        success = {"core::option::Option": 1, "core::result::Result": 0, "core::ops::control_flow::ControlFlow": 0}
        ty = strip_refs(fa.ty(l))
        want = None
        for k, v in success.items():
            if ty.startswith(k + "<"):
                want = v
        if want is None or value != want:
            return
        # walk back through adapters
        cur = l
        for _ in range(8):
            ds = fa.defs.get(cur, [])
            if len(ds) != 1:
                return
            d = ds[0]
            if "call" in d:
                t = d["call"]
                n = callee_name(t)
                base = n.split("::")[-1]
                sr = self.success_range(n)
                if sr is not None:
                    pi, rng = sr
                    a = t["args"][pi - 1]
                    p = a.get("copy") or a.get("move")
                    if p is not None:
                        r = fa.root_local(p)
                        if r is not None:
                            curv = fa.read_place(st, {"l": r, "p": []}) or rng
                            st.iv[r] = curv.meet(rng)
                            if not p["p"]:
                                st.iv[p["l"]] = st.iv[r]
                    return
                if base in ("map_err", "ok_or", "ok_or_else", "ok", "branch", "map", "copied", "cloned") and t["args"]:
                    p = t["args"][0].get("copy") or t["args"][0].get("move")
                    if p is None or p["p"]:
                        return
                    cur = p["l"]
                    continue
                return
            if "use" in d:
                p = d["use"].get("copy") or d["use"].get("move")
                if p is None or p["p"]:
                    return
                cur = p["l"]
                continue
            return

    def apply_bool_guard(self, fa, st, l, truth, site=None):
        """Booleans produced by `range.contains(&x)` with constant bounds refine x like the two comparisons they stand for."""
        from facts import callee_name
        cands = [site] if site is not None else (fa.defs.get(l, []) if len(fa.defs.get(l, [])) == 1 else [])
        for d in cands:
            if not isinstance(d, dict) or "call" not in d:
                continue
            t = d["call"]
            n = callee_name(t)
            if not (n.endswith("::contains") and "ops::range::Range" in n and len(t["args"]) == 2):
                continue
            rp = t["args"][0].get("copy") or t["args"][0].get("move")
            xp = t["args"][1].get("copy") or t["args"][1].get("move")
            if rp is None or xp is None:
                continue
            rl = fa.root_local(rp)
            xr = fa.root_local(xp)
            if rl is None or xr is None:
                continue
            lo = hi = None
            inclusive = "RangeInclusive" in n
            for rd in fa.defs.get(rl, []):
                if isinstance(rd, dict) and "call" in rd and callee_name(rd["call"]).endswith("RangeInclusive::<Idx>::new"):
                    a = [fa.read_op(st, x) for x in rd["call"]["args"]]
                    if len(a) == 2 and all(v is not None and not v.empty() and v.lo == v.hi for v in a):
                        lo, hi = a[0].lo, a[1].lo
                elif isinstance(rd, dict) and "agg" in rd and "Range" in str(rd["agg"].get("adt", "")):
                    a = [fa.read_op(st, x) for x in rd.get("ops", [])]
                    if len(a) == 2 and all(v is not None and not v.empty() and v.lo == v.hi for v in a):
                        lo, hi = a[0].lo, a[1].lo
                elif isinstance(rd, dict) and "use" in rd and "const" in rd["use"]:
                    v = rd["use"]["const"].get("val")
                    while isinstance(v, dict) and "$ref" in v and len(v) == 1:
                        v = v["$ref"]
                    if isinstance(v, dict) and "Range" in str(v.get("$ty", "")) and isinstance(v.get("start"), int) and isinstance(v.get("end"), int):
                        lo, hi = v["start"], v["end"]
            if lo is None:
                continue
            if not inclusive:
                hi -= 1
            cur = fa.read_place(st, {"l": xr, "p": []})
            if cur is None:
                continue
            if truth:
                st.iv[xr] = cur.meet(Iv(lo, hi))
            elif cur.lo >= lo:
                st.iv[xr] = cur.meet(Iv(hi + 1, INF))
            elif cur.hi <= hi:
                st.iv[xr] = cur.meet(Iv(-INF, lo - 1))
        return
