"""Rule engine core: obligations, anchors (fail closed), floors, evidence, known findings."""
import json
import os
import time
import traceback

VERIF = os.path.dirname(os.path.dirname(os.path.abspath(__file__)))


class AnchorMissing(Exception):
    pass


class Ob:
    __slots__ = ("rule", "key", "where", "status", "reason")

    def __init__(self, rule, key, where, status, reason):
        self.rule = rule
        self.key = key
        self.where = where
        self.status = status  # ok | failed | anchor_missing | analysis_error | floor
        self.reason = reason

    def full_key(self):
        return "%s|%s" % (self.rule, self.key)

    def as_json(self):
        return {"rule": self.rule, "key": self.key, "where": self.where, "status": self.status, "reason": self.reason}


class Check:
    """One run of one property's rules over one Program."""

    def __init__(self, pid, prog, tier="quick", seed=0, level="other"):
        self.pid = pid
        self.prog = prog
        self.tier = tier
        self.seed = seed
        self.level = level
        self.obs = []
        self.samples = []
        self.trusted = []
        self.assumptions = []
        self.not_decided = []
        self.explanation = ""
        self.extra = {}
        self.rules_run = []
        self._seen = set()
        self.profile = "dev"     # build configuration whose MIR is being analysed
        self._prefix = ""
        self.configs = ["dev"]

    def begin_config(self, profile, prog):
        """Re-run the rules on another build configuration; obligation keys are prefixed with the configuration."""
        self.profile = profile
        self.prog = prog
        self._prefix = profile + "/"
        self.configs.append(profile)

    # ---- recording
    def _add(self, rule, key, where, status, reason):
        key = self._prefix + key
        k = (rule, key)
        n = 1
        base = key
        while k in self._seen:
            n += 1
            key = "%s#%d" % (base, n)
            k = (rule, key)
        self._seen.add(k)
        self.obs.append(Ob(rule, key, where, status, reason))

    def ok(self, rule, key, where="", note=""):
        self._add(rule, key, where, "ok", note)

    def fail(self, rule, key, where, reason):
        self._add(rule, key, where, "failed", reason)

    def req(self, cond, rule, key, where, reason, note=""):
        if cond:
            self.ok(rule, key, where, note)
        else:
            self.fail(rule, key, where, reason)
        return bool(cond)

    def missing(self, rule, what, searched=""):
        self._add(rule, "anchor:" + what, "", "anchor_missing",
                  "anchor not found in the fact base: %s%s" % (what, (" (" + searched + ")") if searched else ""))

    def floor(self, rule, n, floor, what):
        if isinstance(floor, dict):
            floor = floor.get(self.profile, floor["dev"])
        if n < floor:
            self._add(rule, "floor:" + what, "", "floor",
                      "rule matched %d instance(s) of '%s' but at least %d were counted by hand on the reference tree" % (n, what, floor))
        else:
            self.ok(rule, "floor:" + what, "", "%d >= %d" % (n, floor))

    def sample(self, x):
        if len(self.samples) < 40:
            self.samples.append(x)

    # ---- anchors
    def body(self, name, rule="anchor"):
        b = self.prog.body(name)
        if b is None:
            self.missing(rule, name, "function body")
            raise AnchorMissing(name)
        return b

    def const(self, name, rule="anchor"):
        if name not in self.prog.consts:
            self.missing(rule, name, "const item")
            raise AnchorMissing(name)
        self.prog.touched_consts.add(name)
        return self.prog.consts[name]["value"]

    def adt(self, name, rule="anchor"):
        a = self.prog.adt(name)
        if a is None:
            self.missing(rule, name, "type")
            raise AnchorMissing(name)
        return a

    # ---- running rules
    def run_rule(self, fn, *args):
        name = fn.__name__
        self.rules_run.append(name)
        saved = self.prog.inlining
        if getattr(fn, "raw_bodies", False):
            self.prog.inlining = False      # inventories are keyed per function: no splicing
        try:
            try:
                fn(self, *args)
            finally:
                self.prog.inlining = saved
        except AnchorMissing:
            pass
        except Exception as e:  # fail closed: an unexpected MIR shape is reported, never ignored
            tb = traceback.format_exc().strip().splitlines()
            self._add(name, "analysis_error", "", "analysis_error",
                      "rule could not analyse the current tree (%s: %s) at %s" % (type(e).__name__, e, tb[-3].strip() if len(tb) >= 3 else ""))

    # ---- results
    def failed(self):
        return [o for o in self.obs if o.status != "ok"]


def load_known():
    p = os.path.join(VERIF, "known_findings.json")
    try:
        with open(p) as fh:
            return json.load(fh).get("entries", [])
    except (OSError, ValueError):
        return []


def kkey(o):
    # the same construct analysed under another build configuration is the same finding
    k = o.key
    for cfgname in ("release/", "dev-all/"):
        if k.startswith(cfgname):
            k = k[len(cfgname):]
    return "%s|%s" % (o.rule, k)


def split_known(ck):
    """-> (failed obligations not listed, failed obligations listed as known findings, {key: entry})"""
    known = [e for e in load_known() if e.get("status") == "known" and e.get("property") == ck.pid]
    known_keys = {e["key"]: e for e in known}
    failed = ck.failed()
    return [o for o in failed if kkey(o) not in known_keys], [o for o in failed if kkey(o) in known_keys], known_keys


def finish(ck, t0, facts_info, cmd, level_text=""):
    """Write evidence, print verdict lines, return exit code."""
    unlisted, listed, known_keys = split_known(ck)
    failed = ck.failed()
    for o in listed:
        print("KNOWN-FINDING: property=%s %s %s: %s" % (ck.pid, o.rule, o.key, known_keys[kkey(o)].get("what", o.reason)))
    n_ok = sum(1 for o in ck.obs if o.status == "ok")
    by_rule = {}
    for o in ck.obs:
        r = by_rule.setdefault(o.rule, {"instances": 0, "ok": 0})
        r["instances"] += 1
        if o.status == "ok":
            r["ok"] += 1
    distinct = len({(o.rule, o.key) for o in ck.obs if "floor:" not in o.key})
    units = [u for u in ck.prog.unit_names()]
    coverage = {
        "obligations": len(ck.obs),
        "discharged": n_ok,
        "evaluations": len(ck.obs),
        "distinct_nontrivial": distinct,
        "rule": "every obligation is one rule instance on one construct of the current tree (function, call site, "
                "constant, table entry); floors are excluded from distinct_nontrivial",
        "checker_cmd": cmd,
        "trusted_base": ck.trusted,
        "explanation": ck.explanation,
        "not_decided": ck.not_decided,
        "rules": by_rule,
        "samples": ck.samples[:40] if ck.samples else [o.as_json() for o in ck.obs[:10]],
        "units_analysed": ["%s%s%s" % (u[0], " (test)" if u[2] else "", " (duplicate host build)" if u[3] else "") for u in units],
        "functions_in_fact_base": len(ck.prog.bodies),
        "functions_looked_up_by_name": len(getattr(ck.prog, "touched_bodies", ())),
        "constants_looked_up_by_name": len(getattr(ck.prog, "touched_consts", ())),
        "facts": facts_info,
        "build_configurations_analysed": ck.configs,
        "helpers_inlined": {k: v for k, v in sorted(getattr(ck.prog, "inlined_helpers", {}).items())},
        "exhaustive": False,
        "failed": [o.as_json() for o in failed][:50],
        "known_findings_matched": [o.full_key() for o in listed],
        "open_obligations_listed_as_known_findings": len(listed),
    }
    coverage.update(ck.extra)
    ev = {
        "property_id": ck.pid,
        "tier": ck.tier,
        "seed": ck.seed,
        "level": ck.level,
        "coverage": coverage,
        "assumptions": ck.assumptions,
        "wall_s": round(time.time() - t0, 2),
        "violations": len(unlisted),
    }
    os.makedirs(os.path.join(VERIF, "evidence"), exist_ok=True)
    with open(os.path.join(VERIF, "evidence", ck.pid + ".json"), "w") as fh:
        json.dump(ev, fh, indent=1)
    if unlisted:
        rp = os.path.join(VERIF, "evidence", ck.pid + ".replay.json")
        with open(rp, "w") as fh:
            json.dump({"property": ck.pid, "failed": [o.as_json() for o in unlisted]}, fh, indent=1)
        print("VIOLATION property=%s replay=%s" % (ck.pid, rp))
        for o in unlisted:
            print("  [%s] %s %s %s: %s" % (o.status, o.rule, o.where, o.key, o.reason))
        return 1
    print("OK property=%s tier=%s obligations=%d discharged=%d rules=%d wall=%.1fs"
          % (ck.pid, ck.tier, len(ck.obs), n_ok, len(by_rule), time.time() - t0))
    return 0
