"""A3: term extraction.  For an operand at a program point, a backward slice over def-use chains
builds an expression tree whose leaves are parameters, named constants (with values), literals
and multiply-assigned variables.  Indirection (& and *) is dropped: terms describe values.

Terms are nested tuples:
  ('param', i)                       i-th MIR local that is an argument (1-based like MIR)
  ('var', l, name)                   local with several definitions / mutated through a borrow
  ('const', path|None, value)        named constant and/or literal value (decoded JSON)
  ('fn', name)                       function item / closure used as a value
  ('field', t, name) ('variant', t, name) ('index', t, i) ('cindex', t, n)
  ('bin', op, a, b) ('un', op, a) ('cast', to, a) ('discr', t)
  ('agg', kind, (t...))              struct/tuple/array/closure construction
  ('call', callee, (t...))           result of a call (callee = most resolved name)
"""
from facts import callee_name

COMMUTATIVE = {"Add", "Mul", "BitAnd", "BitOr", "BitXor", "Eq", "Ne", "AddUnchecked", "MulUnchecked"}


class Defs:
    """Definition sites of the locals of one body."""

    def __init__(self, body):
        self.body = body
        self.defs = {}      # local -> list of ('assign', bb, i, rv) | ('call', bb, term)
        self.mutated = set()  # locals written through projections
        self.borrowed_mut = set()  # locals whose address is taken mutably (value at the definition is still the definition)
        for bb, blk in enumerate(body.blocks):
            for i, s in enumerate(blk["stmts"]):
                if s["k"] == "assign":
                    p = s["place"]
                    if not p["p"]:
                        self.defs.setdefault(p["l"], []).append(("assign", bb, i, s["rv"]))
                    else:
                        # writing through a reference does not redefine the reference itself
                        if p["p"][0] != "*":
                            self.mutated.add(p["l"])
                    rv = s["rv"]
                    if "ref" in rv and rv.get("mutbl"):
                        self._borrowed_mut(rv["ref"])
                    if "rawptr" in rv:
                        self._borrowed_mut(rv["rawptr"])
                elif s["k"] == "set_discr":
                    self.mutated.add(s["place"]["l"])
            t = blk["term"]
            if t["k"] == "call":
                d = t["dest"]
                if not d["p"]:
                    self.defs.setdefault(d["l"], []).append(("call", bb, t))
                elif d["p"][0] != "*":
                    self.mutated.add(d["l"])

    def _borrowed_mut(self, place):
        # `&mut x` / `&mut x.f` makes x's value depend on what the borrower does; `&mut *r` does not touch r
        if not place["p"] or place["p"][0] != "*":
            self.borrowed_mut.add(place["l"])

    def single(self, l, strict=False):
        ds = self.defs.get(l, [])
        if len(ds) == 1 and l not in self.mutated and not (strict and l in self.borrowed_mut):
            return ds[0]
        return None


class TermBuilder:
    def __init__(self, prog, body, inline_depth=0, max_depth=60):
        self.prog = prog
        self.body = body
        self.d = Defs(body)
        self.inline_depth = inline_depth
        self.max_depth = max_depth
        self._cache = {}

    # ---- leaves
    def const(self, c):
        if "fn" in c:
            f = c["fn"]
            return ("fn", f.get("resolved") or f["$fn"])
        return ("const", c.get("path") if "promoted" not in c else None, freeze(c.get("val")))

    def operand(self, o, depth=0):
        if "const" in o:
            return self.const(o["const"])
        p = o.get("copy") or o.get("move")
        return self.place(p, depth)

    def place(self, p, depth=0):
        t = self.local(p["l"], depth)
        for e in p["p"]:
            if e == "*":
                continue
            if "f" in e:
                t = mk_field(t, e["f"], e["i"])
            elif "downcast" in e:
                t = ("variant", t, e["downcast"] or str(e["v"]))
            elif "index" in e:
                t = ("index", t, self.local(e["index"], depth + 1))
            elif "cindex" in e:
                t = ("cindex", t, e["cindex"])
            else:
                t = ("proj", t, tuple(sorted(e.keys())))
        return t

    def local(self, l, depth=0):
        if l in self._cache:
            return self._cache[l]
        if depth > self.max_depth:
            return ("var", l, self.body.local_name(l))
        d = self.d.single(l)
        is_arg = 1 <= l <= self.body.arg_count
        if is_arg:
            if l not in self.d.defs and l not in self.d.mutated:
                t = ("param", l)
            else:
                t = ("var", l, self.body.local_name(l))
        elif d is None:
            t = ("var", l, self.body.local_name(l))
        else:
            self._cache[l] = ("var", l, self.body.local_name(l))  # recursion guard
            t = self.expand(d, depth + 1)
        self._cache[l] = t
        return t

    def expand(self, d, depth):
        if d[0] == "call":
            return self.call_term(d[2], depth)
        rv = d[3]
        return self.rvalue(rv, depth)

    def rvalue(self, rv, depth=0):
        if "use" in rv:
            return self.operand(rv["use"], depth)
        if "ref" in rv:
            return self.place(rv["ref"], depth)
        if "rawptr" in rv:
            return self.place(rv["rawptr"], depth)
        if "cast" in rv:
            inner = self.operand(rv["cast"], depth)
            if rv["kind"].startswith("PointerCoercion") or rv["kind"] in ("PtrToPtr", "Transmute", "Subtype"):
                return inner
            return ("cast", rv["to"], inner)
        if "binop" in rv:
            return mk_bin(rv["binop"], self.operand(rv["a"], depth), self.operand(rv["b"], depth), rv.get("ty"))
        if "unop" in rv:
            return ("un", rv["unop"], self.operand(rv["a"], depth), rv.get("ty"))
        if "discr" in rv:
            return ("discr", self.place(rv["discr"], depth))
        if "agg" in rv:
            k = rv["agg"]
            if "adt" in k:
                kind = "%s::%s" % (k["adt"], k["variant"])
            elif "closure" in k:
                kind = "closure:" + k["closure"]
            elif "array" in k:
                kind = "array"
            else:
                kind = "tuple"
            return ("agg", kind, tuple(self.operand(o, depth) for o in rv["ops"]))
        if "repeat" in rv:
            return ("repeat", self.operand(rv["repeat"], depth), rv["count"])
        return ("opaque", freeze(rv))

    def call_term(self, t, depth=0):
        args = tuple(self.operand(a, depth) for a in t["args"])
        if "callee" not in t:
            return ("icall", self.operand(t["indirect"], depth), args)
        name = callee_name(t)
        if self.inline_depth > 0:
            r = inline_call(self.prog, name, args, self.inline_depth)
            if r is not None:
                return r
        return ("call", name, args)


def mk_field(t, name, idx):
    # (a op-with-overflow b).0 is the arithmetic result, .1 the overflow flag
    if t[0] == "bin" and t[1].endswith("WithOverflow"):
        if idx == 0:
            return mk_bin(t[1][: -len("WithOverflow")], t[2], t[3], t[4] if len(t) > 4 else None)
        return ("overflow", t)
    if t[0] == "agg" and t[1] == "tuple" and idx < len(t[2]):
        return t[2][idx]
    return ("field", t, name)


def mk_bin(op, a, b, ty=None):
    if op in COMMUTATIVE and repr(b) < repr(a):
        a, b = b, a
    return ("bin", op, a, b, ty)


def freeze(v):
    if isinstance(v, dict):
        return tuple(sorted((k, freeze(x)) for k, x in v.items()))
    if isinstance(v, list):
        return tuple(freeze(x) for x in v)
    return v


def thaw(v):
    if isinstance(v, tuple):
        if v and all(isinstance(x, tuple) and len(x) == 2 and isinstance(x[0], str) for x in v):
            return {k: thaw(x) for k, x in v}
        return [thaw(x) for x in v]
    return v


def subst(t, mapping):
    """Replace ('param', i) leaves by mapping[i]."""
    if not isinstance(t, tuple):
        return t
    if t and t[0] == "param":
        return mapping.get(t[1], t)
    if t and t[0] == "const":
        return t
    return tuple(subst(x, mapping) for x in t)


def return_term(prog, body, inline_depth=0):
    """Term of the return value if `_0` has exactly one definition on the (single) normal path; else None."""
    tb = TermBuilder(prog, body, inline_depth=inline_depth)
    d = tb.d.single(0)
    if d is None:
        return None
    return tb.local(0)


_INLINE_OK = {}


def inline_call(prog, name, args, depth):
    """Inline a call to a small workspace function whose result is a single expression of its parameters."""
    body = prog.body(name)
    if body is None or len(body.blocks) > 12:
        return None
    key = (name, depth)
    if key not in _INLINE_OK:
        rt = return_term(prog, body, inline_depth=depth - 1)
        if rt is not None and contains_var(rt):
            rt = None
        _INLINE_OK[key] = rt
    rt = _INLINE_OK[key]
    if rt is None:
        return None
    mapping = {i + 1: a for i, a in enumerate(args)}
    return subst(rt, mapping)


def contains_var(t):
    if not isinstance(t, tuple):
        return False
    if t and t[0] in ("var", "opaque"):
        return True
    if t and t[0] == "const":
        return False
    return any(contains_var(x) for x in t)


def const_value(t):
    """Scalar value of a const term (ints, bools, chars, newtypes around them) or None."""
    if not isinstance(t, tuple) or not t or t[0] != "const":
        return None
    return scalar(thaw(t[2]))


def scalar(v):
    """Unwrap decoded newtype structs/enums to a Python scalar where unambiguous."""
    if isinstance(v, (int, float, bool, str)) or v is None:
        return v
    if isinstance(v, dict):
        if "$ref" in v and len(v) == 1:
            return scalar(v["$ref"])
        if "$char" in v:
            return v["$char"]
        if "$str" in v:
            return v["$str"]
        if "$discr" in v and len([k for k in v if not k.startswith("$")]) == 0:
            return v["$discr"]
        fields = [k for k in v if not k.startswith("$")]
        if len(fields) == 1:
            return scalar(v[fields[0]])
    return None


def show(t, short=True):
    from facts import short as sh
    if not isinstance(t, tuple) or not t:
        return repr(t)
    k = t[0]
    if k == "param":
        return "p%d" % t[1]
    if k == "var":
        return "%s" % (t[2] or ("_%d" % t[1]))
    if k == "const":
        v = scalar(thaw(t[2]))
        name = sh(t[1]) if t[1] else None
        if name and v is not None:
            return "%s=%r" % (name.split("::")[-1] if short else name, v)
        if name:
            return name.split("::")[-1] if short else name
        return repr(v) if v is not None else "const"
    if k == "fn":
        return "fn " + sh(t[1])
    if k == "field":
        return "%s.%s" % (show(t[1]), t[2])
    if k == "variant":
        return "(%s as %s)" % (show(t[1]), t[2])
    if k == "index":
        return "%s[%s]" % (show(t[1]), show(t[2]))
    if k == "cindex":
        return "%s[%d]" % (show(t[1]), t[2])
    if k == "bin":
        return "%s(%s, %s)" % (t[1], show(t[2]), show(t[3]))
    if k == "un":
        return "%s(%s)" % (t[1], show(t[2]))
    if k == "cast":
        return "(%s as %s)" % (show(t[2]), sh(t[1]))
    if k == "discr":
        return "discr(%s)" % show(t[1])
    if k == "agg":
        return "%s{%s}" % (sh(t[1]).split("::")[-1], ", ".join(show(x) for x in t[2]))
    if k == "call":
        n = sh(t[1])
        return "%s(%s)" % (n, ", ".join(show(x) for x in t[2]))
    if k == "icall":
        return "(*%s)(%s)" % (show(t[1]), ", ".join(show(x) for x in t[2]))
    return str(t)


def walk(t):
    """Yield all sub-terms."""
    if isinstance(t, tuple) and t:
        yield t
        if t[0] == "const":
            return
        for x in t[1:]:
            if isinstance(x, tuple):
                if x and isinstance(x[0], str):
                    yield from walk(x)
                else:
                    for y in x:
                        yield from walk(y)


def calls_in(t):
    return [x for x in walk(t) if x[0] == "call"]


def consts_in(t):
    return [x for x in walk(t) if x[0] == "const"]


# ------------------------------------------------------------------------------------------
# constant folding of terms (A4): evaluates an *expression* under an assignment of its
# parameters; no control flow, no loops.  Unknown constructs raise CannotFold (fail closed).


class CannotFold(Exception):
    pass


INT_BITS = {"u8": 8, "u16": 16, "u32": 32, "u64": 64, "u128": 128, "usize": 64,
            "i8": 8, "i16": 16, "i32": 32, "i64": 64, "i128": 128, "isize": 64}


def _wrap(v, ty):
    if ty not in INT_BITS:
        return v
    bits = INT_BITS[ty]
    v &= (1 << bits) - 1
    if ty.startswith("i") and v >= 1 << (bits - 1):
        v -= 1 << bits
    return v


def _num(v):
    """chars take part in arithmetic and comparisons as their code points"""
    if isinstance(v, str) and len(v) == 1:
        return ord(v)
    return v


def fold(t, env, calls=None):
    """env: {param index: python value}; calls: resolver name -> (callable | None) for pure std helpers."""
    k = t[0]
    if k == "param":
        if t[1] in env:
            return env[t[1]]
        raise CannotFold("unbound parameter p%d" % t[1])
    if k == "const":
        raw = thaw(t[2])
        while isinstance(raw, dict) and "$ref" in raw and len(raw) == 1:
            raw = raw["$ref"]
        v = scalar(raw)
        if v is None:
            v = raw
            if v is None:
                raise CannotFold("constant without value: %r" % (t[1],))
        return v
    if k == "bin":
        a = _num(fold(t[2], env, calls))
        b = _num(fold(t[3], env, calls))
        ty = t[4] if len(t) > 4 else None
        op = t[1]
        if op.endswith("Unchecked"):
            op = op[: -len("Unchecked")]
        if op == "Add":
            return _wrap(a + b, ty)
        if op == "Sub":
            return _wrap(a - b, ty)
        if op == "Mul":
            return _wrap(a * b, ty)
        if op == "BitAnd":
            return a & b
        if op == "BitOr":
            return a | b
        if op == "BitXor":
            return a ^ b
        if op == "Shl":
            return _wrap(a << b, ty)
        if op == "Shr":
            return a >> b
        if op == "Div":
            if b == 0:
                raise CannotFold("division by zero")
            return int(a / b) if (a < 0) != (b < 0) else a // b
        if op == "Rem":
            if b == 0:
                raise CannotFold("remainder by zero")
            return a - b * (int(a / b) if (a < 0) != (b < 0) else a // b)
        if op == "Eq":
            return a == b
        if op == "Ne":
            return a != b
        if op == "Lt":
            return a < b
        if op == "Le":
            return a <= b
        if op == "Gt":
            return a > b
        if op == "Ge":
            return a >= b
        raise CannotFold("binary operator " + op)
    if k == "un":
        a = fold(t[2], env, calls)
        ty = t[3] if len(t) > 3 else None
        if t[1] == "Not":
            if isinstance(a, bool):
                return not a
            if ty in INT_BITS:
                return _wrap(~a, ty)
            raise CannotFold("Not on unknown width")
        if t[1] == "Neg":
            return _wrap(-a, ty)
        raise CannotFold("unary operator " + t[1])
    if k == "cast":
        a = _num(fold(t[2], env, calls))
        if isinstance(a, bool):
            a = int(a)
        if t[1] in INT_BITS and isinstance(a, float):
            if a != a:
                return 0
            lo, hi = (0, (1 << INT_BITS[t[1]]) - 1) if t[1].startswith("u") else (-(1 << (INT_BITS[t[1]] - 1)), (1 << (INT_BITS[t[1]] - 1)) - 1)
            return max(lo, min(hi, int(a)))  # float -> int casts truncate toward zero and saturate
        if t[1] in INT_BITS and isinstance(a, int):
            return _wrap(a, t[1])
        if t[1] in ("f32", "f64"):
            return float(a)
        raise CannotFold("cast to " + t[1])
    if k == "field":
        a = fold(t[1], env, calls)
        if isinstance(a, list) and t[2].isdigit() and int(t[2]) < len(a):
            return a[int(t[2])]
        if isinstance(a, dict):
            if t[2] in a:
                x = a[t[2]]
                sx = scalar(x)
                return sx if sx is not None else x
            raise CannotFold("no field %s" % t[2])
        return a  # newtype wrapper around a scalar
    if k in ("index", "cindex"):
        a = fold(t[1], env, calls)
        i = t[2] if k == "cindex" else fold(t[2], env, calls)
        if isinstance(a, dict) and "array" in a:
            a = a["array"]
        if isinstance(a, list):
            if not (0 <= i < len(a)):
                raise CannotFold("index %r out of range %d" % (i, len(a)))
            x = a[i]
            sx = scalar(x)
            return sx if sx is not None else x
        raise CannotFold("index into non-array")
    if k == "call":
        h = calls(t[1]) if calls else None
        if h is not None:
            return h(*[fold(x, env, calls) for x in t[2]])
        # built-in models of a few pure core helpers on constant data
        last = t[1].split("::")[-1]
        if t[1].startswith("core::num::<impl ") and last in ("abs", "abs_diff", "min", "max", "pow", "signum") and len(t[2]) in (1, 2):
            vals = [_num(fold(x, env, calls)) for x in t[2]]
            if all(isinstance(v, int) and not isinstance(v, bool) for v in vals):
                if last == "abs":
                    return abs(vals[0])
                if last == "abs_diff":
                    return abs(vals[0] - vals[1])
                if last == "min":
                    return min(vals)
                if last == "max":
                    return max(vals)
                if last == "signum":
                    return (vals[0] > 0) - (vals[0] < 0)
        if t[1].startswith("core::ops::range::RangeInclusive") and last == "new" and len(t[2]) == 2:
            return {"start": _num(fold(t[2][0], env, calls)), "end": _num(fold(t[2][1], env, calls)), "exhausted": False}
        if t[1].endswith("::contains") and "ops::range::Range" in t[1] and len(t[2]) == 2:
            r = fold(t[2][0], env, calls)
            x = _num(fold(t[2][1], env, calls))
            if isinstance(r, dict) and isinstance(r.get("start"), int) and isinstance(r.get("end"), int):
                return r["start"] <= x <= r["end"] if "RangeInclusive" in t[1] or "exhausted" in r else r["start"] <= x < r["end"]
            if isinstance(r, list) and len(r) == 2:
                return r[0] <= x <= r[1] if "RangeInclusive" in t[1] else r[0] <= x < r[1]
        raise CannotFold("call to " + t[1])
    if k == "agg":
        vals = [fold(x, env, calls) for x in t[2]]
        if t[1].endswith("Option::Some"):
            return ("Some", vals[0])
        if t[1].endswith("Option::None"):
            return None
        if t[1].startswith("core::result::Result::"):
            return (t[1].split("::")[-1], vals[0] if vals else None)
        if len(vals) == 1:
            return vals[0]  # newtype construction
        if not vals and "::" in t[1]:
            return ("variant", t[1].split("::")[-1])
        return vals
    if k == "variant":
        a = fold(t[1], env, calls)
        if isinstance(a, tuple) and len(a) == 2 and a[0] == t[2]:
            return [a[1]]
        raise CannotFold("downcast of %r to %s" % (a, t[2]))
    if k == "discr":
        a = fold(t[1], env, calls)
        if a is None:
            return 0
        if isinstance(a, tuple) and a[0] == "Some":
            return 1
        if isinstance(a, tuple) and a[0] in ("Ok", "Err"):
            return 0 if a[0] == "Ok" else 1
        if isinstance(a, int):
            return a
        raise CannotFold("discriminant of %r" % (a,))
    raise CannotFold("term kind " + k)
