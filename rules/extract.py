"""Builds (and caches by source hash) the fact base for /repo's *current working tree*.

The extractor is injected as RUSTC_WORKSPACE_WRAPPER into `cargo check`, so it sees exactly the
crates, cfgs, features and generated files of the real build.  Cargo's freshness cache would skip
the wrapper on a warm target dir, so the workspace members' fingerprints are removed first and the
number of fact files written is asserted (fail closed)."""
import fcntl
import glob
import hashlib
import json
import os
import shutil
import subprocess
import sys
import time

REPO = os.environ.get("WCX_REPO", "/repo")
VERIF = os.path.dirname(os.path.dirname(os.path.abspath(__file__)))
CACHE = os.path.join(VERIF, ".cache")
DRIVER = os.path.join(VERIF, "extractor", "target", "release", "wcx")

EXPECTED_UNITS = {
    # profile -> list of (crate, is_test) that must be present (weechess_core twice: host + target)
    "dev": [("weechess_core", False), ("weechess_core", False), ("build_script_build", False),
            ("weechess_engine", False), ("weechess", False)],
    "release": [("weechess_core", False), ("weechess_core", False), ("build_script_build", False),
                ("weechess_engine", False), ("weechess", False)],
    "dev-all": [("weechess_core", False), ("weechess_core", False), ("build_script_build", False),
                ("weechess_engine", False), ("weechess", False),
                ("weechess_core", True), ("weechess_engine", True), ("weechess", True)],
}


class ExtractError(Exception):
    pass


def tree_hash(repo=REPO):
    h = hashlib.sha256()
    files = []
    for root, dirs, fs in os.walk(repo):
        dirs[:] = sorted(d for d in dirs if d not in (".git", "target", "_out"))
        for f in sorted(fs):
            files.append(os.path.join(root, f))
    for p in files:
        rel = os.path.relpath(p, repo)
        h.update(rel.encode())
        h.update(b"\0")
        try:
            with open(p, "rb") as fh:
                h.update(fh.read())
        except OSError:
            pass
        h.update(b"\0")
    # the driver itself is part of the key
    try:
        st = os.stat(DRIVER)
        h.update(("%d:%d" % (st.st_size, int(st.st_mtime))).encode())
    except OSError:
        pass
    return h.hexdigest()[:24]


def sysroot():
    return subprocess.check_output(["rustc", "+nightly", "--print", "sysroot"], text=True).strip()


def build_driver():
    if os.path.exists(DRIVER):
        src = max(os.path.getmtime(p) for p in glob.glob(os.path.join(VERIF, "extractor", "src", "*.rs")))
        if os.path.getmtime(DRIVER) >= src:
            return
    env = dict(os.environ, CARGO_NET_OFFLINE="true")
    r = subprocess.run(["cargo", "build", "--release", "--offline"], cwd=os.path.join(VERIF, "extractor"),
                       env=env, stdout=subprocess.PIPE, stderr=subprocess.STDOUT, text=True)
    if r.returncode != 0 or not os.path.exists(DRIVER):
        raise ExtractError("cannot build the extractor:\n" + r.stdout[-3000:])


def _run_extraction(profile, out_dir, repo=REPO, target=None):
    target = target or os.environ.get("WCX_TARGET") or os.path.join(CACHE, "target")
    os.makedirs(target, exist_ok=True)
    sub = "release" if profile == "release" else "debug"
    for pat in (".fingerprint/weechess*", "build/weechess*", "incremental/weechess*", "incremental/build_script_build*"):
        for p in glob.glob(os.path.join(target, sub, pat)):
            shutil.rmtree(p, ignore_errors=True)
    env = dict(os.environ)
    env.update({
        "LD_LIBRARY_PATH": os.path.join(sysroot(), "lib") + ":" + env.get("LD_LIBRARY_PATH", ""),
        "RUSTFLAGS": "-Zmir-opt-level=0 -Awarnings",
        "RUSTC_WORKSPACE_WRAPPER": DRIVER,
        "WCX_OUT": out_dir,
        "CARGO_TARGET_DIR": target,
        "CARGO_NET_OFFLINE": "true",
        "CARGO_INCREMENTAL": "0",
    })
    cmd = ["cargo", "+nightly", "check", "--offline", "--workspace"]
    if profile == "release":
        cmd.append("--release")
    if profile == "dev-all":
        cmd.append("--all-targets")
    t0 = time.time()
    r = subprocess.run(cmd, cwd=repo, env=env, stdout=subprocess.PIPE, stderr=subprocess.STDOUT, text=True)
    if r.returncode != 0:
        raise ExtractError("`%s` failed in %s (the tree does not build?):\n%s" % (" ".join(cmd), repo, r.stdout[-4000:]))
    return time.time() - t0


def _verify_units(out_dir, profile):
    got = []
    for f in glob.glob(os.path.join(out_dir, "*.json")):
        with open(f) as fh:
            head = fh.read(400)
        # cheap header parse: crate and is_test are the first keys
        try:
            crate = head.split('"crate":"')[1].split('"')[0]
            is_test = '"is_test":true' in head
        except IndexError:
            raise ExtractError("malformed fact file " + f)
        got.append((crate, is_test))
    want = list(EXPECTED_UNITS[profile])
    missing = []
    pool = list(got)
    for w in want:
        if w in pool:
            pool.remove(w)
        else:
            missing.append(w)
    if missing:
        raise ExtractError("extractor did not produce the expected fact files for profile %s: missing %s, got %s"
                           % (profile, missing, sorted(got)))
    return got


def ensure_facts(profile="dev", repo=REPO, quiet=False):
    """Returns (facts_dir, info).  Extracts if no fact base exists for the current tree hash."""
    os.makedirs(CACHE, exist_ok=True)
    build_driver()
    h = tree_hash(repo)
    base = os.path.join(CACHE, "facts", h)
    d = os.path.join(base, profile)
    marker = os.path.join(d, ".complete")
    if os.path.exists(marker):
        with open(marker) as fh:
            info = json.load(fh)
        info["cached"] = True
        return d, info
    lock = open(os.path.join(CACHE, "extract.lock"), "w")
    fcntl.flock(lock, fcntl.LOCK_EX)
    try:
        if os.path.exists(marker):
            with open(marker) as fh:
                info = json.load(fh)
            info["cached"] = True
            return d, info
        tmp = d + ".tmp.%d" % os.getpid()
        shutil.rmtree(tmp, ignore_errors=True)
        os.makedirs(tmp)
        if not quiet:
            print("[extract] %s profile=%s hash=%s ..." % (repo, profile, h), file=sys.stderr)
        try:
            secs = _run_extraction(profile, tmp, repo)
            units = _verify_units(tmp, profile)
        except ExtractError:
            shutil.rmtree(tmp, ignore_errors=True)
            raise
        info = {"hash": h, "profile": profile, "extract_s": round(secs, 1), "units": sorted(units), "cached": False}
        with open(os.path.join(tmp, ".complete"), "w") as fh:
            json.dump(info, fh)
        shutil.rmtree(d, ignore_errors=True)
        os.rename(tmp, d)
        _gc(os.path.join(CACHE, "facts"), keep=8, protect=h)
        return d, info
    finally:
        fcntl.flock(lock, fcntl.LOCK_UN)
        lock.close()


def _gc(root, keep, protect):
    try:
        ds = [(os.path.getmtime(os.path.join(root, x)), x) for x in os.listdir(root)]
    except OSError:
        return
    ds.sort(reverse=True)
    for _, x in ds[keep:]:
        if x != protect:
            shutil.rmtree(os.path.join(root, x), ignore_errors=True)


def worker_target(i):
    """Private copy of the dependency target dir for parallel scratch extractions."""
    base = os.path.join(CACHE, "target")
    t = os.path.join(CACHE, "target_w%d" % i)
    if not os.path.isdir(t):
        tmp = t + ".tmp.%d" % os.getpid()
        shutil.rmtree(tmp, ignore_errors=True)
        if os.path.isdir(base):
            subprocess.run(["cp", "-a", base, tmp], check=True)
        else:
            os.makedirs(tmp)
        try:
            os.rename(tmp, t)
        except OSError:
            shutil.rmtree(tmp, ignore_errors=True)
    return t


def extract_scratch(repo_dir, profile="dev", target=None):
    """Extraction for a scratch copy (variant kits): separate facts dir under the scratch tree,
    shares the dependency target dir (members are rebuilt anyway)."""
    out = os.path.join(repo_dir, "_facts")
    shutil.rmtree(out, ignore_errors=True)
    os.makedirs(out)
    tgt = target or os.environ.get("WCX_TARGET")
    lock = open((tgt + ".lock") if tgt else os.path.join(CACHE, "extract.lock"), "w")
    fcntl.flock(lock, fcntl.LOCK_EX)
    try:
        _run_extraction(profile, out, repo_dir, target=tgt)
        _verify_units(out, profile)
    finally:
        fcntl.flock(lock, fcntl.LOCK_UN)
        lock.close()
    return out
