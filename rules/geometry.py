"""Independent board geometry (the oracle of the table rules).  Squares are 0..63 = 8*rank + file, a1 = 0.
Nothing here comes from the repository; it is the rules of chess as data."""

FILES = "abcdefgh"


def sq(file, rank):
    return 8 * rank + file


def fr(s):
    return s % 8, s // 8


def bit(s):
    return 1 << s


def on_board(f, r):
    return 0 <= f <= 7 and 0 <= r <= 7


def ray(s, df, dr):
    """Squares strictly beyond s in direction (df, dr), in walking order."""
    f, r = fr(s)
    out = []
    f += df
    r += dr
    while on_board(f, r):
        out.append(sq(f, r))
        f += df
        r += dr
    return out


def ray_mask(s, df, dr):
    m = 0
    for x in ray(s, df, dr):
        m |= bit(x)
    return m


ROOK_DIRS = [(0, 1), (0, -1), (1, 0), (-1, 0)]
BISHOP_DIRS = [(1, 1), (-1, 1), (1, -1), (-1, -1)]
KNIGHT_OFFSETS = {(1, 2), (2, 1), (2, -1), (1, -2), (-1, -2), (-2, -1), (-2, 1), (-1, 2)}
KING_OFFSETS = {(1, 1), (1, 0), (1, -1), (0, -1), (-1, -1), (-1, 0), (-1, 1), (0, 1)}


def slide_attacks(s, occ, dirs):
    """Walk each ray up to and including the first blocker."""
    a = 0
    for df, dr in dirs:
        for x in ray(s, df, dr):
            a |= bit(x)
            if occ & bit(x):
                break
    return a


def relevance_mask(s, dirs):
    """Ray squares whose occupancy matters: every ray square except the last one of each ray."""
    m = 0
    for df, dr in dirs:
        r = ray(s, df, dr)
        for x in r[:-1]:
            m |= bit(x)
    return m


def subsets(mask):
    """All subsets of a bit mask (carry-rippler), including 0 and mask."""
    sub = 0
    while True:
        yield sub
        sub = (sub - mask) & mask
        if sub == 0:
            break


def leaper_attacks(s, offsets):
    f, r = fr(s)
    a = 0
    for df, dr in offsets:
        if on_board(f + df, r + dr):
            a |= bit(sq(f + df, r + dr))
    return a


def rank_mask(r):
    return 0xFF << (8 * r)


def file_mask(f):
    return 0x0101010101010101 << f


def popcount(x):
    return bin(x).count("1")


def between(a, b):
    """Squares strictly between a and b on a common rank/file/diagonal."""
    fa, ra = fr(a)
    fb, rb = fr(b)
    df = (fb > fa) - (fb < fa)
    dr = (rb > ra) - (rb < ra)
    out = []
    f, r = fa + df, ra + dr
    while (f, r) != (fb, rb):
        out.append(sq(f, r))
        f += df
        r += dr
    return out


def mask_of(squares):
    m = 0
    for s in squares:
        m |= bit(s)
    return m


def name(s):
    f, r = fr(s)
    return FILES[f] + str(r + 1)
