"""MIR-level inlining of workspace helper functions the rules do not know by name.

A rule recognises the functions it is anchored on and the accessors/constructors it reasons about by their paths.  A
refactor that moves part of an anchored function into a new helper (or merges siblings behind a helper) introduces a
callee no rule knows.  Instead of treating such a call as opaque, the helper's MIR is spliced into the caller:
arguments become assignments to the callee's (renumbered) parameter locals, `return` becomes an assignment of the
callee's return place to the call's destination followed by a jump to the call's target.  All CFG-, term- and
path-based rules then see one body, exactly as before the extraction.

What is inlined: direct calls to workspace functions (not closures, not trait methods left unresolved) whose last path
segment is not an identifier used anywhere in the rule sources (`known_words`), that are not recursive, not larger than
`max_blocks` blocks, up to `depth` levels.  Functions the rules know stay calls, so every existing pattern is unchanged."""
import copy
import os
import re

HERE = os.path.dirname(os.path.abspath(__file__))
_vocab = None


def known_words():
    """Identifiers that occur in the rule sources (rules/*.py, rules/props/*.py) and the tables."""
    global _vocab
    if _vocab is None:
        words = set()
        chunks = []
        roots = [HERE, os.path.join(HERE, "props"), os.path.join(os.path.dirname(HERE), "tables")]
        for d in roots:
            for f in sorted(os.listdir(d)):
                if f.endswith((".py", ".json")) and f != "inline.py":
                    with open(os.path.join(d, f)) as fh:
                        text = fh.read()
                    if f.endswith(".py"):
                        # names reach the rules only through string literals: comments, docstrings and Python identifiers say nothing
                        # about which functions a rule knows
                        text = _string_literals(text)
                    # rule identifiers ("R6.terminal_score", "I4w.joins_writer") are names of obligations, not of functions
                    text = re.sub(r"\b[A-Z][A-Za-z0-9]{0,3}\.[a-z][a-z_0-9]*", " ", text)
                    words.update(re.findall(r"[A-Za-z_][A-Za-z0-9_]*", text))
                    chunks.append(text)
        _vocab = words
        global _literal_text
        _literal_text = "\n".join(chunks)
    return _vocab


def _string_literals(src):
    """The text of the string literals of a Python source through which a rule can match a name: every literal except docstrings, the
    arguments that are labels / messages of obligation calls (`ck.req(cond, <rule>, <key>, <where>, <message>..)`, `ck.fail/ok/floor/missing`),
    the prose assigned to `ck.explanation / trusted / not_decided`, and the left operand of `%` formatting (a message template)."""
    import ast
    try:
        tree = ast.parse(src)
    except SyntaxError:
        return src
    skip = set()

    def mark(node):
        for n in ast.walk(node):
            if isinstance(n, ast.Constant) and isinstance(n.value, str):
                skip.add(id(n))
    for node in ast.walk(tree):
        if isinstance(node, (ast.FunctionDef, ast.Module, ast.ClassDef)) and node.body and isinstance(node.body[0], ast.Expr) and \
                isinstance(node.body[0].value, ast.Constant) and isinstance(node.body[0].value.value, str):
            skip.add(id(node.body[0].value))
        if isinstance(node, ast.Call) and isinstance(node.func, ast.Attribute) and isinstance(node.func.value, ast.Name) and node.func.value.id == "ck":
            a = node.func.attr
            if a == "req":
                for arg in node.args[1:]:
                    mark(arg)
            elif a in ("fail", "ok", "floor", "missing", "sample", "note"):
                for arg in node.args:
                    mark(arg)
            for kw in node.keywords:
                mark(kw.value)
        if isinstance(node, ast.Assign) and any(isinstance(t, ast.Attribute) and isinstance(t.value, ast.Name) and t.value.id == "ck" for t in node.targets):
            mark(node.value)
        if isinstance(node, ast.BinOp) and isinstance(node.op, ast.Mod) and isinstance(node.left, ast.Constant) and isinstance(node.left.value, str):
            skip.add(id(node.left))
    out = []
    for node in ast.walk(tree):
        if isinstance(node, ast.Constant) and isinstance(node.value, str) and id(node) not in skip:
            out.append(node.value)
    return "\n".join(out)


# method names the rules use for std / core callees: a workspace function that merely shares such a name is known to the rules only
# under its qualified name (`Type::name`)
GENERIC_STD = frozenset("""contains contains_key len count position any all min max sum clear extend first last sleep elapsed now""".split())
_literal_text = None


def literal_text():
    global _literal_text
    if _literal_text is None:
        known_words()
    return _literal_text


def last_segment(name):
    n = re.sub(r"<[^<>]*>", "", name)
    n = re.sub(r"<[^<>]*>", "", n)
    return n.rstrip(">").split("::")[-1]


def is_unknown_helper(prog, name):
    b = prog.bodies.get(name)
    if b is None or "{closure" in name or b.crate not in ("weechess_core", "weechess_engine", "weechess"):
        return False
    if name.startswith("<"):        # trait impl methods are addressed through their trait by the rules
        return False
    if name in getattr(prog, "no_inline", ()):   # functions a rule module identified by role (e.g. after a rename)
        return False
    last = last_segment(name)
    if last not in known_words():
        return True
    if last in GENERIC_STD:
        # known only under its qualified name
        n = re.sub(r"<[^<>]*>", "", re.sub(r"<[^<>]*>", "", name)).rstrip(">")
        segs = n.split("::")
        qual = "::".join(segs[-2:]) if len(segs) >= 2 else last
        return qual not in literal_text()
    return False


def _shift(x, loff, boff):
    """Deep copy of a MIR JSON fragment with locals shifted by loff.  Block numbers are shifted by the caller."""
    if isinstance(x, dict):
        out = {}
        for k, v in x.items():
            if k == "l" and isinstance(v, int) and "p" in x:
                out[k] = v + loff
            elif k == "index" and isinstance(v, int):
                out[k] = v + loff
            else:
                out[k] = _shift(v, loff, boff)
        return out
    if isinstance(x, list):
        return [_shift(v, loff, boff) for v in x]
    return x


def _shift_term_blocks(t, boff):
    k = t["k"]
    if k == "goto":
        t["target"] += boff
    elif k == "switch":
        t["cases"] = [[c[0], c[1] + boff] for c in t["cases"]]
        t["otherwise"] += boff
    elif k in ("drop", "assert", "call"):
        if t.get("target") is not None:
            t["target"] += boff
        if t.get("unwind") is not None:
            t["unwind"] += boff
    return t


def inline_body(prog, body, depth=2, max_blocks=120, decide=None):
    """-> (new body json, [inlined callee names]) or (None, []) when nothing was inlined."""
    from facts import callee_name
    decide = decide or (lambda n: is_unknown_helper(prog, n))
    j = None
    inlined = []
    # per block: chain of callee names this block was copied from (recursion / depth guard)
    chains = {}
    work = list(range(len(body.blocks)))
    blocks = body.blocks
    locals_ = body.locals
    while work:
        bb = work.pop(0)
        blk = blocks[bb]
        t = blk["term"]
        if t["k"] != "call" or "callee" not in t or t.get("target") is None or blk.get("cleanup"):
            continue
        n = callee_name(t)
        chain = chains.get(bb, ())
        if n == body.name or n in chain or len(chain) >= depth or not decide(n):
            continue
        cb = prog.bodies.get(n)
        if cb is None or len(cb.blocks) > max_blocks or len(t["args"]) != cb.arg_count:
            continue
        if j is None:
            j = copy.deepcopy(body.j)
            blocks = j["blocks"]
            locals_ = j["locals"]
            blk = blocks[bb]
            t = blk["term"]
        loff = len(locals_)
        boff = len(blocks)
        for i, loc in enumerate(cb.locals):
            nl = dict(loc)
            nl["inlined_from"] = n
            locals_.append(nl)
        for cbb, cblk in enumerate(cb.blocks):
            nb = {"stmts": _shift(cblk["stmts"], loff, boff), "term": _shift_term_blocks(_shift(cblk["term"], loff, boff), boff)}
            if cblk.get("cleanup"):
                nb["cleanup"] = True
            if nb["term"]["k"] == "return":
                nb["stmts"] = nb["stmts"] + [{"k": "assign", "place": copy.deepcopy(t["dest"]),
                                              "rv": {"use": {"move": {"l": loff, "p": []}}}, "line": t.get("line"), "inline_ret": n}]
                nb["term"] = {"k": "goto", "target": t["target"], "line": t.get("line")}
            blocks.append(nb)
            chains[boff + cbb] = chain + (n,)
            work.append(boff + cbb)
        for i, a in enumerate(t["args"]):
            blk["stmts"].append({"k": "assign", "place": {"l": loff + 1 + i, "p": []}, "rv": {"use": copy.deepcopy(a)},
                                 "line": t.get("line"), "inline_arg": n})
        blk["term"] = {"k": "goto", "target": boff, "line": t.get("line"), "inlined_call": n}
        inlined.append(n)
    if j is None:
        return None, []
    j["inlined"] = inlined
    _thread_known_variants(j)
    return j, inlined


_THREADABLE = ("core::option::Option", "core::result::Result")    # discriminant value = variant index


def _thread_known_variants(j):
    """After splicing `fn helper(..) -> Option<T>` into `if let Some(v) = helper(..) { return v }`, every `Some(..)` / `None` built in the
    helper flows through one shared return block into the caller's test of the discriminant; a CFG-based rule then sees the infeasible
    path None -> `Some` edge.  Where the constructed variant is known in the block that builds it and only straight-line blocks lie between
    that block and the test, the path is duplicated and sent directly to the matching edge (jump threading).  Values are untouched."""
    blocks = j["blocks"]

    def plain_assign_to(blk, l):
        return [s for s in blk["stmts"] if s["k"] in ("assign", "set_discr") and s["place"]["l"] == l]
    rets = [(bb, s) for bb, blk in enumerate(blocks) for s in blk["stmts"] if s.get("inline_ret")]
    for rb, rs in rets:
        blk_r = blocks[rb]
        if blk_r["stmts"][-1] is not rs or blk_r["term"]["k"] != "goto" or rs["place"]["p"] or "use" not in rs["rv"]:
            continue
        src = rs["rv"]["use"].get("move") or rs["rv"]["use"].get("copy")
        if src is None or src["p"]:
            continue
        R, D = src["l"], rs["place"]["l"]
        jb = blk_r["term"]["target"]
        J = blocks[jb]
        if J["term"]["k"] != "switch":
            continue
        # J: [tmp = discriminant(D)] ; switch tmp
        tmp = None
        ok = True
        for s in J["stmts"]:
            if s["k"] == "assign" and "discr" in s["rv"] and s["rv"]["discr"] == {"l": D, "p": []} and not s["place"]["p"]:
                tmp = s["place"]["l"]
            elif s["k"] == "assign":
                ok = False
        d = J["term"]["discr"]
        dl = (d.get("move") or d.get("copy") or {}).get("l")
        if not ok or tmp is None or dl != tmp:
            continue
        # definitions of R with a known variant
        for pb in range(len(blocks)):
            P = blocks[pb]
            defs = plain_assign_to(P, R)
            if not defs or P["term"]["k"] != "goto":
                continue
            last = defs[-1]
            if last["k"] != "assign" or last["place"]["p"] or "agg" not in last["rv"] or last["rv"]["agg"].get("adt") not in _THREADABLE:
                continue
            if P["stmts"].index(last) < max(P["stmts"].index(x) for x in defs):
                continue
            vidx = last["rv"]["agg"].get("vidx")
            # chain P -> ... -> rb through straight-line blocks
            chain = []
            cur = P["term"]["target"]
            good = True
            while cur != rb:
                C = blocks[cur]
                if len(chain) > 8 or C["term"]["k"] not in ("goto", "drop") or C["term"].get("target") is None or plain_assign_to(C, R) or plain_assign_to(C, D):
                    good = False
                    break
                chain.append(cur)
                cur = C["term"]["target"]
            if not good or vidx is None:
                continue
            tgt = None
            for v, t_ in J["term"]["cases"]:
                if v == vidx:
                    tgt = t_
            if tgt is None:
                tgt = J["term"]["otherwise"]
            # clone chain + rb + J for this definition
            first = len(blocks)
            seq = chain + [rb, jb]
            for i, cb in enumerate(seq):
                C = blocks[cb]
                nb = {"stmts": copy.deepcopy(C["stmts"]), "term": copy.deepcopy(C["term"]), "threaded_from": cb}
                if cb == jb:
                    nb["term"] = {"k": "goto", "target": tgt, "line": C["term"].get("line"), "threaded": True}
                else:
                    nb["term"]["target"] = first + i + 1
                blocks.append(nb)
            P["term"] = dict(P["term"], target=first)
