"""C16 - Opening book offers exactly the recorded, legal moves (structural clauses O1-O6).

NOT decided: replay of the corpus (that each SAN token of each game resolved to the move played) - needs execution."""
from facts import callee_name
from terms import TermBuilder, return_term, show, walk, const_value
from symex import decision_table, TooManyPaths
from .common import live_calls, guards_of, closure_upvar_terms, is_upvar, is_iter_next
from .c01 import is_call

LEVEL = "other"
HASH = "weechess_core::hasher::ZobristHasher::hash"
PARSE = "weechess_core::book::BookParser::parse_movetext"
BOOK = "weechess_core::book::Book"
OB = "weechess_engine::book::OpeningBook"
WITH = "weechess_core::hasher::ZobristHasher::with"
GEN = "build_script_build::generate_book_data"
RNG = "rand_chacha::chacha::ChaCha8Rng"


def run(ck):
    ck.explanation = (
        "O1 legal-on-write: each book entry is (hasher.hash(state), move) with the move taken from compute_legal_moves(state) of the very state that is hashed, "
        "and the replay state advances to that move's successor. O2 read side: lookup hashes the queried position with the book's own hasher and returns the "
        "stored set unchanged (non-empty sets only); the UCI `go` arm emits an element of that set for the current position. O3: build script and engine "
        "construct the hasher identically (ZobristHasher::with over ChaCha8Rng::seed_from_u64 of the seed that is published through the compiler-enforced "
        "env!/include_bytes! channel). O4: the depth constant is 10 and is applied with take() to every game before collecting. O5: append unions moves into "
        "the set at entry(hash). O6: every collected (hash, move) of every game is appended (no conditional skipping). With C08 (rules re-run here) equal keys "
        "imply equal legal moves, so offered moves are legal in the queried position. NOT decided: corpus replay.")
    ck.trusted = ["rustc front end and MIR construction", "extractor decoding", "env!/include_bytes! tie build-time seed and data to the engine at compile time",
                  "ciborium (de)serialises the BTreeMap<u64, HashSet<Move>> faithfully", "64-bit hash collisions ignored"]
    ck.not_decided = ["that every SAN token of every game in book/ resolved to the move actually played (corpus replay needs execution; C12 decides the reader tables)"]
    ck.run_rule(o1_legal_on_write)
    ck.run_rule(o2_read_side)
    ck.run_rule(o3_same_hasher)
    ck.run_rule(o4_o6_builder)
    ck.run_rule(o5_union)
    from .c08 import h1_h2_h5_influence, h6_single_source, h4_keys
    ck.run_rule(h1_h2_h5_influence)
    ck.run_rule(h4_keys)
    ck.run_rule(h6_single_source)


def o1_legal_on_write(ck):
    prog = ck.prog
    pm = ck.body(PARSE, "O1")
    scan = None
    for cn in prog.closures_of(PARSE):
        c = prog.body(cn)
        if live_calls(c, names=(HASH,)):
            scan = c
    if scan is None:
        ck.fail("O1", "parse_movetext", pm.where(), "no closure of parse_movetext computes a hash")
        return
    ups = closure_upvar_terms(prog, pm, scan.name) or []
    hasher_up = [i for i, u in enumerate(ups) if u == ("param", 2)]
    try:
        paths = decision_table(prog, scan, max_paths=20000)
    except TooManyPaths:
        ck.fail("O1", scan.name, scan.where(), "scan closure has too many paths to analyse")
        return
    oks = 0
    STATE = ("param", 2)
    for p in paths:
        r = p.ret
        if not (r[0] == "agg" and r[1].endswith("Option::Some") and r[2][0][0] == "agg" and r[2][0][1].endswith("Result::Ok")):
            continue
        oks += 1
        entry = r[2][0][2][0]
        good = entry[0] == "agg" and entry[1] == "tuple" and len(entry[2]) == 2
        if not good:
            ck.fail("O1.entry", scan.name, scan.where(), "yielded item is not a (hash, move) pair")
            continue
        h, mv = entry[2]
        okh = is_call(h, HASH) and h[2][1] == STATE and any(is_upvar(h[2][0], i) for i in hasher_up)
        ck.req(okh, "O1.key", "parse_movetext", scan.where(), "entry key is %s, not hasher.hash(state) of the replay state with the given hasher" % show(h)[:160], "hasher.hash(state)")
        found = [x for x in walk(mv) if is_call(x, "MoveSet::find")]
        okm = mv[0] == "field" and mv[2] == "0" and bool(found) and is_call(found[0][2][0], "MoveGenerator::compute_legal_moves") and found[0][2][0][2][0] == STATE
        ck.req(okm, "O1.legal_move", "parse_movetext", scan.where(),
               "entry move is %s, not a member of compute_legal_moves(state) of the hashed state" % show(mv)[:200], "move from compute_legal_moves(state)")
        adv = [e for e in p.effects if e[0] == "store" and e[1] == STATE]
        oka = len(adv) == 1 and adv[0][2][0] == "field" and adv[0][2][2] == "1" and adv[0][2][1] == mv[1]
        ck.req(oka, "O1.advance", "parse_movetext", scan.where(), "the replay state is not advanced to the successor of the recorded move")
        # hash is taken before the state is advanced: the hash call precedes the store in effect order
        order = [e[0] + ":" + (e[1] if e[0] == "call" else "state") for e in p.effects if (e[0] == "call" and e[1] == HASH) or (e[0] == "store" and e[1] == STATE)]
        ck.req(order[:2] == ["call:" + HASH, "store:state"], "O1.order", "parse_movetext", scan.where(), "the key is not computed before the state is advanced (%s)" % order)
    ck.floor("O1", oks, 1, "Ok-yielding paths of the movetext scan closure")
    # MoveSet::find returns a clone of a member that satisfies the query
    mf = ck.body("weechess_core::moves::MoveSet::find", "O1")
    rt = return_term(prog, mf)
    good = rt is not None and is_call(rt, "::cloned") and any(is_call(x, "Iterator>::find") or is_call(x, "Iterator::find") for x in walk(rt)) \
        and any(x == ("field", ("param", 1), "0") for x in walk(rt))
    ck.req(good, "O1.find_member", "MoveSet::find", mf.where(), "MoveSet::find is not `self.0.iter().find(..).cloned()`: %s" % (show(rt)[:160] if rt else "?"))
    # the scan starts from the default start position
    tb = TermBuilder(prog, pm)
    sc = [t for bb, t in live_calls(pm) if callee_name(t).endswith("Iterator::scan")]
    good = len(sc) == 1 and is_call(tb.operand(sc[0]["args"][1]), "State as core::default::Default>::default")
    ck.req(good, "O1.start", "parse_movetext", pm.where(), "the replay does not start from State::default()")


def o2_read_side(ck):
    prog = ck.prog
    lk = ck.body(OB + "::lookup", "O2")
    rt = return_term(prog, lk)
    # the found set may pass through and_then (closure checked below: Some(arg) only) or filter (keeps or drops, never alters)
    inner = rt
    if rt is not None and (is_call(rt, "Option::<T>::and_then") or is_call(rt, "Option::<T>::filter")):
        inner = rt[2][0]
    good = inner is not None and is_call(inner, BOOK + "::find") and inner[2][0] == ("field", ("param", 1), "book") \
        and inner[2][1] == ("call", HASH, (("field", ("param", 1), "hasher"), ("param", 2)))
    ck.req(good, "O2.key", "OpeningBook::lookup", lk.where(), "lookup is not self.book.find(self.hasher.hash(state)) (optionally filtered): %s" % (show(rt)[:200] if rt else "?"),
           "find(hash(state))")
    for cn in prog.closures_of(lk.name):
        c = prog.body(cn)
        if c.local_ty(0) == "bool":
            continue     # a filter predicate: cannot alter the set
        for p in decision_table(prog, c):
            if p.ret[0] == "agg" and p.ret[1].endswith("Option::Some"):
                ck.req(p.ret[2][0] == ("param", 2), "O2.unchanged", cn.split("::")[-1], c.where(), "lookup's filter returns %s instead of the stored set" % show(p.ret[2][0]))
    bf = ck.body(BOOK + "::find", "O2")
    rt = return_term(prog, bf)
    ck.req(rt is not None and is_call(rt, "::get") and rt[2][0] == ("field", ("param", 1), "table"), "O2.find", "Book::find", bf.where(), "Book::find is not self.table.get(&hash)")
    # try_default: the book read is the embedded data and the hasher field is the one built from the embedded seed
    td = ck.body(OB + "::try_default", "O2")
    ttb = TermBuilder(prog, td)
    ag = None
    for blk in td.blocks:
        for s in blk["stmts"]:
            if s["k"] == "assign" and "agg" in s["rv"] and s["rv"]["agg"].get("adt") == OB:
                ag = dict(zip(s["rv"]["agg"]["fields"], [ttb.operand(o) for o in s["rv"]["ops"]]))
    good = ag is not None and any(is_call(x, WITH) for x in walk(ag.get("hasher", ("x",)))) and any(is_call(x, "ciborium::de::from_reader") for x in walk(ag.get("book", ("x",))))
    ck.req(good, "O2.embedded", "OpeningBook::try_default", td.where(), "the opening book is not (deserialised embedded data, hasher built here)")
    # UCI go arm: the emitted book move is an element of lookup(&current_position)
    ex = ck.body("weechess_engine::uci::Client::exec", "O2")
    etb = TermBuilder(prog, ex)
    lks = live_calls(ex, names=(OB + "::lookup",))
    ck.floor("O2", len(lks), 1, "book lookups in the UCI loop")
    for bb, t in lks:
        a = [etb.operand(x) for x in t["args"]]
        # the session position: the State-typed local that is assigned the Ok of by_performing_moves (identified by use, not by name)
        sess = set()
        for blk in ex.blocks:
            for s_ in blk["stmts"]:
                if s_["k"] == "assign" and not s_["place"]["p"] and ex.local_ty(s_["place"]["l"]).endswith("state::State"):
                    v = etb.rvalue(s_["rv"])
                    if any(x[0] == "call" and x[1].endswith("State::by_performing_moves") for x in walk(v)):
                        sess.add(s_["place"]["l"])
        ck.req(a[1][0] == "var" and a[1][1] in sess, "O2.uci_position", "go", ex.where(t["line"]), "the book is consulted for %s, not for the current position" % show(a[1]))


def o3_same_hasher(ck):
    prog = ck.prog
    sites = []
    for name in (GEN, OB + "::try_default"):
        b = ck.body(name, "O3")
        bodies = [b] + [prog.body(c) for c in prog.closures_of(name)]
        for bd in bodies:
            tb = TermBuilder(prog, bd)
            for bb, t in live_calls(bd, names=(WITH,)):
                g = t.get("generics", [])
                arg = tb.operand(t["args"][0])
                seeds = [t2 for bb2, t2 in live_calls(bd) if callee_name(t2).endswith("seed_from_u64")] if any(
                    x[0] == "call" and x[1].endswith("seed_from_u64") for x in walk(arg)) else []
                sites.append((name, bd, t, g, seeds))
    ck.floor("O3", len(sites), 2, "ZobristHasher::with call sites (build script, engine)")
    for name, bd, t, g, seeds in sites:
        ck.req(g[:1] == [RNG], "O3.rng_type", name.split("::")[-1], bd.where(t["line"]), "hasher keys drawn from %s, expected %s on both sides" % (g[:1], RNG), RNG)
        ck.req(len(seeds) == 1 and seeds[0].get("generics", [])[:1] == [RNG], "O3.seeded", name.split("::")[-1], bd.where(t["line"]),
               "the generator is not built by ChaCha8Rng::seed_from_u64(seed) (%s)" % [(callee_name(s_), s_.get("generics")) for s_ in seeds])
    # build side: the seed that is printed into cargo:rustc-env is the seed used
    gb = ck.body(GEN, "O3")
    gtb = TermBuilder(prog, gb)
    seeds = [t for bb, t in live_calls(gb) if callee_name(t).endswith("seed_from_u64")]
    if len(seeds) == 1:
        sv = gtb.operand(seeds[0]["args"][0])
        printed = False
        for bb, t in live_calls(gb):
            if "Argument" in callee_name(t) and "new_display" in callee_name(t):
                a = gtb.operand(t["args"][0])
                if a == sv:
                    printed = True
        ck.req(printed, "O3.seed_published", "generate_book_data", gb.where(seeds[0]["line"]), "the seed given to the generator is not the one printed to cargo:rustc-env")
    env = ck.const("build_script_build::BOOK_SEED_ENV_VAR", "O3")
    fn = ck.const("build_script_build::BOOK_DATA_FILE_NAME", "O3")
    ck.req(env == {"$str": "WEECHESS_BOOK_SEED"}, "O3.env_name", "BOOK_SEED_ENV_VAR", "", "seed variable is %s" % env)
    ck.req(fn == {"$str": "book_data.bin"}, "O3.file_name", "BOOK_DATA_FILE_NAME", "", "book file is %s" % fn)
    # engine side: the seed is parsed from the embedded string in base 10
    td = ck.body(OB + "::try_default", "O3")
    ttb = TermBuilder(prog, td)
    ps = [t for bb, t in live_calls(td) if callee_name(t).endswith("from_str_radix")]
    ck.req(len(ps) == 1 and const_value(ttb.operand(ps[0]["args"][1])) == 10, "O3.seed_parse", "try_default", td.where(), "the embedded seed is not parsed as a base-10 u64")


def o4_o6_builder(ck):
    prog = ck.prog
    depth = ck.const("build_script_build::BOOK_DEPTH", "O4")
    ck.req(depth == 10, "O4.depth", "BOOK_DEPTH", "", "BOOK_DEPTH is %s, the property speaks of the first ten plies" % depth, "10")
    fold_cl = None
    for cn in prog.closures_of(GEN):
        c = prog.body(cn)
        if live_calls(c, names=(PARSE,)):
            fold_cl = c
    if fold_cl is None:
        ck.fail("O4", "generate_book_data", "", "no closure of generate_book_data parses movetext")
        return
    tb = TermBuilder(prog, fold_cl)
    col = [t for bb, t in live_calls(fold_cl) if callee_name(t).endswith("Iterator::collect")]
    good = len(col) == 1
    if good:
        src = tb.operand(col[0]["args"][0])
        good = is_call(src, "Iterator::take") and is_call(src[2][0], PARSE) and src[2][1][0] == "const" and src[2][1][1] == "build_script_build::BOOK_DEPTH"
        # parse_movetext(movetext, &hasher) with the closure's game text and the captured hasher
        if good:
            pa = src[2][0][2]
            good = pa[0] == ("param", 3) and is_upvar(pa[1])
    ck.req(good, "O4.take", "generate_book_data", fold_cl.where(), "a game's entries are not collect(take(parse_movetext(movetext, &hasher), BOOK_DEPTH))")
    # O6: every collected pair is appended, unconditionally
    aps = live_calls(fold_cl, names=(BOOK + "::append",))
    ck.req(len(aps) == 1, "O6.append", "generate_book_data", fold_cl.where(), "expected one Book::append in the per-game closure, found %d" % len(aps))
    for bb, t in aps:
        a = [tb.operand(x) for x in t["args"]]
        elem_h = a[1]
        ok_pair = elem_h[0] == "field" and elem_h[2] == "0" and any(x[0] == "call" and is_iter_next(x[1]) for x in walk(elem_h)) and any(is_call(x, "Iterator::collect") for x in walk(elem_h))
        mvs = a[2]
        ok_mv = any(x[0] == "field" and x[2] == "1" and x[1] == elem_h[1] for x in walk(mvs))
        ck.req(ok_pair and ok_mv, "O6.pairs", "append", fold_cl.where(t["line"]), "append is not fed (hash, move) of each collected item: hash=%s" % show(elem_h)[:120])
        g = guards_of(prog, fold_cl, bb, tb)
        extra = []
        for c, tk in g:
            if c[0] == "discr" and (any(x[0] == "call" and is_iter_next(x[1]) for x in walk(c)) or is_call(c[1], "Try>::branch")):
                continue
            extra.append((show(c)[:80], tk))
        ck.req(not extra, "O6.unconditional", "append", fold_cl.where(t["line"]), "recording a move is conditional on %s: some played moves are not offered" % extra, "every parsed move is recorded")
    # no early Ok-return between a successful parse and the append loop
    paths_ok = True
    import cfg
    loop_heads = [bb for bb, t in live_calls(fold_cl) if is_iter_next(callee_name(t))]
    oks = [bb for bb, blk in enumerate(fold_cl.blocks) for s in blk["stmts"] if s["k"] == "assign" and "agg" in s["rv"] and s["rv"]["agg"].get("variant") == "Ok" and s["place"] == {"l": 0, "p": []}]
    col_bb = [bb for bb, t in live_calls(fold_cl) if callee_name(t).endswith("Iterator::collect")]
    if loop_heads and oks and col_bb:
        paths_ok = cfg.must_pass(fold_cl, col_bb, oks, loop_heads)
    ck.req(paths_ok, "O6.no_skip", "generate_book_data", fold_cl.where(), "a game can be finished successfully without its moves being appended")
    # games: every "1."-prefixed chunk of every file is folded
    gb = ck.body(GEN, "O6")
    names = [callee_name(t).split("::")[-1] for bb, t in live_calls(gb)]
    ck.req("try_fold" in names and "filter" in names and "split" in names, "O6.all_games", "generate_book_data", gb.where(), "book files are not split into games and folded (%s)" % sorted(set(names))[:12])
    # O6.corpus_games: the splitting discipline of the builder (read from its MIR) applied to the book files of the repository (static
    # data): every chunk that is a game - its text, ignoring surrounding whitespace, starts with move number 1 - must pass the builder's
    # filter; otherwise that game's moves are never recorded.
    gtb = TermBuilder(prog, gb)
    sep = None
    trimmed_file = False
    for bb, t in live_calls(gb):
        n_ = callee_name(t)
        if n_.endswith("<impl str>::split") and len(t["args"]) == 2:
            a = [gtb.operand(x) for x in t["args"]]
            sep = _str_const(a[1])
            trimmed_file = any(x[0] == "call" and x[1].endswith("<impl str>::trim") for x in walk(a[0]))
    flt = None
    for cn in prog.closures_of(GEN):
        c = prog.body(cn)
        if c.local_ty(0) == "bool":
            ctb = TermBuilder(prog, c)
            for bb, t in live_calls(c):
                if callee_name(t).endswith("<impl str>::starts_with"):
                    a = [ctb.operand(x) for x in t["args"]]
                    pre = [y for x in a[1:] for y in [_str_const(x)] if y is not None]
                    chunk_trim = [x[1].split("::")[-1] for x in walk(a[0]) if x[0] == "call" and x[1].split("::")[-1] in ("trim", "trim_start")]
                    if pre:
                        flt = (pre[0], chunk_trim[0] if chunk_trim else None)
    # the per-game text handed to the parser may also have been trimmed by a map() before the filter
    mapped_trim = any(callee_name(t).endswith("Iterator::map") for bb, t in live_calls(gb)) and any(
        any(callee_name(t2).split("::")[-1] in ("trim", "trim_start") for b2, t2 in live_calls(prog.body(cn))) for cn in prog.closures_of(GEN) if prog.body(cn).local_ty(0).startswith("&str"))
    if sep is None or flt is None:
        ck.fail("O6.corpus_games", "generate_book_data", gb.where(), "cannot recover the builder's splitting idiom (split separator / starts_with filter)")
        return
    # O6.pipeline: between the split into chunks and the per-game fold only stages the corpus model understands may sit: trimming maps,
    # the game filter (starts_with), an emptiness filter, and adapters that neither drop nor regroup items.  Any other stage (filter_map,
    # chunks, skip, take, step_by, zip, a filter on something else) can silently lose games.
    NEUTRAL = ("inspect", "peekable", "by_ref", "into_iter", "iter", "copied", "cloned", "fuse", "collect", "deref", "as_slice", "rev")
    for bb, t in live_calls(gb):
        if not callee_name(t).endswith("try_fold"):
            continue
        x = gtb.operand(t["args"][0])
        stages = []
        reached = False
        while x[0] == "call":
            last = x[1].split("::")[-1]
            if x[1].endswith("<impl str>::split"):
                reached = True
                break
            stages.append((last, x))
            x = x[2][0] if x[2] else ("none",)
        ck.req(reached, "O6.pipeline", "games stream", gb.where(t["line"]), "the per-game fold does not consume the chunks of split(%r) directly: %s" % (sep, [s_[0] for s_ in stages][:8]))
        for last, st in stages:
            if last in NEUTRAL:
                continue
            cl = [a for a in st[2][1:] if a[0] == "agg" and str(a[1]).startswith("closure:")]
            body = prog.body(cl[0][1][len("closure:"):]) if cl else None
            okst = False
            if body is not None and last in ("map", "filter"):
                from terms import return_term as _rt
                rt = _rt(prog, body)
                if rt is not None:
                    inner = rt
                    while inner[0] == "un" and inner[1] == "Not":
                        inner = inner[2]
                    nm = inner[1].split("::")[-1] if inner[0] == "call" else ""
                    if last == "map" and nm in ("trim", "trim_start", "trim_end"):
                        okst = True
                    if last == "filter" and nm in ("starts_with", "is_empty"):
                        okst = True
            ck.req(okst, "O6.pipeline", "stage %s" % last, gb.where(t["line"]),
                   "between splitting a book file into chunks and folding the games there is a stage `%s` that is not a trim, the game filter or an emptiness filter: "
                   "games can be dropped or regrouped before they are recorded" % last)
    import os as _os
    book_dir = None
    for cand in ("book",):
        d_ = _os.path.join(_os.environ.get("WCX_REPO", "/repo"), cand)
        # scratch copies: facts dir is <scratch>/_facts
        fd = getattr(ck, "facts_dir", "")
        if fd.endswith("_facts") and _os.path.isdir(_os.path.join(_os.path.dirname(fd), cand)):
            d_ = _os.path.join(_os.path.dirname(fd), cand)
        if _os.path.isdir(d_):
            book_dir = d_
    if book_dir is None:
        ck.missing("O6", "book directory of the repository")
        return
    dropped = []
    n_games = 0
    for f_ in sorted(_os.listdir(book_dir)):
        pth = _os.path.join(book_dir, f_)
        if not _os.path.isfile(pth):
            continue
        try:
            txt = open(pth, encoding="utf-8", errors="replace").read()
        except OSError:
            continue
        if trimmed_file:
            txt = txt.strip()
        for chunk in txt.split(sep):
            if not chunk.strip().startswith("1."):
                continue      # not a game (tags, comments, empty)
            n_games += 1
            seen = chunk
            if mapped_trim or flt[1] == "trim":
                seen = chunk.strip()
            elif flt[1] == "trim_start":
                seen = chunk.lstrip()
            if not seen.startswith(flt[0]):
                dropped.append((f_, chunk.strip()[:40]))
    ck.floor("O6", n_games, 1000, "games in the repository's book files")
    ck.req(not dropped, "O6.corpus_games", "book files", gb.where(),
           "%d game(s) of the book directory never reach the builder's per-game fold: the chunk filter `starts_with(%r)` is applied to the raw chunk of "
           "split(%r), and these chunks begin with whitespace (an extra blank line precedes the game): %s" % (len(dropped), flt[0], sep, dropped[:4]),
           "%d games, all pass the chunk filter" % n_games)
    ck.extra["book_games_in_repository"] = n_games


def _str_const(t):
    from terms import thaw
    for x in walk(t):
        if x[0] == "const":
            v = thaw(x[2])
            while isinstance(v, dict) and "$ref" in v and len(v) == 1:
                v = v["$ref"]
            if isinstance(v, dict) and "$str" in v:
                return v["$str"]
    return None


def o5_union(ck):
    prog = ck.prog
    ap = ck.body(BOOK + "::append", "O5")
    tb = TermBuilder(prog, ap)
    ext = [t for bb, t in live_calls(ap) if callee_name(t).endswith("Extend<&'a T>>::extend") or callee_name(t).endswith("::extend")]
    good = len(ext) == 1
    if good:
        a = [tb.operand(x) for x in ext[0]["args"]]
        recv = a[0]
        # the moves: the parameter itself, or an element-preserving view of it (iter().copied() / cloned() / into_iter())
        src = a[1]
        while src[0] == "call" and src[1].split("::")[-1] in ("copied", "cloned", "iter", "into_iter", "deref", "to_vec", "to_owned") and src[2]:
            src = src[2][0]
        getter = is_call(recv, "or_insert_with") or is_call(recv, "or_default") or is_call(recv, "or_insert")
        good = src == ("param", 3) and getter and is_call(recv[2][0], "::entry") and recv[2][0][2] == (("field", ("param", 1), "table"), ("param", 2))
    ck.req(good, "O5.union", "Book::append", ap.where(), "append is not table.entry(hash).or_insert_with(HashSet::new).extend(moves)")
    adt = ck.adt(BOOK, "O5")
    f = adt["variants"][0]["fields"]
    ck.req(len(f) == 1 and "BTreeMap<u64, std::collections::hash::set::HashSet<weechess_core::moves::Move>>" in f[0]["ty"] and not f[0]["public"], "O5.repr", "Book", "",
           "Book is not a private map hash -> set of moves: %s" % [(x["name"], x["ty"]) for x in f])
    # writers of the table: append only
    for b in prog.bodies.values():
        if b.crate not in ("weechess_core", "weechess_engine", "build_script_build"):
            continue
        for bb, t in live_calls(b):
            n = callee_name(t)
            if "btree::map::BTreeMap" in n and n.split("::")[-1] in ("insert", "remove", "clear", "retain", "pop_first", "pop_last", "append") and "Move" in " ".join(t.get("generics", [])):
                ck.fail("O5.other_writer", b.name, b.where(t["line"]), "book table modified by %s outside Book::append" % n.split("::")[-1])
