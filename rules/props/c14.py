"""C14 - Malformed text never crashes the parsers or the UCI loop (proof relative to reviewed sites).

P1 panic-site inventory + discharge (intervals, constant folding, infeasible blocks, callee-specific rules, reviewed table),
P2 INV newtype invariants at every construction site (closed world), AK ArrayKey index bounds, RG regex capture groups,
SI success-implies summaries verified by folding, P3 input-driven loops."""
import json
import os
import re

from facts import callee_name
from terms import TermBuilder, show, walk, const_value, fold, CannotFold, thaw, scalar
from evalfn import FnModel
import cfg
import panics
import intervals
from intervals import Iv
from callgraph import CallGraph
from .common import live_calls, is_iter_next, impl_fn, guards_of, ws_bodies
from discharge import load_reviewed, discharge_site, ARRAYMAP_INDEX

LEVEL = "proof"
VERIF = os.path.dirname(os.path.dirname(os.path.dirname(os.path.abspath(__file__))))

PARSER_ROOTS = [
    "<weechess_core::notation::fen::Fen as weechess_core::notation::TryFromNotation<weechess_core::state::State>>::try_from_notation",
    "<weechess_core::notation::san::San as weechess_core::notation::TryFromNotation<weechess_core::moves::MoveQuery>>::try_from_notation",
    "weechess_core::notation::try_from_notation",
]
EXEC = "weechess_engine::uci::Client::exec"
# chess-logic / search boundary of the UCI text layer (C01/C02/C04/C16 territory), and start-up code
EXEC_STOPS = [
    "weechess_core::state::State::by_performing_moves", "weechess_engine::book::OpeningBook::lookup", "weechess_core::state::State::pretty",
    "weechess_engine::searcher::Searcher::analyze", "<weechess_core::state::State as core::default::Default>::default",
    "weechess_engine::book::OpeningBook::try_default", "<weechess_engine::eval::Evaluator as core::default::Default>::default",
    "weechess_engine::eval::Evaluator::evaluate",   # static evaluation of a position: its panic sites belong to C04's inventory
]

def run(ck):
    ck.explanation = (
        "P1: every panic site (MIR Assert, call to an external function documented or known to panic, explicit panic) in the workspace functions reachable "
        "from the FEN/SAN readers and from the UCI command loop (text layer: up to the chess-logic and search boundaries, including Search::spawn and its "
        "writer/timer closures and wait_cancel) is discharged by constant folding, by the interval analysis (block infeasible or assert condition decided) "
        "under the newtype invariants, by a callee-specific rule (radix, RangeFull, regex groups, guarded slices) or by an individually reviewed entry with a "
        "reason. P2/INV: the assumed invariants hold at every construction site in the closed workspace. AK: every ArrayKey's index is below its COUNT. "
        "SI: guard summaries are verified by folding. P3: every loop in the readers consumes input.")
    ck.trusted = ["rustc front end and MIR construction (overflow/bounds asserts of the dev profile)", "extractor decoding, rustdoc `# Panics` sections from crate metadata",
                  "the regex crate does not panic on any haystack", "std formatting / allocation failure and closed stdout are outside the input quantifier",
                  "tables/reviewed_sites.json (each entry one named site with a reason)"]
    ck.not_decided = ["crashes of chess logic on a syntactically valid FEN that is not a legal position (e.g. no king): outside the text layer (DESIGN.md C14)"]
    ctx = {}
    ck.run_rule(setup, ctx)
    ck.run_rule(p1_inventory, ctx)
    ck.run_rule(inv_constructions, ctx)
    ck.run_rule(ak_array_keys, ctx)
    ck.run_rule(si_success_implies, ctx)
    ck.run_rule(p3_loops, ctx)
    ck.run_rule(p5_text_counters, ctx)


def setup(ck, ctx):
    prog = ck.prog
    cg = CallGraph(prog)
    for r in PARSER_ROOTS + [EXEC]:
        ck.body(r, "P1")
    pseen, _, _ = cg.reachable(PARSER_ROOTS)
    useen, _, _ = cg.reachable([EXEC], stop=EXEC_STOPS)
    ctx["parser_scope"] = pseen
    ctx["uci_scope"] = useen
    ctx["scope"] = pseen | useen
    eng = intervals.Engine(prog)
    all_bodies = [b.name for b in prog.bodies.values() if b.crate in ("weechess_core", "weechess_engine", "weechess", "build_script_build")]
    res = {}
    prev = {}
    for rnd in range(3):
        eng.param_env = {}
        eng.cache = {}
        res = {}
        for n in sorted(all_bodies):
            b = prog.body(n)
            if len(b.blocks) > 600:
                continue
            params = prev.get(n, {}) if rnd > 0 else {}
            res[n] = eng.analyse(n, params)
        prev = {k: dict(v) for k, v in eng.param_env.items()}
    ctx["eng"] = eng
    ctx["res"] = res
    ctx["param_env"] = prev
    # P1 uses argument ranges joined over the call sites inside the scope only (calls from elsewhere are not part of this property)
    seng = intervals.Engine(prog)
    roots = set(PARSER_ROOTS + [EXEC])
    sres = {}
    sprev = {}
    for rnd in range(3):
        seng.param_env = {}
        seng.cache = {}
        sres = {}
        for n in sorted(ctx["scope"]):
            params = {} if (n in roots or rnd == 0) else sprev.get(n, {})
            sres[n] = seng.analyse(n, params)
        sprev = {k: dict(v) for k, v in seng.param_env.items()}
    ctx["scope_eng"] = seng
    ctx["scope_res"] = sres
    ctx["scope_param_env"] = sprev
    ck.extra["functions_in_scope"] = len(ctx["scope"])
    ck.extra["functions_analysed_by_intervals"] = len(res)
    ck.floor("P1", len(pseen), 30, "workspace functions reachable from the FEN/SAN readers")
    # (35 on the reference tree; the floor leaves room for a refactor that routes the writers through one helper)
    ck.floor("P1", len(useen), 25, "workspace functions reachable from the UCI loop (text layer)")


# ---------------------------------------------------------------------------------------------- P1


def p1_inventory(ck, ctx):
    prog = ck.prog
    res = ctx["scope_res"]
    reviewed = load_reviewed("C14")
    used_reviews = set()
    counts = {"interval": 0, "const": 0, "infeasible": 0, "rule": 0, "benign": 0, "reviewed": 0, "array_key": 0}
    total = 0
    for n in sorted(ctx["scope"]):
        b = prog.body(n)
        fa = res.get(n)
        if fa is None:
            ck.fail("P1.analysed", n, b.where(), "function in scope was not analysed (too large)")
            continue
        tb = TermBuilder(prog, b)
        for site in panics.inventory(prog, b):
            total += 1
            key = "%s:%s" % (n, site.key)
            cat, why = discharge_site(prog, ctx, n, site, fa, tb, ctx["scope_eng"], reviewed, used_reviews)
            if cat is None:
                st = fa.state_before_term(site.bb)
                detail = ""
                if st is not None and site.term["k"] == "assert":
                    detail = " operands: %s" % [str(fa.read_op(st, o)) for o in site.term["msg_ops"]]
                ck.fail("P1.undischarged", key, site.where(),
                        "panic site %s cannot be excluded for all inputs%s (callers' argument ranges: %s)" % (site.desc[:140], detail, {k: str(v) for k, v in ctx["scope_param_env"].get(n, {}).items()}))
            else:
                counts[cat] = counts.get(cat, 0) + 1
                ck.ok("P1.discharged", key, site.where(), (cat + ": " + why)[:160])
                if len(ck.samples) < 30 and cat not in ("benign",):
                    ck.sample({"rule": "P1", "site": key, "how": (cat + ": " + why)[:160]})
    ck.extra["panic_sites"] = total
    ck.extra["discharge_counts"] = counts
    ck.floor("P1", total, {"dev": 60, "release": 50}, "panic sites in the text-layer scope")
    # stale reviewed entries are reported (a review must name an existing site)
    for (fn, key), e in sorted(reviewed.items()):
        if (fn, key) not in used_reviews and fn in ctx["scope"]:
            sites = {s.key for s in panics.inventory(prog, prog.body(fn))} if prog.body(fn) else set()
            if key not in sites:
                # not a property violation: a stale entry discharges nothing; reported in the evidence only
                ck.extra.setdefault("stale_reviews", []).append("%s:%s" % (fn, key))


# ---------------------------------------------------------------------------------------------- INV


def inv_constructions(ck, ctx):
    prog = ck.prog
    eng = ctx["eng"]
    res = ctx["res"]
    inv = eng.inv["types"]
    n_sites = 0
    for name, fa in sorted(res.items()):
        b = fa.body
        for bb in sorted(fa.inn):
            st = fa.inn[bb].copy()
            for s in b.stmts(bb):
                if s["k"] != "assign":
                    continue
                rv = s["rv"]
                pl = s["place"]
                dst_ty = fa.ty(pl["l"])
                for e in pl["p"]:
                    if isinstance(e, dict) and "ty" in e:
                        dst_ty = e["ty"]
                if "agg" in rv and rv["agg"].get("adt") in inv and len(rv["ops"]) == 1:
                    n_sites += 1
                    v = fa.read_op(st, rv["ops"][0])
                    want = Iv(*inv[rv["agg"]["adt"]]["range"])
                    good = v is not None and v.within(want)
                    ck.req(good, "INV.construct", "%s:%s@%s" % (name, rv["agg"]["adt"].split("::")[-1], _ordinal(b, bb, s)), b.where(s["line"]),
                           "a %s is constructed from a value in %s, the invariant assumed by the panic analysis is %s (callers' argument ranges: %s)"
                           % (rv["agg"]["adt"].split("::")[-1], v, want, {k: str(x) for k, x in ctx["param_env"].get(name, {}).items()}),
                           "%s within %s" % (v, want))
                res_ = fa.eval_rvalue(st, dst_ty, rv)
                fa.assign(st, pl, dst_ty, res_)
    ck.floor("INV", n_sites, 12, "construction sites of Square/File/Rank/PieceIndex values")
    # constants of the invariant types
    for cname, c in sorted(prog.consts.items()):
        ty = c["ty"]
        if ty in inv:
            v = scalar(c["value"])
            r = inv[ty]["range"]
            ck.req(isinstance(v, int) and r[0] <= v <= r[1], "INV.const", cname, "", "constant %s = %s violates the invariant %s" % (cname, v, r))
    # fields must stay private unless every construction is visible anyway (PieceIndex(pub u8) is searched workspace-wide above)
    for ty in inv:
        a = ck.adt(ty, "INV")
        f = a["variants"][0]["fields"][0]
        if f["public"]:
            ck.ok("INV.public_field", ty.split("::")[-1], "", "field is public: all aggregate constructions and field writes in the closed workspace are covered by INV.construct / INV.write")
    # direct writes into the wrapped field
    for name, fa in sorted(res.items()):
        b = fa.body
        for bb, blk in enumerate(b.blocks):
            for s in blk["stmts"]:
                if s["k"] == "assign" and s["place"]["p"]:
                    last = [e for e in s["place"]["p"] if isinstance(e, dict) and "f" in e]
                    if last and last[-1].get("of") in inv and last[-1]["i"] == 0:
                        ck.fail("INV.write", "%s@L%d" % (name, 0), b.where(s["line"]), "the wrapped number of a %s is written in place" % last[-1]["of"].split("::")[-1])


def _ordinal(b, bb, s):
    k = 0
    for i, blk in enumerate(b.blocks):
        for x in blk["stmts"]:
            if x["k"] == "assign" and "agg" in x["rv"] and x["rv"]["agg"].get("adt") == s["rv"]["agg"].get("adt"):
                k += 1
                if x is s:
                    return k
    return k


# ---------------------------------------------------------------------------------------------- AK / SI / P3


def ak_array_keys(ck, ctx):
    """Every `impl ArrayKey for K`: Index::from(k).0 < K::COUNT for every k in K's domain, so ArrayMap's index never goes out of bounds."""
    prog = ck.prog
    eng = ctx["eng"]
    keys = [i for i in prog.impls if i["trait"] == "weechess_core::utils::ArrayKey"]
    ck.floor("AK", len(keys), 8, "ArrayKey implementations")
    for i in keys:
        ty = i["self_ty"]
        count = prog.consts.get("<%s as weechess_core::utils::ArrayKey>::COUNT" % ty)
        fn = impl_fn(prog, "weechess_core::utils::Index", "From<%s>" % ty, "from")
        if count is None or fn is None:
            ck.fail("AK", ty, "", "cannot find COUNT or Index::from for ArrayKey %s" % ty)
            continue
        dom = eng.types.range_of(ty)
        fa = eng.analyse(fn, {1: dom} if dom is not None else {})
        top = fa.ret
        good = dom is not None and fa.returns and not top.empty() and top.hi < count["value"] and top.lo >= 0
        ck.req(good, "AK.bound", ty.split("::")[-1], prog.body(fn).where(), "Index::from(%s) ranges over %s but COUNT is %s" % (ty.split("::")[-1], top, count["value"]),
               "index %s < COUNT %s" % (top, count["value"]))
    # ArrayMap::index / index_mut use exactly `self.array[index.into().0]` with an array of length I::COUNT
    for n in ARRAYMAP_INDEX[:2]:
        b = ck.body(n, "AK")
        asserts = [t for bb, blk in enumerate(b.blocks) for t in [blk["term"]] if t["k"] == "assert" and t["msg"] == "BoundsCheck"]
        ck.req(len(asserts) == 1, "AK.single_access", n.split("::")[-1], b.where(), "expected one bounds-checked array access, found %d" % len(asserts))
    am = ck.adt("weechess_core::utils::ArrayMap", "AK")
    f = am["variants"][0]["fields"][0]
    ck.req(f["ty"].endswith("; I::COUNT]"), "AK.length", "ArrayMap.array", "", "ArrayMap's array length is not I::COUNT: %s" % f["ty"])


def si_success_implies(ck, ctx):
    prog = ck.prog
    eng = ctx["eng"]
    for name, g in sorted(eng.inv.get("success_implies", {}).items()):
        b = ck.body(name, "SI")
        m = FnModel(prog, b, inline_depth=2)
        lo, hi = g["domain"]
        rlo, rhi = g["range"]
        bad = []
        try:
            for v in range(lo, hi + 1):
                path, _env = m.select(v)
                rt = path.ret
                success = rt[0] == "agg" and rt[1].endswith(("Option::Some", "Result::Ok"))
                if success and not (rlo <= v <= rhi):
                    bad.append(v)
        except CannotFold as e:
            ck.fail("SI", name, b.where(), "cannot fold %s over its argument domain: %s" % (name, e))
            continue
        ck.req(not bad, "SI.verified", name, b.where(), "%s succeeds for arguments %s outside the claimed range %s" % (name.split("::")[-2], bad[:5], g["range"]),
               "folded over %d..=%d" % (lo, hi))


def p3_loops(ck, ctx):
    prog = ck.prog
    n = 0
    for name in sorted(ctx["parser_scope"]):
        b = prog.body(name)
        for be in cfg.back_edges(b):
            loop = cfg.natural_loop(b, be)
            n += 1
            has_next = any(b.term(x)["k"] == "call" and is_iter_next(callee_name(b.term(x))) or (b.term(x)["k"] == "call" and callee_name(b.term(x)).endswith(("BitBoard::pop", "Peekable<I>::peek")))
                           for x in loop)
            ck.req(has_next, "P3.input_driven", "%s@bb%d" % (name, be[1]), b.where(), "a loop in the reader does not advance an iterator: it may not terminate on some input")
    ex = prog.body(EXEC)
    outer = [be for be in cfg.back_edges(ex)]
    lines_loop = any(any(ex.term(x)["k"] == "call" and is_iter_next(callee_name(ex.term(x))) and "io::Lines" in callee_name(ex.term(x)) for x in cfg.natural_loop(ex, be)) for be in outer)
    ck.req(lines_loop, "P3.command_loop", "Client::exec", ex.where(), "the command loop does not consume one stdin line per iteration")
    ck.extra["loops_checked"] = n
    # P4: no recursion in the text layer.  A reader that calls itself (directly or through helpers / closures) uses one stack frame per
    # step of the input; a long enough token then overflows the stack, which aborts the process (not even a catchable panic).
    cg = CallGraph(prog)
    scope = set(ctx["parser_scope"]) | set(ctx["uci_scope"])
    edges = {n_: {e for e in cg.edges.get(n_, ()) if e in scope} for n_ in scope}
    index, low, on, stack, sccs, counter = {}, {}, set(), [], [], [0]

    def strong(v):
        work = [(v, iter(sorted(edges[v])))]
        index[v] = low[v] = counter[0]
        counter[0] += 1
        stack.append(v)
        on.add(v)
        while work:
            node, it_ = work[-1]
            adv = False
            for w in it_:
                if w not in index:
                    index[w] = low[w] = counter[0]
                    counter[0] += 1
                    stack.append(w)
                    on.add(w)
                    work.append((w, iter(sorted(edges[w]))))
                    adv = True
                    break
                elif w in on:
                    low[node] = min(low[node], index[w])
            if adv:
                continue
            work.pop()
            if work:
                low[work[-1][0]] = min(low[work[-1][0]], low[node])
            if low[node] == index[node]:
                comp = []
                while True:
                    w = stack.pop()
                    on.discard(w)
                    comp.append(w)
                    if w == node:
                        break
                sccs.append(comp)
    for v in sorted(scope):
        if v not in index:
            strong(v)
    rec = [c for c in sccs if len(c) > 1 or c[0] in edges[c[0]]]
    ck.req(not rec, "P4.no_recursion", "text layer", "" if not rec else prog.body(sorted(rec[0])[0]).where(),
           "the text layer is recursive (%s): the stack depth follows the input, a long token overflows the stack and aborts the process"
           % [sorted(x.split("::")[-1] for x in c)[:3] for c in rec][:2], "%d functions, call graph acyclic" % len(scope))


for _f in (setup, p1_inventory, inv_constructions, ak_array_keys, si_success_implies):
    _f.raw_bodies = True


# ---------------------------------------------------------------------------------------------- P5


def p5_text_counters(ck, ctx):
    """Numbers the text layer accepts at full width travel on past the chess-logic boundary where P1 stops: the two FEN counters are parsed as
    unbounded integers into `Clock` and every later `position ... moves` / search step computes with them.  Every arithmetic panic site (overflow,
    division) anywhere in the workspace code reachable from the UCI loop - no boundary - whose operands read a field of `Clock` must be discharged:
    a huge counter is legal text and must not take the process down in a build with overflow checks."""
    prog = ck.prog
    cg = CallGraph(prog)
    adt = ck.adt("weechess_core::state::Clock", "P5")
    fields = {f["name"] for f in adt["variants"][0]["fields"]}
    ck.req(len(fields) >= 2, "P5.clock", "Clock", "", "the move-counter record has fields %s" % sorted(fields))
    seen, _e, _i = cg.reachable([EXEC] + PARSER_ROOTS)
    n_sites = 0
    n_readers = 0
    for n in sorted(seen):
        b = prog.raw_body(n)
        if b is None or b.crate not in ("weechess_core", "weechess_engine", "weechess"):
            continue
        tb = TermBuilder(prog, b)
        reads = False
        for bb, blk in enumerate(b.blocks):
            if blk.get("cleanup"):
                continue
            t = blk["term"]
            if t["k"] != "assert":
                continue
            msg = str(t.get("msg"))
            if not any(k in msg for k in ("Overflow", "DivisionByZero", "RemainderByZero")):
                continue
            ops = [tb.operand(o) for o in t.get("msg_ops", [])]
            if not any(x[0] == "field" and x[2] in fields for o in ops for x in walk(o)):
                continue
            reads = True
            n_sites += 1
            ck.fail("P5.counter_arithmetic", "%s:%s" % (n.split("::")[-1], msg.split("(")[0][:40]), b.where(t.get("line")),
                    "checked arithmetic on a move counter read from text (%s): a FEN counter of 18446744073709551615 followed by a move panics here in "
                    "builds with overflow checks and takes the UCI process down" % ", ".join(show(o)[:60] for o in ops))
        # count functions that read the counters at all (evidence; the rule is not vacuous while > 0)
        if reads or any(x[0] == "field" and x[2] in fields for blk in b.blocks for s in blk["stmts"] if s["k"] == "assign" for x in walk(tb.rvalue(s["rv"]))):
            n_readers += 1
    ck.floor("P5", n_readers, 2, "functions reachable from the UCI loop that read the move counters")
    if n_sites == 0:
        ck.ok("P5.counter_arithmetic", "all", "", "no overflow-checked arithmetic on Clock fields in %d reachable function(s) (%d read the counters)" % (len(seen), n_readers))
    ck.extra["P5_functions_reachable"] = len(seen)
    ck.extra["P5_counter_readers"] = n_readers
