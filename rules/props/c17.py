"""C17 - Positions already seen are treated as draws (structural clauses D1-D6)."""
from facts import callee_name
from terms import TermBuilder, return_term, show, walk, const_value
import cfg
from .common import live_calls, guards_of, ws_bodies, closure_upvar_terms, resolve_upvars, is_iter_next
from .c01 import is_call

LEVEL = "other"
S = "weechess_engine::searcher::"
REC = S + "Searcher::analyze_recursive"
ITER = S + "Searcher::analyze_iterative"
HIST = S + "StateHistory"
HASH = "weechess_core::hasher::ZobristHasher::hash"


def run(ck):
    ck.explanation = (
        "D1: in analyze_recursive the repetition test dominates the transposition-table probe, the quiescence call, move generation and the recursion, so "
        "a table entry can never answer for a recorded position. D2: the early return is taken exactly under `current_depth > 0 && history.lookup(hash).is_some()` "
        "and yields the draw constant 0; the root (depth 0) is always searched. D3: the lookup key is the same hasher.hash(game_state) term as the table key. "
        "D4: analyze_iterative records hash(root) before the first iteration and workers read, and the artifact returns, that same history. D5: the history "
        "only grows (no removal/clearing anywhere). D6: recursion increases the depth, the root call passes depth 0. D7: a table entry may end the search of a node only "
        "if it was computed under the present history (entries stamped with a history generation that the probe compares, or tables invalidated whenever "
        "the history grows) - otherwise an entry stored before a position was recorded still answers for every ancestor of that position. NOT decided: that the remaining search "
        "still finds the alternative mate (game-theoretic).")
    ck.trusted = ["rustc front end and MIR construction", "extractor decoding", "C08 (hash identifies the position)"]
    ck.not_decided = ["that the search still reports a winning evaluation via another mating move (game-theoretic value, see C06)"]
    ck.run_rule(d1_d2_d3)
    ck.run_rule(d4_root_recorded)
    ck.run_rule(d5_history_monotone)
    ck.run_rule(d7_table_entries_follow_history)
    ck.run_rule(d8_history_in_key_space)
    # the history identifies positions by their hash: the hash rules of C08 are necessary here too (a hash that reads the move counters never repeats)
    from .c08 import h1_h2_h5_influence, h4_keys
    ck.run_rule(h1_h2_h5_influence)
    ck.run_rule(h4_keys)
    # a recorded position is recognised again only if play reaches the very same State (all hashed components) as the one recorded,
    # whether it came from a FEN or from earlier play: the successor's side to move, rights and en passant target are exact (C02's U2-U5)
    from . import c02 as _c02
    _ctx = {}
    for _r in (_c02.collect_sets, _c02.u2_rights, _c02.u3_u5_state_fields):
        ck.run_rule(_r, _ctx)


def d1_d2_d3(ck):
    prog = ck.prog
    b = ck.body(REC, "D1")
    tb = TermBuilder(prog, b)
    names = {b.local_name(i): i for i in range(1, b.arg_count + 1)}
    depth_p = names.get("current_depth")
    hist_p = names.get("state_history")
    state_p = names.get("game_state")
    hasher_p = names.get("hasher")
    if None in (depth_p, hist_p, state_p, hasher_p):
        ck.missing("D2", "parameters current_depth/state_history/game_state/hasher of analyze_recursive")
        return
    lk = live_calls(b, names=(HIST + "::lookup",))
    ck.req(len(lk) == 1, "D2.lookup", "analyze_recursive", b.where(), "expected exactly one history lookup, found %d" % len(lk))
    if len(lk) != 1:
        return
    lbb, lt = lk[0]
    la = [tb.operand(x) for x in lt["args"]]
    key = la[1]
    ck.req(la[0] == ("param", hist_p), "D2.history", "analyze_recursive", b.where(lt["line"]), "the lookup is made on %s, not on the state_history parameter" % show(la[0]))
    ck.req(key == ("call", HASH, (("param", hasher_p), ("param", state_p))), "D3.key", "analyze_recursive", b.where(lt["line"]),
           "the history is looked up with %s, not with hasher.hash(game_state)" % show(key)[:160], "hasher.hash(game_state)")
    # the draw return: blocks assigning Ok(EVEN) to _0
    draws = []
    for bb, blk in enumerate(b.blocks):
        for s in blk["stmts"]:
            if s["k"] == "assign" and s["place"] == {"l": 0, "p": []} and "agg" in s["rv"] and s["rv"]["agg"].get("variant") == "Ok":
                v = tb.operand(s["rv"]["ops"][0])
                g = guards_of(prog, b, bb, tb)
                if any(tk is True and any(is_call(x, HIST + "::lookup") for x in walk(c)) for c, tk in g):
                    draws.append((bb, s, v, g))
    ck.req(len(draws) == 1, "D2.draw_return", "analyze_recursive", b.where(), "expected one early return guarded by the history lookup, found %d" % len(draws))
    for bb, s, v, g in draws:
        ck.req(const_value(v) == 0, "D2.value", "analyze_recursive", b.where(s["line"]), "a repeated position is valued %s, not the draw constant 0" % show(v))
        seen_depth = seen_lookup = False
        extra = []
        for c, tk in g:
            if c[0] == "bin" and c[1] in ("Gt", "Ne") and ("param", depth_p) in (c[2], c[3]) and 0 in (const_value(c[2]), const_value(c[3])) and tk is True \
                    and not (c[1] == "Gt" and c[3] == ("param", depth_p)):
                seen_depth = True
            elif c[0] == "bin" and c[1] == "Lt" and c[3] == ("param", depth_p) and const_value(c[2]) == 0 and tk is True:
                seen_depth = True      # 0 < current_depth
            elif c[0] == "bin" and c[1] == "Eq" and ("param", depth_p) in (c[2], c[3]) and 0 in (const_value(c[2]), const_value(c[3])) and tk is False:
                seen_depth = True      # not (current_depth == 0), e.g. a named `is_root` local
            elif is_call(c, "Option::<T>::is_some") and is_call(c[2][0], HIST + "::lookup") and tk is True:
                seen_lookup = True
            elif any(x == ("param", names.get("nodes_searched")) or is_call(x, S + "CancellationToken::is_cancelled") for x in walk(c)):
                continue  # the interrupt poll precedes everything
            elif c[0] == "bin" and c[1] in ("Eq", "Ne") and 0 in (const_value(c[2]), const_value(c[3])) and any(y[0] == "bin" and y[1] == "Rem" for y in (c[2], c[3])):
                continue
            elif c[0] == "discr" and is_call(c[1], "Try>::branch") and tk in (0, ("else", (1,))) and \
                    any("SearchInterrupt" in b.local_ty(x[1]) for x in walk(c[1]) if x[0] in ("var", "local") and isinstance(x[1], int) and x[1] < len(b.locals)):
                continue  # `poll(..)?` of the interrupt check: the Continue edge
            else:
                extra.append((show(c)[:100], tk))
        ck.req(seen_depth, "D2.not_at_root", "analyze_recursive", b.where(s["line"]), "the draw shortcut is not restricted to current_depth > 0: the root itself could be answered as a draw without being searched")
        ck.req(seen_lookup, "D2.on_hit", "analyze_recursive", b.where(s["line"]), "the draw return is not taken on `lookup(..).is_some()`")
        ck.req(not extra, "D2.not_narrowed", "analyze_recursive", b.where(s["line"]), "the draw return has additional conditions %s: some recorded positions are not treated as draws" % extra)
    # D1 dominance: the block deciding the draw (switch on is_some) dominates the later stages
    dom = cfg.dominators(b)
    decide = None
    for bb, blk in enumerate(b.blocks):
        t = blk["term"]
        if t["k"] == "switch":
            c = tb.operand(t["discr"])
            if is_call(c, "Option::<T>::is_some") and is_call(c[2][0], HIST + "::lookup"):
                decide = bb
    stages = {
        "table probe": [bb for bb, t in live_calls(b, names=(S + "TranspositionTableAccess::find",))],
        "quiescence": [bb for bb, t in live_calls(b, names=(S + "Searcher::quiescence_search",))],
        "move generation": [bb for bb, t in live_calls(b, names=("weechess_core::movegen::MoveGenerator::compute_psuedo_legal_moves_into",))],
        "recursion": [bb for bb, t in live_calls(b, names=(REC,))],
        "table insert": [bb for bb, t in live_calls(b, names=(S + "TranspositionTableAccess::insert",))],
    }
    for nm, blocks in sorted(stages.items()):
        ck.req(bool(blocks), "D1.stage", nm, b.where(), "cannot find the %s in analyze_recursive" % nm)
        for x in blocks:
            # every path from entry to the stage passes the depth test; when depth > 0 it passes the lookup decision
            depth_sw = None
            ok = decide is not None and cfg.must_pass(b, [0], [x], [decide] + _depth_false_edge(b, tb, depth_p))
            ck.req(ok, "D1.before", nm, b.where(b.term(x)["line"]),
                   "the %s can be reached without first consulting the repetition history: a stored entry may answer for a recorded position" % nm,
                   "history test dominates")
    # D6 recursion depth and root call
    for bb, t in live_calls(b, names=(REC,)):
        a = tb.operand(t["args"][depth_p - 1])
        inc = a[0] == "bin" and a[1] == "Add" and any(x == ("param", depth_p) for x in walk(a)) and any(const_value(x) == 1 for x in walk(a) if x[0] == "const")
        ck.req(inc, "D6.deeper", "analyze_recursive", b.where(t["line"]), "the recursive call passes depth %s, not current_depth + 1 (+ extension)" % show(a)[:120])
    roots = 0
    for name in [ITER] + prog.closures_of(ITER):
        c = prog.body(name)
        ctb = TermBuilder(prog, c)
        for bb, t in live_calls(c, names=(REC,)):
            roots += 1
            a = ctb.operand(t["args"][depth_p - 1])
            ck.req(const_value(a) == 0, "D6.root_depth", name.split("::")[-1], c.where(t["line"]), "the root call passes current_depth = %s, not 0" % show(a))
    ck.floor("D6", roots, 1, "root calls of analyze_recursive")
    ck.sample({"rule": "D2", "guards": [(show(c)[:120], tk) for c, tk in draws[0][3]] if draws else None})


def _depth_false_edge(b, tb, depth_p):
    """Blocks reached on the false edge of `current_depth > 0` (root: history not consulted by design)."""
    out = []
    for bb, blk in enumerate(b.blocks):
        t = blk["term"]
        if t["k"] == "switch":
            c = tb.operand(t["discr"])
            if c[0] == "bin" and c[1] in ("Gt", "Ne") and ("param", depth_p) in (c[2], c[3]) and 0 in (const_value(c[2]), const_value(c[3])):
                out += [x[1] for x in t["cases"] if x[0] == 0]
            if c[0] == "bin" and c[1] == "Eq" and ("param", depth_p) in (c[2], c[3]) and 0 in (const_value(c[2]), const_value(c[3])):
                out += [t["otherwise"]]
    return out


def d4_root_recorded(ck):
    prog = ck.prog
    it = ck.body(ITER, "D4")
    tb = TermBuilder(prog, it)
    inc = live_calls(it, names=(HIST + "::increment",))
    ck.req(len(inc) == 1, "D4.increment", "analyze_iterative", it.where(), "expected exactly one history increment at search start, found %d" % len(inc))
    if len(inc) != 1:
        return
    ibb, t = inc[0]
    a = [tb.operand(x) for x in t["args"]]
    key = a[1]
    good = is_call(key, HASH) and key[2][1] == ("param", 1)
    ck.req(good, "D4.key", "analyze_iterative", it.where(t["line"]), "the recorded key is %s, not hasher.hash(&game_state)" % show(key)[:160])
    # before the first iteration: dominates the loop head of the deepening loop
    heads = [bb for bb, tt in live_calls(it) if is_iter_next(callee_name(tt)) and "Range" in callee_name(tt)]
    dom = cfg.dominators(it)
    ck.req(bool(heads) and all(ibb in dom[h] for h in heads), "D4.before_loop", "analyze_iterative", it.where(t["line"]), "the root position is not recorded before the first iteration")
    ck.req(not cfg.in_cycle(it, ibb), "D4.once", "analyze_iterative", it.where(t["line"]), "the root position is recorded inside the iteration loop")
    # the history incremented is the one handed to the workers and returned in the artifact
    hist = a[0]
    arts = []
    for blk in it.blocks:
        for s in blk["stmts"]:
            if s["k"] == "assign" and "agg" in s["rv"] and s["rv"]["agg"].get("adt") == S + "SearchArtifact":
                fields = s["rv"]["agg"]["fields"]
                ops = [tb.operand(o) for o in s["rv"]["ops"]]
                arts.append(dict(zip(fields, ops)))
    ck.req(len(arts) == 1 and arts[0].get("state_history") == hist, "D4.returned", "SearchArtifact", it.where(),
           "the artifact does not return the history that was incremented (%s vs %s)" % (show(arts[0].get("state_history")) if arts else "?", show(hist)))
    n = 0
    for name in prog.closures_of(ITER):
        c = prog.body(name)
        ctb = TermBuilder(prog, c)
        for bb, tt in live_calls(c, names=(REC,)):
            n += 1
            h = ctb.operand(tt["args"][4])
            h2, home = resolve_upvars(prog, c, h)
            ck.req(home.name == ITER and h2 == hist, "D4.workers", name.split("::")[-1], c.where(tt["line"]), "workers search with history %s, not the one the root was recorded in" % show(h2))
    ck.floor("D4", n, 1, "worker calls of analyze_recursive")


def d5_history_monotone(ck):
    prog = ck.prog
    adt = ck.adt(HIST, "D5")
    f = adt["variants"][0]["fields"]
    import re as _re
    m_ = _re.search(r"HashMap<u64, (u8|u16|u32|u64|usize|i32|i64|isize)(,|>)", f[0]["ty"]) if len(f) == 1 else None
    ck.req(m_ is not None and not f[0]["public"], "D5.repr", "StateHistory", "", "StateHistory is not a private HashMap<u64, integer count>: %s" % [(x["name"], x["ty"]) for x in f])
    vty = m_.group(1) if m_ else "usize"
    bad_ops = ("::remove", "::clear", "::retain", "::drain", "::remove_entry", "::extract_if", "::shrink_to", "::take")
    n = 0
    for b in ws_bodies(prog, ("weechess_engine",)):
        tb = None
        for bb, t in live_calls(b):
            cn = callee_name(t)
            if "hash::map::HashMap" in cn:
                g = [x.strip() for x in t.get("generics", [])]
                # only maps with the history's key/value types (the field is private: other maps cannot alias it)
                if len(g) >= 2 and (g[0], g[1]) != ("u64", vty):
                    continue
                n += 1
                if cn.endswith(bad_ops):
                    ck.fail("D5.shrinks", b.name, b.where(t["line"]), "%s on a hash map in the engine: recorded positions can be forgotten" % cn.split("::")[-1])
    inc = ck.body(HIST + "::increment", "D5")
    names = sorted({callee_name(t).split("::")[-1] for bb, t in live_calls(inc)})
    ck.req(set(names) <= {"entry", "or_insert"}, "D5.increment", "StateHistory::increment", inc.where(), "increment does more than entry().or_insert(): %s" % names, str(names))
    lk = ck.body(HIST + "::lookup", "D5")
    rt = return_term(prog, lk)
    ck.req(rt is not None and is_call(rt, "::get") and rt[2] == (("field", ("param", 1), "states"), ("param", 2)), "D5.lookup", "StateHistory::lookup", lk.where(), "lookup is not self.states.get(hash): %s" % (show(rt) if rt else "?"))
    new = ck.body(HIST + "::new", "D5")
    # all writers of `states`
    for b in ws_bodies(prog, ("weechess_engine",)):
        for blk in b.blocks:
            for s in blk["stmts"]:
                if s["k"] == "assign" and any(isinstance(e, dict) and e.get("f") == "states" and HIST in e.get("of", "") for e in s["place"]["p"]):
                    ck.fail("D5.overwrite", b.name, b.where(s["line"]), "StateHistory.states is overwritten")
    ck.ok("D5.shrinks", "no removal", "", "%d hash-map call sites in the engine inspected" % n)


def d7_table_entries_follow_history(ck):
    """D1 makes a recorded position itself a draw, but its ANCESTORS are answered from the table: an entry stored by an earlier
    search, when the position was not yet recorded, carries a value and a best move computed through it.  The rule needs one of:
    (a) every path on which a probed entry ends the node's search (returns the entry's evaluation / narrows the window) carries a
    condition that depends on the history beyond the repetition lookup itself (a generation / epoch comparison), or
    (b) analyze_iterative invalidates the tables when it records the root (a call on the tables other than find / insert /
    iter_moves / saturation between the increment and the deepening loop)."""
    prog = ck.prog
    b = ck.body(REC, "D7")
    tb = TermBuilder(prog, b)
    names = {b.local_name(i): i for i in range(1, b.arg_count + 1)}
    hist_p, tt_p = names.get("state_history"), names.get("transpositions")
    if hist_p is None or tt_p is None:
        ck.missing("D7", "parameters state_history/transpositions of analyze_recursive")
        return
    probes = [(bb, t) for bb, t in live_calls(b) if callee_name(t).endswith("TranspositionTableAccess::find") and tb.operand(t["args"][0]) == ("param", tt_p)]
    ck.floor("D7", len(probes), 1, "table probes in analyze_recursive")
    # paths that use the probed entry to end the node: assignments of _0 = Ok(<something read from the entry>)
    cut = []
    for bb, blk in enumerate(b.blocks):
        if blk.get("cleanup"):
            continue
        for s in blk["stmts"]:
            if s["k"] == "assign" and s["place"] == {"l": 0, "p": []} and "agg" in s["rv"] and s["rv"]["agg"].get("variant") == "Ok":
                v = tb.operand(s["rv"]["ops"][0])
                if any(x[0] == "call" and x[1].endswith("TranspositionTableAccess::find") for x in walk(v)):
                    cut.append((bb, s.get("line")))
    ck.floor("D7", len(cut), 1, "returns of a probed entry's evaluation")
    guarded = []
    for bb, line in cut:
        g = guards_of(prog, b, bb, tb)
        dep = [c for c, tk in g if any(x == ("param", hist_p) for x in walk(c)) and not any(is_call(x, HIST + "::lookup") for x in walk(c))]
        guarded.append(bool(dep))
    by_generation = bool(cut) and all(guarded)
    it = ck.body(ITER, "D7")
    itb = TermBuilder(prog, it)
    inc = [bb for bb, t in live_calls(it, names=(HIST + "::increment",))]
    invalidates = []
    if inc:
        after = cfg.reachable(it, [inc[0]])
        for bb, t in live_calls(it):
            n = callee_name(t)
            if bb in after and ("TranspositionTableAccess::" in n or "TranspositionTable::" in n) and n.split("::")[-1] not in ("find", "insert", "iter_moves", "saturation", "with_tables", "with_memory", "small"):
                invalidates.append(n)
    ck.req(by_generation or bool(invalidates), "D7.stale_entries", "analyze_recursive", b.where(cut[0][1] if cut else None),
           "a table entry stored before a position was recorded in the history still ends the search of that position's ancestors: no cut-off on a probed "
           "entry depends on the history (no generation / epoch test) and analyze_iterative does not invalidate the tables when it records a new root. "
           "The later search then reports the old value and the old best move through the recorded position instead of a draw",
           "cut-offs depend on the history" if by_generation else "tables invalidated after recording the root (%s)" % invalidates[:1])
    ck.sample({"rule": "D7", "cutoff_returns": len(cut), "history_dependent": guarded, "invalidating_calls": invalidates})


d7_table_entries_follow_history.raw_bodies = True   # an invalidating helper must stay visible as a call


def d8_history_in_key_space(ck):
    """A recorded position is found again only through the hasher it was recorded with.  Wherever the search assembles its working set
    (hasher, tables, history) a history taken over from an earlier artifact must come with that artifact's hasher; a fresh hasher next to an
    old history makes every recorded position invisible."""
    prog = ck.prog
    ITER = S + "Searcher::analyze_iterative"
    bodies = [ITER] + list(prog.closures_of(ITER))
    n = 0
    for bn in bodies:
        b = prog.body(bn)
        if b is None:
            continue
        tb = TermBuilder(prog, b)
        for bb, blk in enumerate(b.blocks):
            if blk.get("cleanup"):
                continue
            for s_ in blk["stmts"]:
                if s_["k"] != "assign" or "agg" not in s_["rv"] or "tuple" not in s_["rv"]["agg"]:
                    continue
                ops = s_["rv"]["ops"]
                tys = []
                for o in ops:
                    pl = o.get("move") or o.get("copy")
                    tys.append(_place_ty(b, pl) if pl is not None else "")
                hi = [i for i, t in enumerate(tys) if t.endswith("hasher::ZobristHasher")]
                si = [i for i, t in enumerate(tys) if t.endswith("searcher::StateHistory")]
                if len(hi) != 1 or len(si) != 1:
                    continue
                n += 1
                h, st = tb.operand(ops[hi[0]]), tb.operand(ops[si[0]])
                taken_over = [x for x in walk(st) if x[0] == "field" and x[2] == "state_history"]
                if not taken_over:
                    continue          # a new history: valid under any hasher
                base = taken_over[0][1]
                ok = any(x[0] == "field" and x[2] == "hasher" and x[1] == base for x in walk(h))
                ck.req(ok, "D8.same_key_space", bn.split("::")[-1], b.where(s_.get("line")),
                       "the search continues with the history of an earlier artifact (%s) but not with that artifact's hasher (%s): positions recorded "
                       "earlier are keyed in another key space and are never recognised" % (show(st)[:60], show(h)[:60]))
    ck.floor("D8", n, 1, "places where (hasher, .., history) is assembled in analyze_iterative")


def _place_ty(body, pl):
    if not pl["p"]:
        return body.local_ty(pl["l"])
    for e in reversed(pl["p"]):
        if isinstance(e, dict) and "ty" in e:
            return e["ty"]
    return ""
