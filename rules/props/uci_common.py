"""Shared structure recovery for Client::exec (the UCI command loop): loop head, command arms."""
import re

from facts import callee_name
from terms import TermBuilder
import cfg
from .common import is_iter_next, live_calls

EXEC = "weechess_engine::uci::Client::exec"
STR_EQ = "core::str::traits::<impl core::cmp::PartialEq for str>::eq"


def type_mentions(prog, ty, targets, _seen=None):
    """Does type string `ty` mention (transitively through workspace ADT fields) one of the target type names?"""
    _seen = _seen if _seen is not None else set()
    if any(t in ty for t in targets):
        return True
    for name in set(re.findall(r"weechess_[a-z_]+(?:::[A-Za-z_][A-Za-z0-9_]*)+", ty)):
        if name in _seen:
            continue
        _seen.add(name)
        a = prog.adt(name)
        if a is None:
            continue
        for v in a["variants"]:
            for f in v["fields"]:
                if type_mentions(prog, f["ty"], targets, _seen):
                    return True
    return False


class ExecShape:
    """Recovers: the command loop head (block calling next() on the stdin Lines iterator), the arm entry block
    of every command literal, the blocks of each arm (reachable from the entry without crossing the loop head)."""

    def __init__(self, prog, body):
        self.prog = prog
        self.body = body
        self.tb = TermBuilder(prog, body)
        self.loop_head = None
        for bb, t in live_calls(body):
            n = callee_name(t)
            if is_iter_next(n) and "Lines" in " ".join(t.get("generics", [])) + n + body.local_ty(t["dest"]["l"]):
                self.loop_head = bb
        if self.loop_head is None:
            for bb, t in live_calls(body):
                if is_iter_next(callee_name(t)) and "std::io" in body.local_ty(t["dest"]["l"]):
                    self.loop_head = bb
        self.arms = {}       # literal -> entry block (true edge of the comparison)
        self.cmp_blocks = {}  # literal -> block holding the switch
        dom = cfg.dominators(body)
        self.dom = dom
        for bb, t in live_calls(body, names=(STR_EQ,)):
            lit = None
            for a in t["args"]:
                if "const" in a and isinstance(a["const"].get("val"), dict) and "$str" in a["const"]["val"]:
                    lit = a["const"]["val"]["$str"]
            if lit is None or t["target"] is None:
                continue
            sw = body.term(t["target"])
            if sw["k"] != "switch":
                continue
            true_target = sw["otherwise"]
            # only first-token comparisons: the compared value comes from split_first()'s head
            self.arms.setdefault(lit, []).append((bb, true_target))

    def first_token_arms(self):
        """Arms whose comparison is on the first token (those not nested inside another arm)."""
        out = {}
        entries = {lit: v for lit, v in self.arms.items()}
        all_entries = [(lit, bb, tgt) for lit, v in entries.items() for bb, tgt in v]
        for lit, bb, tgt in all_entries:
            nested = False
            for lit2, bb2, tgt2 in all_entries:
                if (lit2, bb2) != (lit, bb) and tgt2 in self.dom.get(bb, ()):
                    nested = True
            if not nested:
                out[lit] = tgt
        return out

    def arm_blocks(self, entry):
        return cfg.reachable(self.body, [entry], avoid=[self.loop_head])

    def arm_backedge_sources(self, entry):
        """Blocks of the arm that jump back to the loop head."""
        blocks = self.arm_blocks(entry)
        succ = self.body.successors()
        return [b for b in blocks if self.loop_head in succ[b]]
