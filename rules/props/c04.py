"""C04 - Search always ends, obeys Stop, never panics (structural clauses X1-X8).

NOT decided: any latency bound (time between polls, quiescence search is unpolled), behaviour under OS scheduling."""
import json
from facts import callee_name
from terms import TermBuilder, return_term, show, walk, const_value
import cfg
import panics
import intervals
from callgraph import CallGraph
from discharge import load_reviewed, discharge_site
from .common import live_calls, guards_of, is_iter_next, resolve_upvars
from .c01 import is_call

LEVEL = "other"
S = "weechess_engine::searcher::"
ANALYZE = S + "Searcher::analyze"
ITER = S + "Searcher::analyze_iterative"
REC = S + "Searcher::analyze_recursive"
QS = S + "Searcher::quiescence_search"
TOKEN = S + "CancellationToken"
INTERRUPT = "weechess_engine::searcher::SearchInterrupt"


def run(ck):
    ck.explanation = (
        "X1: every explicit panic, documented-panicking call, bounds/shift/division assert and unsigned subtraction reachable from the threads created by "
        "Searcher::analyze is discharged (intervals, rules, reviewed table); add/mul/neg overflow of scores and counters is numeric and listed as not decided. "
        "X2: the Err of every call returning Result<_, SearchInterrupt> reaches the caller's return value (?, direct return, Result::map) and in analyze_iterative "
        "the Err arm cannot start another iteration. X3: the node counter increment and the `count % K == 0 && token.is_cancelled()` test dominate every later "
        "stage of a node and return Err(SearchInterrupt). X4: both token halves share one Arc<AtomicBool>; cancel stores true, is_cancelled loads it. "
        "X5: after recv() returns (Stop or sender dropped) every path cancels, then joins; the receiver is dropped only after the join. X6: the status sink's "
        "send result is discarded. X7: the deepening loop is `0..max_depth`. X8 (shared with C17): the root node is never answered by the repetition shortcut. "
        "NOT decided: latency of Stop, OS scheduling.")
    ck.trusted = ["rustc front end and MIR construction", "extractor decoding", "tables/reviewed_sites.json", "std mpsc/thread/atomic behave as documented"]
    ck.not_decided = ["a bound on the time between a Stop request and the search thread returning (polls happen every K nodes; quiescence search is unpolled)",
                      "arithmetic overflow of scores and node/depth counters (numeric)"]
    ctx = {}
    ck.run_rule(x1_panic_sites, ctx)
    ck.run_rule(x2_interrupt_discipline)
    ck.run_rule(x3_poll_placement)
    ck.run_rule(x4_one_flag)
    ck.run_rule(x5_x6_control_and_sink)
    ck.run_rule(x7_iteration_loop)
    ck.run_rule(x8_line_walk_bounded)
    ck.run_rule(x9_every_iteration_polls)
    ck.run_rule(x10_loops_are_iterations)
    from .c17 import d1_d2_d3
    ck.run_rule(d1_d2_d3)


def x1_panic_sites(ck, ctx):
    # (runs on raw bodies: see the attribute set below)
    prog = ck.prog
    cg = CallGraph(prog)
    ck.body(ANALYZE, "X1")
    seen, ext, ind = cg.reachable([ANALYZE])
    ck.floor("X1", len(seen), 150, "workspace functions reachable from Searcher::analyze")
    eng = intervals.Engine(prog)
    prev = {}
    res = {}
    for rnd in range(3):
        eng.param_env = {}
        eng.cache = {}
        res = {}
        for n in sorted(seen):
            if len(prog.body(n).blocks) > 600:
                continue
            res[n] = eng.analyse(n, {} if (n == ANALYZE or rnd == 0) else prev.get(n, {}))
        prev = {k: dict(v) for k, v in eng.param_env.items()}
    reviewed = load_reviewed("C04")
    used = set()
    counts = {}
    total = 0
    numeric = []
    for n in sorted(seen):
        b = prog.body(n)
        fa = res.get(n)
        if fa is None:
            ck.fail("X1.analysed", n, b.where(), "function in scope was not analysed (too large)")
            continue
        tb = TermBuilder(prog, b)
        for site in panics.inventory(prog, b):
            total += 1
            key = "%s:%s" % (n, site.key)
            cat, why = discharge_site(prog, ctx, n, site, fa, tb, eng, reviewed, used, numeric_out_of_scope=True)
            if cat is None:
                st = fa.state_before_term(site.bb)
                detail = ""
                if st is not None and site.term["k"] == "assert":
                    detail = " operands: %s" % [str(fa.read_op(st, o)) for o in site.term["msg_ops"]]
                ck.fail("X1.undischarged", key, site.where(), "panic site %s reachable from the search threads cannot be excluded%s (callers' argument ranges: %s)"
                        % (site.desc[:140], detail, {k: str(v) for k, v in prev.get(n, {}).items()}))
            elif cat == "numeric":
                numeric.append(key)
                counts[cat] = counts.get(cat, 0) + 1
            else:
                counts[cat] = counts.get(cat, 0) + 1
                ck.ok("X1.discharged", key, site.where(), (cat + ": " + why)[:160])
                if len(ck.samples) < 25 and cat in ("interval", "rule", "reviewed"):
                    ck.sample({"rule": "X1", "site": key, "how": (cat + ": " + why)[:140]})
    ck.extra["panic_sites"] = total
    ck.extra["discharge_counts"] = counts
    ck.extra["numeric_sites_not_decided"] = numeric
    ck.extra["functions_in_scope"] = len(seen)
    ck.floor("X1", total, {"dev": 150, "release": 80}, "panic sites reachable from Searcher::analyze")
    for (fn, key), e in sorted(reviewed.items()):
        if (fn, key) not in used and fn in seen:
            sites = {s.key for s in panics.inventory(prog, prog.body(fn))}
            if key not in sites:
                # not a property violation: a stale entry discharges nothing; reported in the evidence only
                ck.extra.setdefault("stale_reviews", []).append("%s:%s" % (fn, key))


x1_panic_sites.raw_bodies = True


def x2_interrupt_discipline(ck):
    prog = ck.prog
    n_sites = 0
    for name in [REC, QS] + prog.closures_of(ITER) + [ITER]:
        b = prog.body(name)
        if b is None:
            continue
        for bb, t in live_calls(b):
            if "callee" not in t or INTERRUPT not in t.get("dest_ty", ""):
                continue
            cn = callee_name(t)
            if cn not in (REC, QS):
                continue
            n_sites += 1
            d = t["dest"]
            if d == {"l": 0, "p": []}:
                ck.ok("X2.propagates", "%s->%s@%d" % (name.split("::")[-1], cn.split("::")[-1], n_sites), b.where(t["line"]), "returned directly")
                continue
            # uses of the destination local
            l = d["l"]
            # follow plain moves of the result into other locals
            carriers = {l}
            changed = True
            while changed:
                changed = False
                for blk in b.blocks:
                    for s in blk["stmts"]:
                        if s["k"] == "assign" and not s["place"]["p"] and "use" in s["rv"] and s["place"]["l"] != 0:
                            q = s["rv"]["use"].get("move") or s["rv"]["use"].get("copy")
                            if q is not None and not q["p"] and q["l"] in carriers and s["place"]["l"] not in carriers:
                                carriers.add(s["place"]["l"])
                                changed = True
            uses = []
            for bb2, blk in enumerate(b.blocks):
                if blk.get("cleanup"):
                    continue
                for s in blk["stmts"]:
                    if s["k"] == "assign":
                        from dataflow import rvalue_locals
                        if carriers & rvalue_locals(s["rv"]) and not (not s["place"]["p"] and s["place"]["l"] in carriers):
                            uses.append(("stmt", s))
                t2 = blk["term"]
                if t2["k"] == "call":
                    for a in t2["args"]:
                        p = a.get("copy") or a.get("move")
                        if p is not None and p["l"] in carriers:
                            uses.append(("call", t2))
                if t2["k"] == "switch":
                    p = t2["discr"].get("copy") or t2["discr"].get("move")
                    if p is not None and p["l"] in carriers:
                        uses.append(("switch", t2))
            good = bool(uses)
            how = []
            for k, u in uses:
                if k == "call" and callee_name(u).endswith("Try>::branch"):
                    how.append("?")
                elif k == "call" and callee_name(u).endswith("Result::<T, E>::map") and u["dest"] == {"l": 0, "p": []}:
                    how.append("map->return")
                elif k == "stmt" and u["place"] == {"l": 0, "p": []} and "use" in u["rv"]:
                    how.append("return")
                else:
                    good = False
                    how.append("other:%s" % k)
            ck.req(good, "X2.propagates", "%s->%s@%d" % (name.split("::")[-1], cn.split("::")[-1], n_sites), b.where(t["line"]),
                   "the Result<_, SearchInterrupt> of this call is consumed by %s: an interrupt may be swallowed and the search continue" % how, ",".join(how))
    ck.floor("X2", n_sites, 4, "calls returning Result<_, SearchInterrupt>")
    # `?` really returns: in REC/QS every Try::branch Break edge leads to from_residual into _0
    for name in (REC, QS):
        b = prog.body(name)
        for bb, t in live_calls(b):
            if callee_name(t).endswith("FromResidual") or "from_residual" in callee_name(t):
                ck.req(t["dest"] == {"l": 0, "p": []}, "X2.residual", name.split("::")[-1], b.where(t["line"]), "the residual of `?` is not returned")
    # analyze_iterative: Err arm leaves the loop
    it = ck.body(ITER, "X2")
    tb = TermBuilder(prog, it)
    heads = [bb for bb, t in live_calls(it) if is_iter_next(callee_name(t)) and "Range" in callee_name(t)]
    err_edges = []
    for bb, blk in enumerate(it.blocks):
        t = blk["term"]
        if t["k"] == "switch":
            c = tb.operand(t["discr"])
            if c[0] == "discr" and c[1][0] in ("var", "call") and INTERRUPT in it.local_ty(_local_of(it, t)):
                for v, tgt in t["cases"]:
                    if v == 1:
                        err_edges.append(tgt)
    ck.floor("X2", len(err_edges), 1, "match on the workers' Result in analyze_iterative")
    for e in err_edges:
        r = cfg.reachable(it, [e])
        ck.req(not (set(heads) & r), "X2.err_leaves_loop", "analyze_iterative", it.where(), "after an interrupt the deepening loop can start another iteration")


def _local_of(b, t):
    p = t["discr"].get("copy") or t["discr"].get("move")
    # the switch is on a discriminant temp; find the place it reads
    l = p["l"]
    for blk in b.blocks:
        for s in blk["stmts"]:
            if s["k"] == "assign" and s["place"] == {"l": l, "p": []} and "discr" in s["rv"]:
                return s["rv"]["discr"]["l"]
    return l


def x3_poll_placement(ck):
    prog = ck.prog
    b = ck.body(REC, "X3")
    tb = TermBuilder(prog, b)
    names = {b.local_name(i): i for i in range(1, b.arg_count + 1)}
    tok = names.get("token")
    cnt = names.get("nodes_searched")
    polls = live_calls(b, names=(TOKEN + "::is_cancelled",))
    ck.req(len(polls) == 1 and tb.operand(polls[0][1]["args"][0]) == ("param", tok), "X3.poll", "analyze_recursive", b.where(), "expected one poll of the token parameter, found %d" % len(polls))
    # the interrupt return
    errs = []
    residual_return = any(callee_name(t).endswith("::from_residual") and t["dest"] == {"l": 0, "p": []} for bb, t in live_calls(b))
    for bb, blk in enumerate(b.blocks):
        if blk.get("threaded_from") is not None:
            continue
        for s in blk["stmts"]:
            if s["k"] == "assign" and not s["place"]["p"] and "agg" in s["rv"] and s["rv"]["agg"].get("variant") == "Err" and \
                    str(s["rv"]["agg"].get("adt", "")).endswith("Result"):
                direct = s["place"]["l"] == 0
                # `checkpoint(..)?`: the Err is built (in a spliced helper) into a local and returned through `?`
                via_try = (not direct) and residual_return and "SearchInterrupt" in b.local_ty(s["place"]["l"])
                if direct or via_try:
                    errs.append((bb, s, guards_of(prog, b, bb, tb)))
    ck.req(len(errs) == 1, "X3.interrupt_return", "analyze_recursive", b.where(), "expected one Err(SearchInterrupt) return, found %d" % len(errs))
    K = None
    for bb, s, g in errs:
        polled = any(is_call(c, TOKEN + "::is_cancelled") and tk is True for c, tk in g)
        ck.req(polled, "X3.on_cancel", "analyze_recursive", b.where(s["line"]), "the interrupt is not returned on token.is_cancelled()")
        for c, tk in g:
            if c[0] == "bin" and ((c[1] == "Eq" and tk is True) or (c[1] == "Ne" and tk is False)):
                for x in (c[2], c[3]):
                    if x[0] == "bin" and x[1] == "Rem":
                        K = const_value(x[3])
                        ck.req(x[2] == ("param", cnt) or any(y == ("param", cnt) for y in walk(x[2])), "X3.counter", "analyze_recursive", b.where(s["line"]), "the poll is not keyed on the node counter")
    ck.req(isinstance(K, int) and K > 0, "X3.period", "analyze_recursive", b.where(), "cannot extract the positive poll period constant (got %s)" % K, "every %s nodes" % K)
    ck.extra["poll_period_nodes"] = K
    # counter is incremented in the entry region, before anything else
    inc_bb = None
    for bb, blk in enumerate(b.blocks):
        for s in blk["stmts"]:
            if s["k"] == "assign" and s["place"]["l"] == cnt and s["place"]["p"] == ["*"]:
                inc_bb = bb
    dom = cfg.dominators(b)
    # the block that tests `count % K == 0`
    test_bb = None
    for bb, blk in enumerate(b.blocks):
        t = blk["term"]
        if t["k"] == "switch":
            c = tb.operand(t["discr"])
            if c[0] == "bin" and c[1] in ("Eq", "Ne") and any(x[0] == "bin" and x[1] == "Rem" for x in (c[2], c[3])):
                test_bb = bb
    stages = [bb for bb, t in live_calls(b) if callee_name(t) in (S + "StateHistory::lookup", S + "TranspositionTableAccess::find", REC, QS,
                                                                  "weechess_core::movegen::MoveGenerator::compute_psuedo_legal_moves_into")]
    ck.req(inc_bb is not None and test_bb is not None and all(inc_bb in dom[x] and test_bb in dom[x] for x in stages if x in dom), "X3.dominates", "analyze_recursive", b.where(),
           "node counting and the poll test do not dominate the later stages of a node (history test, probe, generation, recursion)")
    # the token polled is the one the workers were given: passed down unchanged
    for bb, t in live_calls(b, names=(REC,)):
        ck.req(tb.operand(t["args"][tok - 1]) == ("param", tok) and tb.operand(t["args"][cnt - 1]) == ("param", cnt), "X3.passdown", "analyze_recursive", b.where(t["line"]),
               "recursion does not pass the token / node counter on unchanged")


def x4_one_flag(ck):
    prog = ck.prog
    new = ck.body(TOKEN + "::new", "X4")
    rt = return_term(prog, new)
    good = rt is not None and rt[0] == "agg" and rt[1] == "tuple" and len(rt[2]) == 2
    if good:
        a, b_ = rt[2]
        tokens = [x for x in (a, b_) if x[0] == "agg" and x[1].endswith("CancellationToken::CancellationToken")]
        clones = [x for x in (a, b_) if is_call(x, "Clone>::clone")]
        good = len(tokens) == 1 and len(clones) == 1 and clones[0][2][0] == tokens[0] and any(is_call(x, "Arc::<T>::new") for x in walk(tokens[0])) \
            and any(x[0] == "call" and "Atomic" in x[1] and x[1].endswith("::new") and const_value(x[2][0]) in (False, 0) and const_value(x[2][0]) is not None for x in walk(tokens[0]))
    if not good and rt is not None and rt[0] == "agg" and rt[1] == "tuple" and len(rt[2]) == 2:
        # both halves built around clones of one Arc<Atomic*>: (Token{arc}, Token{Arc::clone(&arc)}) in either order
        a, b_ = rt[2]
        if all(x[0] == "agg" and x[1].endswith("CancellationToken::CancellationToken") and len(x[2]) == 1 for x in (a, b_)):
            fa, fb = a[2][0], b_[2][0]
            strip = lambda x: x[2][0] if (is_call(x, "Clone>::clone") or is_call(x, "Arc::<T>::clone") or is_call(x, "clone")) and x[2] else x
            base_a, base_b = strip(fa), strip(fb)
            while base_a[0] == "call" and base_a[1].split("::")[-1] in ("deref", "borrow", "as_ref") and base_a[2]:
                base_a = base_a[2][0]
            while base_b[0] == "call" and base_b[1].split("::")[-1] in ("deref", "borrow", "as_ref") and base_b[2]:
                base_b = base_b[2][0]
            same = base_a == base_b or base_a == fb or base_b == fa or (base_b[0] == "field" and base_b[1] == a) or (base_a[0] == "field" and base_a[1] == b_)
            arc = [x for x in walk(base_a) if is_call(x, "Arc::<T>::new")] or [x for x in walk(base_b) if is_call(x, "Arc::<T>::new")]
            init = [x for x in walk(arc[0]) if x[0] == "call" and "Atomic" in x[1] and x[1].endswith("::new")] if arc else []
            good = same and bool(init) and const_value(init[0][2][0]) in (False, 0) and const_value(init[0][2][0]) is not None
    ck.req(good, "X4.shared_flag", "CancellationToken::new", new.where(), "the two token halves are not clones of one Arc<AtomicBool> initialised to false: %s" % (show(rt)[:200] if rt else "?"))
    adt = ck.adt(TOKEN, "X4")
    f = adt["variants"][0]["fields"]
    ck.req(len(f) == 1 and "Arc<core::sync::atomic::Atomic" in f[0]["ty"].replace("alloc::sync::", ""), "X4.repr", "CancellationToken", "", "token is not a single Arc<AtomicBool>: %s" % [(x["name"], x["ty"]) for x in f])
    clone_impl = [i for i in prog.impls if i["self_ty"] == TOKEN and i["trait"] == "core::clone::Clone"]
    ck.req(len(clone_impl) == 1 and clone_impl[0]["derived"], "X4.clone", "CancellationToken", "", "Clone for the token is not derived (a hand-written clone could create a second flag)")
    c = ck.body(TOKEN + "::cancel", "X4")
    ctb = TermBuilder(prog, c)
    st = [t for bb, t in live_calls(c) if callee_name(t).endswith("::store")]
    fname = f[0]["name"] if len(f) == 1 else "cancelled"
    stored = const_value(ctb.operand(st[0]["args"][1])) if len(st) == 1 else None
    good = len(st) == 1 and stored not in (None, False, 0) and any(x == ("field", ("param", 1), fname) for x in walk(ctb.operand(st[0]["args"][0])))
    ck.req(good, "X4.cancel", "CancellationToken::cancel", c.where(), "cancel does not store the `cancelled` value (true / non-zero constant) into the token's flag")
    i = ck.body(TOKEN + "::is_cancelled", "X4")
    rt = return_term(prog, i)

    def loads_flag(x):
        return is_call(x, "::load") and any(y == ("field", ("param", 1), fname) for y in walk(x[2][0]))
    good = rt is not None and (loads_flag(rt) or
                               (rt[0] == "bin" and rt[1] == "Eq" and any(loads_flag(x) for x in (rt[2], rt[3])) and stored in (const_value(rt[2]), const_value(rt[3]))) or
                               (rt[0] == "bin" and rt[1] == "Ne" and any(loads_flag(x) for x in (rt[2], rt[3])) and 0 in (const_value(rt[2]), const_value(rt[3]))))
    ck.req(good, "X4.is_cancelled", "CancellationToken::is_cancelled", i.where(), "is_cancelled is not `the flag holds the value cancel() stores`: %s" % (show(rt) if rt else "?"))
    # wiring in analyze: the two halves of ONE new() call go to cancel() and to the search
    ctl = None
    for cn in prog.closures_of(ANALYZE):
        cb = prog.body(cn)
        if live_calls(cb, names=(TOKEN + "::new",)):
            ctl = cb
    if ctl is None:
        ck.fail("X4.wiring", "analyze", "", "no closure of Searcher::analyze creates the cancellation token")
        return
    tb = TermBuilder(prog, ctl)
    news = live_calls(ctl, names=(TOKEN + "::new",))
    cancels = live_calls(ctl, names=(TOKEN + "::cancel",))
    good = len(news) == 1 and len(cancels) == 1
    if good:
        nt = tb.call_term(news[0][1])
        ca = tb.operand(cancels[0][1]["args"][0])
        halves = {"0": False, "1": False}
        if ca[0] == "field" and ca[1] == nt:
            halves[ca[2]] = "cancel"
        # the other half is captured by the search closure and handed to analyze_iterative as `token`
        other = "1" if halves["0"] == "cancel" else "0"
        passed = False
        for cn2 in prog.closures_of(ctl.name):
            c2 = prog.body(cn2)
            t2b = TermBuilder(prog, c2)
            for bb, t in live_calls(c2, names=(ITER,)):
                tokarg, home = resolve_upvars(prog, c2, t2b.operand(t["args"][4]))
                if home.name == ctl.name and tokarg == ("field", nt, other):
                    passed = True
        good = halves["0"] == "cancel" or halves["1"] == "cancel"
        good = good and passed
    ck.req(good, "X4.wiring", "analyze", ctl.where(), "the control thread does not cancel one half of CancellationToken::new() while the search polls the other half")


def x5_x6_control_and_sink(ck):
    prog = ck.prog
    ctl = None
    for cn in prog.closures_of(ANALYZE):
        cb = prog.body(cn)
        if any(callee_name(t).endswith("Receiver::<T>::recv") for bb, t in live_calls(cb)):
            ctl = cb
    if ctl is None:
        ck.fail("X5", "analyze", "", "no closure of Searcher::analyze waits on the control channel")
        return
    recv = [bb for bb, t in live_calls(ctl) if callee_name(t).endswith("Receiver::<T>::recv")]
    cancel = [bb for bb, t in live_calls(ctl, names=(TOKEN + "::cancel",))]
    join = [bb for bb, t in live_calls(ctl) if callee_name(t).endswith("JoinHandle::<T>::join")]
    ck.req(len(recv) == 1 and len(cancel) == 1 and len(join) == 1, "X5.shape", "control thread", ctl.where(), "expected one recv, one cancel and one join (%d/%d/%d)" % (len(recv), len(cancel), len(join)))
    if not (recv and cancel and join):
        return
    # after recv returns, no path waits again: the recv block is not on a cycle that avoids cancel
    rtarget = ctl.term(recv[0])["target"]
    back_to_recv = recv[0] in cfg.reachable(ctl, [rtarget], avoid=cancel)
    ck.req(not back_to_recv, "X5.every_arm_leaves", "control thread", ctl.where(),
           "after recv() returns there is a path back to recv() that does not cancel the search: a Stop or a dropped sender may be ignored")
    ck.req(cfg.must_pass(ctl, [rtarget], cfg.exits(ctl), cancel), "X5.cancels", "control thread", ctl.where(), "the control thread can finish without cancelling the search")
    dom = cfg.dominators(ctl)
    ck.req(cancel[0] in dom.get(join[0], ()), "X5.cancel_before_join", "control thread", ctl.where(), "join is not preceded by cancel()")
    # the receiver outlives the join (so the search thread's final send(Stop) cannot fail)
    tb = TermBuilder(prog, ctl)
    rx_local = None
    t = ctl.term(recv[0])
    p = t["args"][0].get("copy") or t["args"][0].get("move")
    from dataflow import Deps
    deps = Deps(ctl)
    rxs = deps.points_to.get(p["l"], {p["l"]}) if p else set()
    drops = [(bb, blk["term"]) for bb, blk in enumerate(ctl.blocks) if blk["term"]["k"] == "drop" and not blk.get("cleanup") and "mpsc::Receiver" in blk["term"]["ty"]]
    ck.req(bool(drops) and all(join[0] in dom.get(bb, ()) for bb, _ in drops), "X5.receiver_outlives_join", "control thread", ctl.where(),
           "the control receiver can be dropped before the search thread is joined: its final send(Stop).unwrap() could panic")
    # the search thread tells the control thread that it is done on every path: otherwise a search that finishes by itself
    # leaves the control thread blocked in recv() and the caller's join never returns
    done = 0
    for cn in prog.closures_of(ANALYZE):
        cb = prog.body(cn)
        if not any(callee_name(t) == ITER for bb, t in live_calls(cb)):
            continue
        done += 1
        stb = TermBuilder(prog, cb)
        sends = [bb for bb, t in live_calls(cb) if callee_name(t).endswith("mpsc::Sender::<T>::send") and "ControlEvent" in " ".join(t.get("generics", []))
                 and any("Stop" in show(stb.operand(a)) for a in t["args"][1:])]
        ck.req(bool(sends) and cfg.must_pass(cb, [0], cfg.exits(cb), sends), "X5.completion_signalled", cn.split("::")[-1], cb.where(),
               "the search thread can return without sending Stop to the control thread: a search that ends by itself on that path never "
               "lets the control thread (and the caller's join) finish")
    ck.floor("X5", done, 1, "search-thread closures calling analyze_iterative")
    # X6: the callback closure discards the send result
    sinks = 0
    for cn in prog.closures_of(ANALYZE):
        cb = prog.body(cn)
        for bb, t in live_calls(cb):
            if callee_name(t).endswith("mpsc::Sender::<T>::send") and "StatusEvent" in " ".join(t.get("generics", [])):
                sinks += 1
                l = t["dest"]["l"]
                used = False
                for blk in cb.blocks:
                    if blk.get("cleanup"):
                        continue
                    t2 = blk["term"]
                    if t2["k"] == "call":
                        for a in t2["args"]:
                            q = a.get("copy") or a.get("move")
                            if q is not None and q["l"] == l:
                                used = True
                # ... nor may it decide anything: a branch on is_err() / a match on the result lets a dropped receiver change the search
                for b2, blk in enumerate(cb.blocks):
                    if blk.get("cleanup"):
                        continue
                    for s2 in blk["stmts"]:
                        if s2["k"] == "assign":
                            txt = json.dumps(s2["rv"])
                            if ('"l": %d,' % l) in txt or ('"l": %d}' % l) in txt:
                                used = True
                    t2 = blk["term"]
                    if t2["k"] == "switch":
                        q = t2["discr"].get("copy") or t2["discr"].get("move")
                        if q is not None and q["l"] == l:
                            used = True
                ck.req(not used, "X6.discarded", cn.split("::")[-1], cb.where(t["line"]),
                       "the Result of sink.send(event) is used (unwrapped, tested or matched): a dropped receiver would kill or redirect the search")
    ck.floor("X6", sinks, 1, "status event send sites")



def line_empty_test(c):
    """Recognises a test of `the line read back with iter_moves is empty`.
    -> None | ("bool", true_means_empty) | "opt" (discriminant of an Option of its first element: 0 = empty)."""
    neg = False
    while c[0] == "un" and c[1] == "Not":
        c = c[2]
        neg = not neg
    if not any(x[0] == "call" and x[1].endswith("::iter_moves") for x in walk(c)):
        return None
    if c[0] == "call":
        last = c[1].split("::")[-1]
        if last == "is_empty":
            return ("bool", not neg)
        inner_first = any(x[0] == "call" and x[1].split("::")[-1] in ("first", "last", "get", "next", "peek") for x in walk(c))
        if last == "is_none" and inner_first:
            return ("bool", not neg)
        if last == "is_some" and inner_first:
            return ("bool", neg)
    if c[0] == "bin" and c[1] in ("Eq", "Ne", "Gt", "Lt", "Ge", "Le"):
        a, b = c[2], c[3]
        is_len = lambda x: x[0] == "call" and x[1].split("::")[-1] == "len"
        if is_len(a) and const_value(b) == 0 and c[1] in ("Eq", "Ne", "Gt"):
            return ("bool", (c[1] == "Eq") != neg)
        if is_len(b) and const_value(a) == 0 and c[1] in ("Eq", "Ne", "Lt"):
            return ("bool", (c[1] == "Eq") != neg)
        if is_len(a) and const_value(b) == 1 and c[1] in ("Lt", "Ge"):
            return ("bool", (c[1] == "Lt") != neg)
    if c[0] == "discr" and not neg:
        inner = c[1]
        # (`next` is not accepted here: the loop head of `for mv in line.iter()` has the same shape)
        if inner[0] == "call" and any(x[0] == "call" and x[1].split("::")[-1] in ("first", "last", "get") for x in walk(inner)):
            return "opt"
    return None

def x7_iteration_loop(ck):
    prog = ck.prog
    it = ck.body(ITER, "X7")
    tb = TermBuilder(prog, it)
    rng = None
    good = False
    for blk in it.blocks:
        for s in blk["stmts"]:
            if s["k"] == "assign" and "agg" in s["rv"] and s["rv"]["agg"].get("adt", "").endswith("ops::range::Range"):
                r = [tb.operand(o) for o in s["rv"]["ops"]]
                if const_value(r[0]) == 0 and is_call(r[1], "Option::<T>::unwrap_or") and r[1][2][0] == ("param", 4):
                    good = True
                    rng = r
                elif rng is None:
                    rng = r
    ck.req(good, "X7.bounded", "analyze_iterative", it.where(), "the deepening loop is not `0..max_depth.unwrap_or(..)`: %s" % ([show(x) for x in rng] if rng else "?"))
    # exactly one loop over that range; recursion depth limited by max_depth (search_depth = depth - stop_short + 1)
    heads = [bb for bb, t in live_calls(it) if is_iter_next(callee_name(t)) and "Range" in callee_name(t)]
    ck.req(len(heads) == 1, "X7.single_loop", "analyze_iterative", it.where(), "expected one deepening loop, found %d" % len(heads))
    # a root without legal moves yields an empty line in every iteration: the iteration that sees the empty line must leave the
    # loop (without a depth limit the range is 0..usize::MAX and a one-node iteration never reaches the 10000-node poll)
    if len(heads) == 1:
        head = heads[0]
        n_dec = 0
        for bb, blk in enumerate(it.blocks):
            t = blk["term"]
            if t["k"] != "switch" or blk.get("cleanup") or bb not in cfg.reachable(it, [head]):
                continue
            form = line_empty_test(tb.operand(t["discr"]))
            if form is None:
                continue
            if head not in cfg.reachable(it, [bb]):
                continue   # already outside the loop
            n_dec += 1
            zero = [x[1] for x in t["cases"] if x[0] == 0]
            if form == "opt" or form == ("bool", False):
                # None variant / false = empty: the case for 0, or `otherwise` when the only listed case is 1
                empty_edge = zero[0] if zero else (t["otherwise"] if [x[0] for x in t["cases"]] == [1] else None)
            else:
                empty_edge = t["otherwise"] if zero and len(t["cases"]) == 1 else None
            if empty_edge is None:
                ck.fail("X7.terminal_root", "bb%d" % bb, it.where(t.get("line")), "cannot tell which edge of the emptiness test is the empty one")
                continue
            stays = head in cfg.reachable(it, [empty_edge])
            ck.req(not stays, "X7.terminal_root", "empty line leaves the loop", it.where(t.get("line")),
                   "an iteration that finds no line (root without legal moves) can go on to the next depth: without a depth limit the search of a "
                   "stalemated or mated root never ends and never polls Stop")
        ck.floor("X7", n_dec, 1, "emptiness tests of the reported line inside the deepening loop")


def walk_counters(paths, SELF=("param", 1)):
    """(fields of self stepped by a positive constant on some path: {field: +1 | -1}, all fields of self written anywhere)."""
    counters, written = {}, set()
    for p in paths:
        for e in p.effects:
            if e[0] == "store" and e[1][0] == "field" and e[1][1] == SELF:
                f = e[1][2]
                v = e[2]
                step = None
                if v[0] == "bin" and v[1] in ("Add", "AddUnchecked", "Sub", "SubUnchecked"):
                    ops = (v[2], v[3])
                    if v[1].startswith("Add") and any(o == e[1] for o in ops) and any((const_value(o) or 0) > 0 for o in ops if o[0] == "const"):
                        step = 1
                    if v[1].startswith("Sub") and v[2] == e[1] and v[3][0] == "const" and (const_value(v[3]) or 0) > 0:
                        step = -1
                if step is None:
                    written.add(f)
                else:
                    counters[f] = step
    return counters, written


def limit_test(c, tk, counters, written, SELF=("param", 1)):
    """Is (condition, edge taken) a test of a walk counter against its limit?  -> 'within' | 'beyond' | None.
    Forms: `counter <op> limit field` for an up-counter (limit never written); `counter <op> 0` / `counter == 0` for a down-counter."""
    if c[0] != "bin" or c[1] not in ("Gt", "Ge", "Lt", "Le", "Eq", "Ne"):
        return None

    def self_field(t):
        return t[2] if t[0] == "field" and t[1] == SELF else None
    fa, fb = self_field(c[2]), self_field(c[3])
    taken = bool(tk) if not isinstance(tk, tuple) else (0 in tk[1])   # ('else', (0,)) is the true edge
    ev = lambda a, b: {"Gt": a > b, "Ge": a >= b, "Lt": a < b, "Le": a <= b, "Eq": a == b, "Ne": a != b}[c[1]]
    for cnt, other, cnt_left in ((fa, c[3], True), (fb, c[2], False)):
        if cnt not in counters:
            continue
        of = self_field(other)
        if counters[cnt] > 0 and of is not None and of not in written and of not in counters and c[1] not in ("Eq", "Ne"):
            beyond = ev(10, 5) if cnt_left else ev(5, 10)
            within = ev(0, 5) if cnt_left else ev(5, 0)
            if beyond != within:
                return "beyond" if taken == beyond else "within"
        if counters[cnt] < 0 and other[0] == "const" and const_value(other) == 0:
            at_zero = ev(0, 0)
            above = ev(3, 0) if cnt_left else ev(0, 3)
            if at_zero != above:
                return "beyond" if taken == at_zero else "within"
    return None


def x8_line_walk_bounded(ck):
    """The principal line is read back by an iterator that follows stored moves from position to position.  Stored entries can form a cycle
    (a king shuffle), so nothing but a counter ends the walk in general: every yielding path of `next` must (a) have passed a comparison of a
    counter field with a limit field on the within-limit side, (b) increase that counter by a positive constant, and (c) no path writes the limit.
    Then at most limit+1 items are yielded and the `.collect()` in the search thread ends."""
    prog = ck.prog
    from symex import decision_table
    from .c03 import NEXT
    nx = ck.body(NEXT, "X8")
    paths = decision_table(prog, nx)
    SELF = ("param", 1)
    somes = [p for p in paths if p.ret[0] == "agg" and p.ret[1].endswith("Option::Some")]
    ck.floor("X8", len(somes), 1, "yielding paths of the principal-line iterator")
    counters, written = walk_counters(paths)
    for i, p in enumerate(somes):
        stepped = [e[1][2] for e in p.effects if e[0] == "store" and e[1][0] == "field" and e[1][1] == SELF and e[1][2] in counters]
        ck.req(bool(stepped), "X8.walk_advances", "next#%d" % (i + 1), nx.where(), "a yielding path of the principal-line iterator does not advance a counter: nothing bounds the number of items it yields")
        bounded = any(limit_test(c, tk, {f: counters[f] for f in stepped}, written) == "within" for c, tk in p.conds)
        ck.req(bounded, "X8.walk_bounded", "next#%d" % (i + 1), nx.where(),
               "a yielding path of the principal-line iterator is not under `counter within limit`: stored entries that form a cycle are followed forever, "
               "the search thread never finishes its `collect()` and never looks at the stop flag again")


def x9_every_iteration_polls(ck):
    """The workers poll the stop flag only when their node counter hits a multiple of the poll period, and that counter starts at zero in
    every iteration.  A position whose iterations stay below the period (a blocked position: a few hundred nodes once the table is warm)
    is never polled, and without a depth limit the deepening loop has usize::MAX iterations: Stop is ignored for good.  So the loop itself
    must look at the flag: every way round the deepening loop passes a call of `is_cancelled` on the search's token that is not under a
    counter test, either in analyze_iterative or, unconditionally before the root call, in the per-worker closure."""
    prog = ck.prog
    it = ck.body(ITER, "X9")
    tb = TermBuilder(prog, it)
    heads = [bb for bb, t in live_calls(it) if is_iter_next(callee_name(t)) and "Range" in callee_name(t)]
    if len(heads) != 1:
        ck.fail("X9.iteration_polls", "analyze_iterative", it.where(), "expected one deepening loop, found %d" % len(heads))
        return
    head = heads[0]
    names = {it.local_name(i): i for i in range(1, it.arg_count + 1)}
    tokp = [i for i in range(1, it.arg_count + 1) if it.local_ty(i).endswith("CancellationToken")]
    polls = []
    for bb, t in live_calls(it, names=(TOKEN + "::is_cancelled",)):
        a = tb.operand(t["args"][0])
        if tokp and any(x == ("param", tokp[0]) for x in walk(a)):
            g = guards_of(prog, it, bb, tb)
            if not any(any(y[0] == "bin" and y[1] == "Rem" for y in walk(c)) for c, tk in g):
                polls.append(bb)
    ok = False
    if polls:
        # every cycle through the head passes one of the polls; the first iteration may be exempt (`depth > 0 && token.is_cancelled()`:
        # C07's I10 wants the first iteration to run whatever is pending)
        from .c07 import past_first_iteration
        succ = it.successors()
        exempt = []
        for bb, blk in enumerate(it.blocks):
            t = blk["term"]
            if t["k"] != "switch" or blk.get("cleanup"):
                continue
            c = tb.operand(t["discr"])
            for v, tgt in [(x[0], x[1]) for x in t["cases"]] + [("else", t["otherwise"])]:
                truth = (v != 0) if v != "else" else (0 in [x[0] for x in t["cases"]])
                if past_first_iteration(c, not truth) and c[0] == "bin":
                    pass
                if c[0] == "bin" and past_first_iteration(c, not truth):
                    exempt.append((bb, tgt))      # the edge taken when it IS the first iteration
        ok = cfg.must_pass(it, [s_ for s_ in succ[head] if head in cfg.reachable(it, [s_])], [head], polls, through_edges=exempt)
    if not ok:
        # or: the worker closure polls unconditionally before the root call of analyze_recursive
        for cn in prog.closures_of(ITER):
            c = prog.body(cn)
            recs = [bb for bb, t in live_calls(c, names=(REC,))]
            if not recs:
                continue
            ctb = TermBuilder(prog, c)
            dom = cfg.dominators(c)
            for bb, t in live_calls(c, names=(TOKEN + "::is_cancelled",)):
                g = guards_of(prog, c, bb, ctb)
                if all(bb in dom.get(r, ()) for r in recs) and not any(any(y[0] == "bin" and y[1] == "Rem" for y in walk(cnd)) for cnd, tk in g):
                    ok = True
    ck.req(ok, "X9.iteration_polls", "analyze_iterative", it.where(),
           "an iteration of the deepening loop can complete without looking at the stop flag (the workers poll only every 10000th node of a counter "
           "that restarts in each iteration): on a position whose iterations stay small, e.g. 'k7/8/p1p1p1p1/P1P1P1P1/8/8/8/K7 w - - 0 1', a search "
           "without depth limit never obeys Stop", "every cycle of the loop passes an unconditional poll")


def x10_loops_are_iterations(ck):
    """A depth-limited search ends by itself only if every loop of the search thread does.  The loops of the pinned tree are all iterations:
    each cycle of every function the search thread can reach steps an iterator (`Iterator::next` of a range, slice, vector, bit set ..),
    whose length is fixed before the loop.  A `loop { .. }` / `while cond { .. }` cycle without an iterator step - a re-search loop, a retry
    loop - needs its own termination argument; the rule reports it."""
    prog = ck.prog
    from callgraph import CallGraph
    cg = CallGraph(prog)
    table_fns = []
    try:
        table = ck.const("weechess_engine::eval::EVALUATORS", "X10")
        table_fns = [x["$fn"] for row in table for x in row if isinstance(x, dict) and "$fn" in x]
    except Exception:
        pass
    seen, _e, _i = cg.reachable([ITER], fn_values=table_fns)
    n_loops = 0
    n_fn = 0
    for name in sorted(seen):
        b = prog.raw_body(name)
        if b is None or b.crate not in ("weechess_engine",):
            continue
        n_fn += 1
        for be in cfg.back_edges(b):
            L = cfg.natural_loop(b, be)
            if any(b.is_cleanup(x) for x in L):
                continue
            n_loops += 1
            steps = [bb for bb in L if b.term(bb)["k"] == "call" and "callee" in b.term(bb) and
                     (is_iter_next(callee_name(b.term(bb))) or callee_name(b.term(bb)).split("::")[-1] in ("next", "next_back", "recv", "pop"))]
            ck.req(bool(steps), "X10.loop_steps_iterator", "%s@bb%d" % (name.split("::")[-1], be[1]), b.where(b.term(be[1]).get("line")),
                   "a loop of the search thread does not step an iterator (a `loop`/`while` cycle): nothing bounds its number of rounds, a depth-limited search "
                   "may never finish by itself")
    ck.floor("X10", n_loops, 5, "loops in the engine functions reachable from analyze_iterative")
    ck.extra["X10_functions"] = n_fn
    ck.extra["X10_loops"] = n_loops
