"""C07 - UCI session (structural clauses I1-I10).

Decides the wiring of the command loop: dispatch table and replies, `isready` cannot block, at most one live search and
every search is cancelled-and-collected, `bestmove` is printed at exactly two sites each at most once per `go` and every
`go` reaches one of them (or starts the search whose writer prints it), the printed move derives from the book lookup on /
the search of the tracked position, clean exit, and the position-tracking assignments.  NOT decided: when a line appears
(timing), that the search always reports at least one line before it is stopped, legality of the searched/book move itself
(C03, C16, C05)."""
from facts import callee_name
from terms import TermBuilder, show, walk, const_value
import cfg
from dataflow import Deps, operand_locals, rvalue_locals, place_locals
from callgraph import CallGraph, load_effects, classify
from .common import live_calls, printed_texts, ws_bodies, guards_of, is_iter_next, closure_upvar_terms, is_upvar
from .uci_common import ExecShape, EXEC, type_mentions
from .c01 import is_call

LEVEL = "other"
SPAWN = "weechess_engine::uci::Search::spawn"
WAIT = "weechess_engine::uci::Search::wait_cancel"
LOOKUP = "weechess_engine::book::OpeningBook::lookup"
PERFORM = "weechess_core::state::State::by_performing_moves"
FROM_NOTATION = "weechess_core::notation::try_from_notation"
INTO_NOTATION = "weechess_core::notation::into_notation"
STATE_DEFAULT = "<weechess_core::state::State as core::default::Default>::default"
STATE_CLONE = "<weechess_core::state::State as core::clone::Clone>::clone"
TAKE = "core::option::Option::<T>::take"
ITER = "weechess_engine::searcher::Searcher::analyze_iterative"
ANALYZE = "weechess_engine::searcher::Searcher::analyze"
REQUIRED = ("uci", "isready", "ucinewgame", "position", "go", "stop", "quit")
NEW_DISPLAY = "core::fmt::rt::Argument::<'_>::new_display"


def run(ck):
    ck.explanation = (
        "I1: the first token of a line is compared with the seven command words. I2: the `uci` arm prints `id name`, `id author`, then `uciok` last; "
        "the `isready` arm prints `readyok` on every path. I3: the `isready` arm reaches no blocking callee and does not touch the search state. "
        "I4: a typestate analysis of Search values (LIVE = running and not told to stop, STOPPED = Stop sent) over Client::exec, with summaries of the "
        "functions a Search is passed to, shows: no LIVE search exists when Search::spawn is called or when the `stop` / `position` arm ends; a LIVE search is "
        "never dropped, overwritten or handed to a function that does not send Stop; Client::exec cannot return while a search is held or after one was let "
        "go without its writer thread having been joined. Search::wait_cancel sends Stop before it joins, and joins both the search and the writer. "
        "I5: text starting `bestmove` is printed at exactly two places: in the book branch of `go` (not in an inner loop, and no spawn "
        "can follow in that iteration) and after the receive loop of the writer thread (not in a loop, guarded only by `best_line.first()`); every path "
        "through the `go` arm passes the book print or Search::spawn. I6: the book move printed is an element of lookup(book, current_position); the "
        "writer's move is the first element of the line of the last BestMove event. I7: the writer prints origin, destination, lower-cased promotion "
        "letter. I8: `quit` leaves the loop, the function can only return Ok(()), the CLI exits non-zero only on Err. I9: current_position is assigned "
        "only from State::default(), the Ok of the FEN reader, or the Ok of by_performing_moves(current_position, moves-of-this-command); each "
        "successful `position` command re-establishes the base and applies all its move tokens in order; `go` searches a clone of it and looks the book "
        "up with it. I10: the deepening loop cannot be left before the iteration's workers ran (so a stop that is already pending cannot suppress the "
        "first report), and the loop starts at depth 0 so that it runs at least once for every depth limit >= 1. I11: every search gets a timer thread - started on every "
        "path through Search::spawn - that sends Stop when the elapsed time reaches `movetime.unwrap_or(default)`, whatever other limit was given.")
    ck.trusted = ["rustc front end and MIR construction (drop elaboration)", "extractor decoding", "effect table tables/effects.json (blocking callees)"]
    ck.not_decided = [
        "timing: when a reply appears, `readyok` latency while a search runs",
        "that a started search reports at least one non-empty line before it is stopped (the interrupted first iteration reports nothing if the root entry is missing)",
        "legality of the searched move (C03/C05/C08/C15 rules) and of the book move (C16 rules)",
        "interleaving of the writer thread's output with the main thread's output",
    ]
    ck.run_rule(i1_dispatch)
    ck.run_rule(i1b_dispatch_unconditional)
    ck.run_rule(i2_replies)
    ck.run_rule(i3_isready_nonblocking)
    ck.run_rule(i4_single_live_search)
    ck.run_rule(i4_wait_cancel)
    ck.run_rule(i5_bestmove_sites)
    ck.run_rule(i6_i7_writer)
    ck.run_rule(i8_exit)
    ck.run_rule(i9_position)
    ck.run_rule(i10_first_iteration)
    ck.run_rule(i11_time_limit)
    from .c12 import q7_uci_query
    ck.run_rule(q7_uci_query)   # I9: the move tokens are converted to (origin, destination, promotion) queries
    # the book branch and the reused search memory answer by position hash: a hash that confuses positions with different legal moves
    # makes `bestmove` illegal (C08 rules; the C16 / C03 provenance rules are not repeated here)
    from .c08 import h1_h2_h5_influence, h4_keys
    ck.run_rule(h1_h2_h5_influence)
    ck.run_rule(h4_keys)
    # faithful position tracking is `by_performing_moves` move by move: the successor function (C02's U rules); "every go gets its
    # bestmove" needs the root's entry to be stored whatever the table holds already: a store is never refused (C15's T3, T4)
    from . import c02 as _c02
    _ctx = {}
    for _r in (_c02.collect_sets, _c02.u0_u4_piece_updates, _c02.u1_rook_relocation, _c02.u2_rights, _c02.u3_u5_state_fields):
        ck.run_rule(_r, _ctx)
    ck.run_rule(_c02.u6_unique_resolution)
    from .c15 import t3_never_emptied, t4_eviction
    ck.run_rule(t3_never_emptied)
    ck.run_rule(t4_eviction)
    # a shortcut that answers the root without searching it leaves the `go` without its bestmove (C17's D1-D3); the move that is printed
    # and the moves accepted by `position` are legal because every candidate passes the king-safety filter (C01's G4)
    from .c17 import d1_d2_d3
    ck.run_rule(d1_d2_d3)
    from .c01 import g4_legality_filter
    ck.run_rule(g4_legality_filter)
    # `position fen ..` is the FEN reader: the fields it stores and what it may refuse (C11's F5, F7/F8); a root searched with a window that
    # excludes mate scores stores no entry when every move is mated and the `go` gets no bestmove (C06's R8-R10)
    from .c11 import f5_field_order, f7_f8_counters_and_rejections
    ck.run_rule(f5_field_order)
    ck.run_rule(f7_f8_counters_and_rejections)
    from .c06 import r8_r10_driver
    ck.run_rule(r8_r10_driver)


def _shape(ck, rule):
    ex = ck.body(EXEC, rule)
    sh = ExecShape(ck.prog, ex)
    if sh.loop_head is None:
        ck.fail(rule, "loop head", ex.where(), "cannot find the command loop (next() on the stdin lines iterator)")
        return ex, None, None
    return ex, sh, sh.first_token_arms()


def _stdout(prog, body, blocks=None):
    return [(bb, line, txt) for bb, line, stream, txt in printed_texts(prog, body) if stream == "stdout" and (blocks is None or bb in blocks)]


# ---------------------------------------------------------------- I1
def i1_dispatch(ck):
    ex, sh, arms = _shape(ck, "I1")
    if sh is None:
        return
    ck.floor("I1", len([a for a in arms if a in REQUIRED]), 7, "UCI command words compared with the first token in Client::exec")
    for w in REQUIRED:
        ck.req(w in arms, "I1.command", w, ex.where(), "the command loop has no arm for the first token \"%s\"" % w)
    # the compared value is the head of split_first() of the whitespace-split line
    tb = sh.tb
    for w in REQUIRED:
        if w not in sh.arms:
            continue
        bb = sh.arms[w][0][0]
        t = ex.term(bb)
        terms = [tb.operand(a) for a in t["args"]]
        src = any(any(x[0] == "call" and "split_first" in x[1] for x in walk(a)) for a in terms)
        ws = any(any(x[0] == "call" and "split_ascii_whitespace" in x[1] or x[0] == "call" and "split_whitespace" in x[1] for x in walk(a)) for a in terms)
        ck.req(src and ws, "I1.first_token", w, ex.where(t["line"]),
               "the word \"%s\" is not compared with the first whitespace-separated token of the input line" % w)
    ck.sample({"rule": "I1", "arms": {k: "bb%d" % v for k, v in sorted(arms.items())}, "loop_head": "bb%d" % sh.loop_head})


# ---------------------------------------------------------------- I2
def i2_replies(ck):
    ex, sh, arms = _shape(ck, "I2")
    if sh is None:
        return
    dom = sh.dom
    if "uci" in arms:
        entry = arms["uci"]
        region = sh.arm_blocks(entry)
        outs = _stdout(ck.prog, ex, region)
        ends = sh.arm_backedge_sources(entry)
        blocks = {}
        for want in ("id name ", "id author ", "uciok\n"):
            hit = [bb for bb, line, txt in outs if txt is not None and txt.startswith(want)]
            ok = bool(hit) and cfg.must_pass(ex, [entry], [sh.loop_head], hit)
            ck.req(ok, "I2.uci", want.strip(), ex.where(),
                   "the `uci` arm does not print a line starting \"%s\" on every path back to the command loop" % want.strip())
            if hit:
                blocks[want] = hit
        if "uciok\n" in blocks:
            ub = blocks["uciok\n"]
            for want in ("id name ", "id author "):
                for b in blocks.get(want, []):
                    ck.req(all(b in dom.get(u, ()) for u in ub), "I2.order", want.strip() + " before uciok", ex.where(),
                           "`uciok` can be printed before the \"%s\" line" % want.strip())
            later = [(bb, txt) for bb, line, txt in outs if bb not in ub and any(bb in cfg.reachable(ex, [u], avoid=[sh.loop_head]) for u in ub)]
            ck.req(not later, "I2.uciok_last", "uci", ex.where(), "the `uci` arm prints %r after `uciok`" % (later[:1],))
        ck.req(bool(ends), "I2.continues", "uci", ex.where(), "the `uci` arm never returns to the command loop")
    if "isready" in arms:
        entry = arms["isready"]
        region = sh.arm_blocks(entry)
        outs = _stdout(ck.prog, ex, region)
        hit = [bb for bb, line, txt in outs if txt == "readyok\n"]
        ck.req(bool(hit) and cfg.must_pass(ex, [entry], [sh.loop_head], hit) and bool(sh.arm_backedge_sources(entry)), "I2.isready", "readyok", ex.where(),
               "the `isready` arm does not print exactly `readyok` on every path back to the command loop")
        other = [(bb, txt) for bb, line, txt in outs if txt != "readyok\n"]
        ck.req(not other, "I2.isready_only", "readyok", ex.where(), "the `isready` arm prints something else as well: %r" % (other[:1],))
        ck.req(len(hit) <= 1 and not any(cfg.in_cycle_within(ex, b, region) for b in hit) if hasattr(cfg, "in_cycle_within") else len(hit) <= 1,
               "I2.isready_once", "readyok", ex.where(), "`readyok` is printed at %d places in the `isready` arm" % len(hit))


# ---------------------------------------------------------------- I3
def _carriers(prog, ex, sh, tynames):
    """Locals (not references) defined before the command loop whose type mentions one of tynames."""
    after_head = cfg.reachable(ex, [sh.loop_head])
    out = []
    for l, loc in enumerate(ex.locals):
        if l == 0 or loc["ty"].startswith("&") or not type_mentions(prog, loc["ty"], tynames):
            continue
        for bb, blk in enumerate(ex.blocks):
            if blk.get("cleanup") or bb in after_head:
                continue
            if any(s["k"] == "assign" and s["place"] == {"l": l, "p": []} for s in blk["stmts"]) or \
                    (blk["term"]["k"] == "call" and blk["term"]["dest"] == {"l": l, "p": []}):
                out.append(l)
                break
    return out


def i3_isready_nonblocking(ck):
    ex, sh, arms = _shape(ck, "I3")
    if sh is None or "isready" not in arms:
        return
    prog = ck.prog
    entry = arms["isready"]
    region = sh.arm_blocks(entry)
    eff = load_effects()
    cg = CallGraph(prog)
    roots = set()
    direct = []
    for bb in sorted(region):
        t = ex.term(bb)
        if t["k"] == "call":
            n = callee_name(t)
            direct.append(n)
            roots.add(n)
    seen, ext, indirect = cg.reachable([r for r in roots if r in prog.bodies])
    allext = set(ext) | {r for r in roots if r not in prog.bodies}
    bad = sorted(e for e in allext if "blocking" in classify(e, eff))
    ck.req(not bad, "I3.nonblocking", "isready", ex.where(),
           "the `isready` arm can reach the blocking callee %s: `readyok` would wait (for a search, a lock or input)" % (bad[:2],),
           "%d direct calls, %d workspace fns and %d external callees reachable, none blocking" % (len(direct), len(seen), len(allext)))
    ck.req(not indirect, "I3.indirect", "isready", ex.where(), "the `isready` arm reaches an indirect call (targets unknown)")
    carriers = _carriers(prog, ex, sh, ("uci::Search", "SearchArtifact"))
    ck.floor("I3", len(carriers), 2, "session locals holding the search or its artifact")
    deps = Deps(ex)
    touched = set()
    for bb in region:
        used = set()
        for s in ex.stmts(bb):
            if s["k"] == "assign":
                used |= rvalue_locals(s["rv"]) | place_locals(s["place"])
        t = ex.term(bb)
        if t["k"] == "call":
            for a in t["args"]:
                used |= operand_locals(a)
            used |= place_locals(t["dest"])
        elif t["k"] == "drop":
            used |= place_locals(t["place"])
        elif t["k"] == "switch":
            used |= operand_locals(t["discr"])
        for l in list(used):
            used |= deps.points_to.get(l, set())
        touched |= used & set(carriers)
    ck.req(not touched, "I3.no_search_state", "isready", ex.where(),
           "the `isready` arm touches %s" % sorted(ex.local_name(l) or l for l in touched))
    ck.sample({"rule": "I3", "direct_calls": sorted(set(direct)), "external_reached": sorted(allext)[:12]})


# ---------------------------------------------------------------- I4
def _search_locals(prog, ex):
    return {l for l, loc in enumerate(ex.locals) if l and not loc["ty"].startswith("&") and not loc["ty"].startswith("*")
            and type_mentions(prog, loc["ty"], ("uci::Search",))}


LIVE, STOPPED = 2, 1
DETACHED = -1   # pseudo-local: some search was let go (dropped / consumed) without its writer having been joined


class SearchSummary:
    """What a workspace function does to the Search it receives as parameter #p (by value or by reference), on every path:
    sends Stop on its control channel / joins the search thread / joins the writer thread.  Looks through workspace callees."""

    def __init__(self, prog):
        self.prog = prog
        self.memo = {}

    def of(self, fn, p, depth=0):
        key = (fn, p)
        if key in self.memo:
            return self.memo[key]
        self.memo[key] = {"stops": False, "joins_search": False, "joins_writer": False, "blocks": {}}
        b = self.prog.body(fn)
        if b is None or depth > 3:
            return self.memo[key]
        tb = TermBuilder(self.prog, b)
        marks = {"stops": [], "joins_search": [], "joins_writer": []}

        def on_self(t, field=None):
            for x in walk(t):
                if x == ("param", p):
                    return True
            return False
        for bb, t in live_calls(b):
            n = callee_name(t)
            args = [tb.operand(a) for a in t["args"]]
            txt = " ".join(show(a) for a in args)
            if "mpsc::Sender" in n and n.endswith("::send") and args and on_self(args[0]) and any(x[0] == "field" and x[2] == "control" for x in walk(args[0])) \
                    and any("Stop" in show(a) for a in args[1:]):
                marks["stops"].append(bb)
            elif "JoinHandle" in n and n.endswith("::join") and args and on_self(args[0]):
                if any(x[0] == "field" and x[2] == "search_handle" for x in walk(args[0])):
                    marks["joins_search"].append(bb)
                if any(x[0] == "field" and x[2] == "write_handle" for x in walk(args[0])):
                    marks["joins_writer"].append(bb)
            elif n in self.prog.bodies:
                for i, a in enumerate(args):
                    if a == ("param", p) or (a[0] in ("ref", "deref") and on_self(a)) or (on_self(a) and not any(x[0] == "field" for x in walk(a))):
                        sub = self.of(n, i + 1, depth + 1)
                        for k in marks:
                            if sub[k]:
                                marks[k].append(bb)
        ex = cfg.exits(b)
        out = {k: bool(v) and cfg.must_pass(b, [0], ex, v) for k, v in marks.items()}
        out["blocks"] = marks
        self.memo[key] = out
        return out


class LiveSearch:
    """Forward typestate analysis of `Search` values: which locals may hold a search that is LIVE (running, Stop not sent)
    or STOPPED (Stop sent, threads not joined).  Moves transfer, Option::take transfers out of the pointee, a callee that
    stops / joins (SearchSummary) changes the state, the None edge of a switch over discriminant(x) empties x.  A workspace
    helper that receives `&mut carrier` is summarised by analysing its body with the pointee as a pseudo-carrier."""

    def __init__(self, prog, body, pseudo=(), depth=0, summaries=None):
        self.prog, self.b, self.depth = prog, body, depth
        self.tracked = _search_locals(prog, body) | set(pseudo)
        self.pseudo = set(pseudo)
        self.deps = Deps(body)
        self.succ = body.successors()
        self.rs = cfg.reachable_blocks(body)
        self.events = {}
        self.inn = {}
        self.sums = summaries or SearchSummary(prog)

    def name(self, l):
        return self.b.local_name(l) or "_%d" % l

    def ev(self, kind, bb, what, line):
        self.events.setdefault((kind, what), (bb, line))

    @staticmethod
    def moved(o, st):
        p = o.get("move") if isinstance(o, dict) else None
        if p and p["l"] in st and not (p["p"] and p["p"][0] == "*"):
            return p["l"]
        return None

    def pointees(self, a, mut_only=True):
        out = set()
        for l in operand_locals(a):
            ty = self.b.local_ty(l)
            if ty.startswith("&mut ") or (not mut_only and ty.startswith("&")):
                if l in self.pseudo:
                    out.add(l)
                out |= self.deps.points_to.get(l, set())
        return out

    def carrier_summary(self, callee, arg_index):
        """Level the pointee of `&mut Option<Search>` argument #arg_index may still have when `callee` returns, and the first bad event inside."""
        cb = self.prog.body(callee)
        if cb is None or self.depth >= 2:
            return None, None
        p = arg_index + 1
        an = LiveSearch(self.prog, cb, pseudo=(p,), depth=self.depth + 1, summaries=self.sums)
        an.solve({p: LIVE})
        bad = [k for k in an.events if k[0] in ("dropped", "escapes", "second_search", "overwritten")]
        lvl = 0
        for bb in cfg.exits(cb):
            if bb in an.inn:
                lvl = max(lvl, an.out_state(bb).get(p, 0))
        return lvl, (bad[0] if bad else None)

    @staticmethod
    def join(a, b):
        out = dict(a)
        for k, v in b.items():
            out[k] = max(out.get(k, 0), v)
        return out

    def transfer(self, bb, state, record):
        ex, tracked = self.b, self.tracked
        st = dict(state)
        for s in ex.stmts(bb):
            if s["k"] != "assign":
                continue
            rv, dst = s["rv"], s["place"]
            srcs = []
            for k in ("use", "cast", "a", "b"):
                m = self.moved(rv.get(k), st) if isinstance(rv.get(k), dict) else None
                if m is not None:
                    srcs.append(m)
            for o in rv.get("ops", []):
                m = self.moved(o, st)
                if m is not None:
                    srcs.append(m)
            lvl = max([st.pop(m) for m in srcs] or [0])
            deref_dst = bool(dst["p"]) and dst["p"][0] == "*"
            targets = {dst["l"]} if not deref_dst else ({dst["l"]} & self.pseudo) | self.deps.points_to.get(dst["l"], set())
            targets &= tracked
            none = "agg" in rv and rv["agg"].get("adt") == "core::option::Option" and rv["agg"].get("variant") == "None"
            for tg in targets:
                if srcs:
                    st[tg] = max(st.get(tg, 0), lvl)
                elif none and (not dst["p"] or dst["p"] == ["*"]):
                    if st.get(tg) == LIVE and record:
                        self.ev("overwritten", bb, self.name(tg), s.get("line"))
                    if tg in st:
                        st.pop(tg)
                        st[DETACHED] = 1
        t = ex.term(bb)
        if t["k"] == "drop":
            p = t["place"]
            tg = {p["l"]} if not (p["p"] and p["p"][0] == "*") else self.deps.points_to.get(p["l"], set()) | ({p["l"]} & self.pseudo)
            for x in tg & set(st):
                if st[x] == LIVE and record:
                    self.ev("dropped", bb, self.name(x), t.get("line"))
                st.pop(x)
                st[DETACHED] = 1
        elif t["k"] == "call":
            n = callee_name(t)
            d = t["dest"]
            if n == SPAWN:
                live = sorted(self.name(l) for l, v in st.items() if v == LIVE and l != DETACHED)
                if live and record:
                    self.ev("second_search", bb, ",".join(live), t.get("line"))
                st[d["l"]] = LIVE
            else:
                consumed = [(i, m) for i, m in ((i, self.moved(a, st)) for i, a in enumerate(t["args"])) if m is not None]
                for i, m in consumed:
                    lvl = st.pop(m)
                    if n.split("::")[-1] in ("map", "and_then", "map_or", "inspect") and "option::Option" in n and i == 0 and len(t["args"]) >= 2:
                        # opt.map(f): f receives the Search (if any); f = a function item or a closure defined here
                        ftb = TermBuilder(self.prog, self.b)
                        f = ftb.operand(t["args"][-1])
                        handled = False
                        if f[0] == "fn" and f[1] in self.prog.bodies:
                            sm = self.sums.of(f[1], 1)
                            if not sm["stops"] and lvl == LIVE and record:
                                self.ev("escapes", bb, "%s -> %s" % (self.name(m), f[1].split("::")[-1]), t.get("line"))
                            if not sm["joins_writer"]:
                                st[DETACHED] = 1
                            handled = True
                        elif f[0] == "agg" and str(f[1]).startswith("closure:") and self.depth < 2:
                            cb = self.prog.body(f[1][len("closure:"):])
                            if cb is not None and cb.arg_count >= 2:
                                an = LiveSearch(self.prog, cb, pseudo=(2,), depth=self.depth + 1, summaries=self.sums)
                                an.solve({2: lvl})
                                bad = [k for k in an.events if k[0] in ("dropped", "escapes", "second_search", "overwritten")]
                                if bad and record:
                                    self.ev(bad[0][0], bb, "%s (inside the closure passed to %s)" % (bad[0][1], n.split("::")[-1]), t.get("line"))
                                if any(DETACHED in an.out_state(xb) for xb in cfg.exits(cb) if xb in an.inn):
                                    st[DETACHED] = 1
                                handled = True
                        if handled:
                            continue
                    if n in self.prog.bodies and self.b.local_ty(m).startswith("core::option::Option<") and self.depth < 2:
                        # an Option<Search> handed over by value: analyse the callee with its parameter as the holder
                        cb = self.prog.body(n)
                        an = LiveSearch(self.prog, cb, pseudo=(i + 1,), depth=self.depth + 1, summaries=self.sums)
                        an.solve({i + 1: lvl})
                        bad = [k for k in an.events if k[0] in ("dropped", "escapes", "second_search", "overwritten")]
                        if bad and record:
                            self.ev(bad[0][0], bb, "%s (inside %s)" % (bad[0][1], n.split("::")[-1]), t.get("line"))
                        ret_lvl, det = 0, False
                        for xb in cfg.exits(cb):
                            if xb in an.inn:
                                o = an.out_state(xb)
                                ret_lvl = max(ret_lvl, o.get(0, 0), o.get(i + 1, 0))
                                det = det or DETACHED in o
                        if ret_lvl and d["l"] in tracked:
                            st[d["l"]] = max(st.get(d["l"], 0), ret_lvl)
                        elif ret_lvl:
                            if ret_lvl == LIVE and record:
                                self.ev("escapes", bb, "%s -> %s" % (self.name(m), n.split("::")[-1]), t.get("line"))
                            st[DETACHED] = 1
                        if det:
                            st[DETACHED] = 1
                    elif n in self.prog.bodies and not self.b.local_ty(m).startswith("core::option::Option<"):
                        sm = self.sums.of(n, i + 1)
                        if not sm["stops"] and lvl == LIVE and record:
                            self.ev("escapes", bb, "%s -> %s" % (self.name(m), n.split("::")[-1]), t.get("line"))
                        if not sm["joins_writer"]:
                            st[DETACHED] = 1
                    elif d["l"] in tracked:
                        st[d["l"]] = max(st.get(d["l"], 0), lvl)
                    else:
                        if lvl == LIVE and record:
                            self.ev("escapes", bb, "%s -> %s" % (self.name(m), n), t.get("line"))
                        st[DETACHED] = 1
                if n == TAKE:
                    for a in t["args"]:
                        for tgt in self.pointees(a):
                            if tgt in st:
                                st[d["l"]] = max(st.get(d["l"], 0), st.pop(tgt))
                elif not consumed:
                    for i, a in enumerate(t["args"]):
                        pts = self.pointees(a, mut_only=False) & tracked & set(st)
                        if not pts or n not in self.prog.bodies:
                            # an external callee with &mut access: a Search-typed result may carry the pointee's search
                            mp = self.pointees(a) & tracked & set(st)
                            if mp and d["l"] in tracked and not d["p"]:
                                st[d["l"]] = max(st.get(d["l"], 0), max(st[x] for x in mp))
                            continue
                        aty = [self.b.local_ty(l) for l in operand_locals(a)]
                        if any("Option<" in ty for ty in aty):
                            if not any(ty.startswith("&mut ") for ty in aty):
                                continue
                            lvl, bad = self.carrier_summary(n, i)
                            if bad and record:
                                self.ev(bad[0], bb, "%s (inside %s)" % (bad[1], n.split("::")[-1]), t.get("line"))
                            if lvl is not None:
                                for x in pts:
                                    if lvl == 0:
                                        st.pop(x)
                                    else:
                                        st[x] = min(st[x], lvl) if lvl < st[x] else st[x]
                        else:
                            sm = self.sums.of(n, i + 1)
                            if sm["stops"]:
                                for x in pts:
                                    st[x] = STOPPED
        elif t["k"] == "return":
            live = sorted(self.name(l) for l, v in st.items() if l != DETACHED and l not in self.pseudo)
            if live and record:
                self.ev("alive_at_return", bb, ",".join(live), t.get("line"))
            if DETACHED in st and not self.pseudo and record:
                self.ev("detached_at_return", bb, "writer not joined", t.get("line"))
        return st

    def refine(self, bb, tgt, st):
        """x is empty on the None edge of a switch over discriminant(x)."""
        ex = self.b
        t = ex.term(bb)
        if t["k"] != "switch":
            return st
        d = operand_locals(t["discr"])
        for s in ex.stmts(bb):
            if s["k"] == "assign" and s["place"]["l"] in d and "discr" in s["rv"]:
                p = s["rv"]["discr"]
                tg = None
                if not p["p"] and p["l"] in st and ex.local_ty(p["l"]).startswith("core::option::Option<"):
                    tg = p["l"]
                elif p["p"] == ["*"]:
                    c = [x for x in (self.deps.points_to.get(p["l"], set()) | ({p["l"]} & self.pseudo)) if x in st]
                    if len(c) == 1:
                        tg = c[0]
                if tg is None:
                    continue
                vals = {c[0]: c[1] for c in t["cases"]}
                none_targets = set()
                if 0 in vals:
                    none_targets.add(vals[0])
                elif set(vals) == {1}:
                    none_targets.add(t["otherwise"])
                some_targets = {v for k, v in vals.items() if k != 0} | ({t["otherwise"]} if 0 in vals else set())
                if tgt in none_targets and tgt not in some_targets:
                    st = {k: v for k, v in st.items() if k != tg}
        return st

    def solve(self, init=None, start=0, region=None, stop=()):
        """Fixpoint from `start`; with `region`, stay inside it and return {block: state flowing into a `stop` block}."""
        ex = self.b
        inn = {start: dict(init or {})}
        work = [start]
        at_stop = {}
        while work:
            b = work.pop()
            out = self.transfer(b, inn[b], False)
            for s in self.succ[b]:
                if s not in self.rs or ex.is_cleanup(s):
                    continue
                o = self.refine(b, s, out)
                if s in stop:
                    at_stop[b] = self.join(at_stop.get(b, {}), o)
                    continue
                if region is not None and s not in region:
                    continue
                if s not in inn:
                    inn[s] = dict(o)
                    work.append(s)
                else:
                    j = self.join(inn[s], o)
                    if j != inn[s]:
                        inn[s] = j
                        work.append(s)
        if region is None:
            self.inn = inn
            for b in sorted(inn):
                self.transfer(b, inn[b], True)
        else:
            self.region_inn = inn
        return at_stop

    def out_state(self, bb):
        return self.transfer(bb, self.inn[bb], False)


def i4_single_live_search(ck):
    ex, sh, arms = _shape(ck, "I4")
    if sh is None:
        return
    prog = ck.prog
    an = LiveSearch(prog, ex)
    an.solve()
    name = an.name
    spawns = live_calls(ex, names=(SPAWN,))
    ck.floor("I4", len(spawns), 1, "Search::spawn call sites in Client::exec")
    msgs = {
        "second_search": "Search::spawn is called while %s may still hold a search that was not told to stop: the earlier `go` is not answered when the new one arrives",
        "dropped": "a running search held in `%s` can be dropped without Stop having been sent: it keeps running until its timer fires, the `go` is not answered when the next command arrives",
        "overwritten": "`%s` is reset while it may hold a running search that was not told to stop",
        "escapes": "a running search is handed to a function that does not stop it (%s)",
        "alive_at_return": "Client::exec can return while %s still holds a search whose threads were not joined: the process ends without the pending bestmove",
        "detached_at_return": "Client::exec can return after a search was let go without joining its writer thread (%s): the process may exit before the bestmove is printed",
    }
    for kind in msgs:
        hits = [(what, bbline) for (k, what), bbline in sorted(an.events.items()) if k == kind]
        if not hits:
            ck.ok("I4." + kind, "Client::exec", ex.where(), "no such event on any path (%d blocks analysed)" % len(an.inn))
        for what, (bb, line) in hits:
            ck.fail("I4." + kind, what, ex.where(line), msgs[kind] % what)
    carriers = _carriers(prog, ex, sh, ("uci::Search",))
    ck.floor("I4", len(carriers), 1, "session locals holding the running search")
    # stop / position tell the running search to stop on every path back to the loop; go does so before spawning
    for w in ("go", "position", "stop"):
        if w not in arms:
            continue
        entry = arms[w]
        region = sh.arm_blocks(entry)
        an2 = LiveSearch(prog, ex, summaries=an.sums)
        at_end = an2.solve({l: LIVE for l in carriers}, start=entry, region=region, stop=(sh.loop_head,))
        if w != "go":
            holders = sorted(b for b, st in at_end.items() if any(v == LIVE and l != DETACHED for l, v in st.items()))
            ck.req(not holders and bool(at_end), "I4.stops_running", w, ex.where(),
                   "after `%s` the previous search may still be running without having been told to stop (path via bb%s)" % (w, holders[:2]))
        else:
            for bb, t in spawns:
                stt = an2.region_inn.get(bb)
                held = sorted(name(l) for l, v in (stt or {}).items() if v == LIVE and l != DETACHED)
                ck.req(stt is not None and not held, "I4.go_stops_first", "go", ex.where(t["line"]),
                       "Search::spawn can be reached in the `go` arm while %s still holds the previous, unstopped search" % held)
    ck.sample({"rule": "I4", "tracked_locals": sorted(name(l) for l in an.tracked), "spawn_sites": len(spawns),
               "summaries": {k[0].split("::")[-1]: {x: v[x] for x in ("stops", "joins_search", "joins_writer")} for k, v in an.sums.memo.items()}})


def _wait_fn(prog):
    """The method that ends a search: by name, or - after a rename - the one method of `Search` that takes the Search by value."""
    if WAIT in prog.bodies:
        return WAIT
    pre = WAIT.rsplit("::", 1)[0] + "::"
    cands = [n for n, b in prog.bodies.items() if n.startswith(pre) and "{closure" not in n and b.arg_count >= 1 and b.local_ty(1) == pre[:-2]]
    return cands[0] if len(cands) == 1 else WAIT


def i4_wait_cancel(ck):
    prog = ck.prog
    wait = _wait_fn(prog)
    b = ck.body(wait, "I4w")
    sums = SearchSummary(prog)
    sm = sums.of(wait, 1)
    ck.req(sm["stops"], "I4w.stop_sent", "wait_cancel", b.where(), "wait_cancel does not send ControlEvent::Stop on the search's control channel on every path")
    ck.req(sm["joins_search"], "I4w.joins_search", "wait_cancel", b.where(), "wait_cancel does not join the search thread on every path")
    ck.req(sm["joins_writer"], "I4w.joins_writer", "wait_cancel", b.where(),
           "wait_cancel does not join the writer thread: the pending bestmove may be printed after the reply to a later command, or lost at exit")
    dom = cfg.dominators(b)
    if sm["stops"] and sm["joins_search"]:
        ok = all(any(sb in dom[j] for sb in sm["blocks"]["stops"]) for j in sm["blocks"]["joins_search"] + sm["blocks"]["joins_writer"])
        ck.req(ok, "I4w.order", "stop before join", b.where(),
               "a thread of the search is joined before Stop is sent: the command loop would wait for the whole search time")
    sp = ck.body(SPAWN, "I4w")
    tbs = TermBuilder(prog, sp)
    agg = None
    for bb, blk in enumerate(sp.blocks):
        if blk.get("cleanup"):
            continue
        for s in blk["stmts"]:
            if s["k"] == "assign" and s["place"] == {"l": 0, "p": []} and "agg" in s["rv"] and s["rv"]["agg"].get("adt", "").endswith("uci::Search"):
                agg = s
    if agg is None:
        ck.missing("I4w", "Search { .. } constructor in Search::spawn")
        return
    adt = prog.adt("weechess_engine::uci::Search")
    fields = [f["name"] for f in adt["variants"][0]["fields"]]
    vals = dict(zip(fields, [tbs.operand(o) for o in agg["rv"]["ops"]]))
    an = [x for x in walk(vals.get("search_handle", ("none",))) if x[0] == "call" and x[1] == ANALYZE]
    ck.req(bool(an), "I4w.handle", "search_handle", sp.where(), "Search.search_handle is not the join handle returned by Searcher::analyze")
    ctl = [x for x in walk(vals.get("control", ("none",))) if x[0] == "call" and x[1] == ANALYZE]
    ck.req(bool(ctl), "I4w.handle", "control", sp.where(), "Search.control is not the control sender returned by Searcher::analyze")
    wr = [x for x in walk(vals.get("write_handle", ("none",))) if x[0] == "call" and x[1].startswith("std::thread") and x[1].endswith("::spawn")
          and any(y[0] == "agg" and "closure" in str(y[1]) for y in x[2])]
    ck.req(bool(wr), "I4w.handle", "write_handle", sp.where(), "Search.write_handle is not the handle of the thread spawned for the writer closure")


# ---------------------------------------------------------------- I5
def _display_args(tb, t):
    a = tb.operand(t["args"][0])
    return [x[2][0] for x in walk(a) if x[0] == "call" and x[1] == NEW_DISPLAY]


def _writer(ck, rule):
    prog = ck.prog
    for name in sorted(prog.closures_of(SPAWN)):
        b = prog.body(name)
        if any(txt and txt.startswith("bestmove") for _, _, s, txt in printed_texts(prog, b)):
            return b
    ck.missing(rule, "closure of Search::spawn that prints `bestmove`")
    return None


def _in_cycle_within(body, bb, avoid):
    succ = body.successors()
    r = cfg.reachable(body, [s for s in succ[bb]], avoid=avoid)
    return bb in r


def i5_bestmove_sites(ck):
    ex, sh, arms = _shape(ck, "I5")
    if sh is None:
        return
    prog = ck.prog
    sites = []
    for b in ws_bodies(prog):
        for bb, line, stream, txt in printed_texts(prog, b):
            if txt and txt.lstrip().startswith("bestmove"):
                sites.append((b.name, bb, line, stream))
    ck.req(len(sites) == 2, "I5.two_sites", "bestmove", ex.where(),
           "`bestmove` is printed at %d places (%s); the protocol argument needs exactly the book branch and the writer thread" %
           (len(sites), [s[0].split("::")[-2:] for s in sites]))
    ck.req(all(s[3] == "stdout" for s in sites), "I5.stdout", "bestmove", ex.where(), "a bestmove line goes to stderr")
    unknown = [(b.name, line) for b in ws_bodies(prog) if b.name.startswith("weechess_engine::uci") for bb, line, stream, txt in printed_texts(prog, b)
               if txt is None and stream == "stdout"]
    ck.req(not unknown, "I5.templates", "uci", ex.where(), "a stdout print in the uci module has a template that could not be decoded: %s" % unknown[:2])
    if "go" not in arms:
        return
    entry = arms["go"]
    region = sh.arm_blocks(entry)
    book = [s for s in sites if s[0] == EXEC]
    ck.req(len(book) == 1 and book[0][1] in region, "I5.book_site", "go", ex.where(), "the command loop's bestmove print is not (only) in the `go` arm")
    spawns = [bb for bb, t in live_calls(ex, names=(SPAWN,))]
    ck.req(all(bb in region for bb in spawns), "I5.spawn_in_go", "go", ex.where(), "Search::spawn is called outside the `go` arm")
    if book:
        pb = book[0][1]
        after = cfg.reachable(ex, [pb], avoid=[sh.loop_head])
        ck.req(not (set(spawns) & after), "I5.book_no_search", "go", ex.where(book[0][2]),
               "after printing the book move the `go` arm can still start a search, which prints a second bestmove")
        ck.req(not _in_cycle_within(ex, pb, [sh.loop_head]), "I5.book_once", "go", ex.where(book[0][2]), "the book bestmove print is inside an inner loop")
        ck.req(cfg.must_pass(ex, [entry], [sh.loop_head] + cfg.exits(ex), [pb] + spawns), "I5.go_answered", "go", ex.where(),
               "a path through the `go` arm neither prints the book move nor starts a search: that `go` is never answered")
        # I6 (book): printed move derives from lookup(book, current_position)
        tb = sh.tb
        args = _display_args(tb, ex.term(pb))
        cp = _carriers(prog, ex, sh, ("state::State",))
        cp = [l for l in cp if ex.local_ty(l).endswith("state::State")]
        ok = False
        for a in args:
            for x in walk(a):
                if x[0] == "call" and x[1] == LOOKUP and len(x[2]) == 2 and x[2][1][0] == "var" and x[2][1][1] in cp:
                    ok = True
        ck.req(ok and len(args) == 1, "I6.book_move", "go", ex.where(book[0][2]),
               "the move printed in the book branch is not taken from OpeningBook::lookup on the session's current position")
        into = [x for a in args for x in walk(a) if x[0] == "call" and x[1] == INTO_NOTATION]
        t = ex.term(pb)
        lan = False
        for bb2, t2 in live_calls(ex, names=(INTO_NOTATION,)):
            if bb2 in region and any("Lan" in g for g in t2.get("generics", [])):
                lan = True
        ck.req(bool(into) and lan, "I7.book_notation", "go", ex.where(book[0][2]),
               "the book move is not printed through into_notation::<_, Lan> (coordinate notation)")
        # the lookup result guards the branch: Some -> print, None -> spawn
        g = guards_of(prog, ex, pb, tb)
        gl = [c for c, v in g if c[0] == "discr" and any(x[0] == "call" and x[1] == LOOKUP for x in walk(c)) and v == 1]
        ck.req(bool(gl), "I5.book_guard", "go", ex.where(book[0][2]), "the book bestmove is not guarded by lookup(..) being Some")
    # I9d
    for bb, t in live_calls(ex, names=(SPAWN,)):
        a0 = sh.tb.operand(t["args"][0])
        cp = [l for l in _carriers(prog, ex, sh, ("state::State",)) if ex.local_ty(l).endswith("state::State")]
        ok = a0[0] == "call" and a0[1] == STATE_CLONE and a0[2][0][0] == "var" and a0[2][0][1] in cp
        ck.req(ok, "I9.go_searches_current", "go", ex.where(t["line"]), "Search::spawn is not given a clone of the session's current position (got %s)" % show(a0)[:80])


# ---------------------------------------------------------------- I6 / I7 writer
def i6_i7_writer(ck):
    prog = ck.prog
    w = _writer(ck, "I6")
    if w is None:
        return
    tb = TermBuilder(prog, w)
    pts = [(bb, line) for bb, line, stream, txt in printed_texts(prog, w) if txt and txt.startswith("bestmove")]
    ck.req(len(pts) == 1, "I5.writer_site", "writer", w.where(), "the writer closure prints bestmove at %d places" % len(pts))
    if not pts:
        return
    pb, pline = pts[0]
    ck.req(not cfg.in_cycle(w, pb), "I5.writer_once", "writer", w.where(pline), "the writer's bestmove print is inside a loop: more than one bestmove per go")
    # after the receive loop: the recv() loop head dominates the print and cannot be reached again from it
    recv = [bb for bb, t in live_calls(w) if "mpsc::Receiver" in callee_name(t) and callee_name(t).endswith("::recv")]
    ck.req(len(recv) == 1, "I5.writer_recv", "writer", w.where(), "expected one recv() on the status channel in the writer, found %d" % len(recv))
    dom = cfg.dominators(w)
    if recv:
        r = recv[0]
        ck.req(r in dom[pb] and r not in cfg.reachable(w, [pb]), "I5.writer_after_loop", "writer", w.where(pline),
               "the writer's bestmove is not printed after the event loop has ended (channel closed = search finished)")
        ck.req(cfg.in_cycle(w, r), "I5.writer_loop", "writer", w.where(), "the writer does not loop over the status events")
        # the loop ends only when recv() fails (sender dropped): every exit from the loop's cycle leaves from the recv switch
        loop = set()
        for be in cfg.back_edges(w):
            if be[1] in dom[r] or be[1] == r:
                loop |= cfg.natural_loop(w, be)
        succ = w.successors()
        leaves = sorted({a for a in loop for s in succ[a] if s not in loop and not w.is_cleanup(s)})
        okleave = []
        for a in leaves:
            t = w.term(a)
            c = tb.operand(t["discr"]) if t["k"] == "switch" else None
            okleave.append(c is not None and c[0] == "discr" and any(x[0] == "call" and x[1].endswith("::recv") for x in walk(c)))
        ck.req(bool(leaves) and all(okleave), "I5.writer_drains", "writer", w.where(),
               "the writer can leave its event loop other than by the channel closing (events, including the last best line, may be lost)")
    # guard of the print: only best_line.first() is Some
    g = [(c, v) for c, v in guards_of(prog, w, pb, tb) if not (c[0] == "discr" and any(x[0] == "call" and x[1].endswith("::recv") for x in walk(c)))]
    firsts = [(c, v) for c, v in g if c[0] == "discr" and any(x[0] == "call" and x[1].endswith("::first") for x in walk(c)) and v == 1]
    ck.req(len(firsts) == 1 and len(g) == 1, "I5.writer_guard", "writer", w.where(pline),
           "the writer's bestmove is printed under a condition other than `best_line.first()` being Some: %s" % [show(c)[:60] for c, v in g if (c, v) not in firsts][:2])
    # I6: best_line is assigned only from an empty vector and from the `line` of a received BestMove event
    # the line variable: the Vec<Move> local whose first element guards (and feeds) the print - identified by use, not by name
    bl = sorted({x[1] for c, v in firsts for y in walk(c) if y[0] == "call" and y[1].endswith("::first") for x in walk(y) if x[0] == "var" and "Vec<" in w.local_ty(x[1])})
    if len(bl) != 1:
        ck.missing("I6", "the Vec<Move> local whose first() guards the bestmove print in the writer closure")
        return
    bl = bl[0]
    bl_name = w.local_name(bl)
    nsrc = 0
    for bb, blk in enumerate(w.blocks):
        if blk.get("cleanup"):
            continue
        for s in blk["stmts"]:
            if s["k"] == "assign" and s["place"]["l"] == bl:
                t = tb.rvalue(s["rv"])
                nsrc += 1
                from_event = any(x[0] == "variant" and x[2] == "BestMove" for x in walk(t)) and any(x[0] == "call" and x[1].endswith("::recv") for x in walk(t)) \
                    and t[0] == "field" and t[2] == "line"
                ck.req(from_event, "I6.writer_line", "best_line", w.where(s.get("line")),
                       "best_line is assigned from %s, not from the line of a received BestMove event" % show(t)[:80])
        t = blk["term"]
        if t["k"] == "call" and t["dest"]["l"] == bl:
            n = callee_name(t)
            nsrc += 1
            ck.req(n.startswith("alloc::vec::Vec::<T>::new") or n.startswith("alloc::vec::Vec::<T, A>::new"), "I6.writer_line", "best_line init", w.where(t["line"]),
                   "best_line is initialised by %s" % n)
        if t["k"] == "call":
            for a in t["args"]:
                for l in operand_locals(a):
                    if w.local_ty(l).startswith("&mut ") and bl in Deps(w).points_to.get(l, ()):
                        ck.fail("I6.writer_line", "best_line mutated", w.where(t["line"]), "best_line is mutated through %s" % callee_name(t))
    ck.floor("I6", nsrc, 2, "assignments of best_line in the writer (empty, BestMove line)")
    args = _display_args(tb, w.term(pb))
    # alternative form: the one printed field is the coordinate text of the move, `into_notation::<_, Lan>(best_line.first())` - the writer
    # the book reply uses (its fields and lower-casing are C12's Q6)
    if len(args) == 1:
        lan_calls = [t2 for b2, t2 in live_calls(w) if callee_name(t2) == INTO_NOTATION and any("Lan" in g for g in t2.get("generics", []))]
        a0 = args[0]
        via_lan = bool(lan_calls) and any(x[0] == "call" and x[1] == INTO_NOTATION for x in walk(a0)) and \
            any(x[0] == "call" and x[1].endswith("::first") for x in walk(a0)) and any(x[0] == "var" and x[1] == bl for x in walk(a0))
        if not via_lan and a0[0] == "var":
            # the text sits in a temporary: follow its definition
            for d in tb.d.defs.get(a0[1], []):
                dt = tb.call_term(d[2]) if d[0] == "call" else tb.rvalue(d[3])
                via_lan = via_lan or (bool(lan_calls) and any(x[0] == "call" and x[1] == INTO_NOTATION for x in walk(dt)) and
                                      any(x[0] == "call" and x[1].endswith("::first") for x in walk(dt)) and any(x[0] == "var" and x[1] == bl for x in walk(dt)))
        ck.req(via_lan, "I7.writer_fields", "count", w.where(pline),
               "the writer's bestmove has one printed field and it is not into_notation::<_, Lan>(best_line.first()): %s" % show(a0)[:100])
        return
    ck.req(len(args) == 3, "I7.writer_fields", "count", w.where(pline), "the writer's bestmove has %d printed fields, expected origin, destination, promotion" % len(args))
    if len(args) == 3:
        def is_acc(t, acc):
            return t[0] == "call" and t[1] == "weechess_core::moves::Move::" + acc and \
                any(x[0] == "call" and x[1].endswith("::first") for x in walk(t)) and any(x[0] == "var" and x[1] == bl for x in walk(t))
        ck.req(is_acc(args[0], "origin"), "I7.writer_fields", "origin", w.where(pline), "first field is %s, not the origin of best_line.first()" % show(args[0])[:80])
        ck.req(is_acc(args[1], "destination"), "I7.writer_fields", "destination", w.where(pline),
               "second field is %s, not the destination of best_line.first()" % show(args[1])[:80])
        # third: a String built from the lower-cased promotion letter or empty
        third = args[2]
        defs = []
        if third[0] == "var":
            todo, seen_l = [third[1]], set()
            while todo:
                l = todo.pop()
                if l in seen_l:
                    continue
                seen_l.add(l)
                for d in tb.d.defs.get(l, []):
                    if d[0] == "call":
                        defs.append(tb.call_term(d[2]))
                    elif "use" in d[3]:
                        q = d[3]["use"].get("move") or d[3]["use"].get("copy")
                        if q is not None and not q["p"]:
                            todo.append(q["l"])
        else:
            defs = [third]
        promo = [d for d in defs if any(x[0] == "call" and x[1] == "weechess_core::moves::Move::promotion" for x in walk(d))]
        lower = [d for d in promo if any(x[0] == "call" and "to_ascii_lowercase" in x[1] for x in walk(d))]
        empty = [d for d in defs if any(x[0] == "const" and _is_empty_str(x) for x in walk(d))
                 or (d[0] == "call" and d[1] in ("alloc::string::String::new", "<alloc::string::String as core::default::Default>::default"))]
        ck.req(len(defs) == 2 and len(lower) == 1 and len(empty) == 1, "I7.writer_fields", "promotion", w.where(pline),
               "third field is not `lower-cased promotion letter or empty` (%s)" % [show(d)[:60] for d in defs][:2])


def _is_empty_str(x):
    from terms import thaw
    v = thaw(x[2])
    while isinstance(v, dict) and "$ref" in v and len(v) == 1:
        v = v["$ref"]
    return isinstance(v, dict) and v.get("$str") == ""


# ---------------------------------------------------------------- I8
def i8_exit(ck):
    ex, sh, arms = _shape(ck, "I8")
    if sh is None:
        return
    prog = ck.prog
    if "quit" in arms:
        entry = arms["quit"]
        r = cfg.reachable(ex, [entry])
        ck.req(sh.loop_head not in r, "I8.quit_leaves", "quit", ex.where(), "after `quit` the command loop can read another command")
        ck.req(bool(set(cfg.exits(ex)) & r), "I8.quit_returns", "quit", ex.where(), "the `quit` arm does not reach the return of Client::exec")
        bad = [callee_name(ex.term(b)) for b in r if not ex.is_cleanup(b) and ex.term(b)["k"] == "call" and
               ("process::exit" in callee_name(ex.term(b)) or "process::abort" in callee_name(ex.term(b)))]
        ck.req(not bad, "I8.quit_status", "quit", ex.where(), "the `quit` path calls %s" % bad[:1])
    # every return value of exec is Ok(..)
    rets = []
    for bb, blk in enumerate(ex.blocks):
        if blk.get("cleanup") or bb not in cfg.reachable_blocks(ex):
            continue
        for s in blk["stmts"]:
            if s["k"] == "assign" and s["place"]["l"] == 0:
                rets.append((s, "agg" in s["rv"] and s["rv"]["agg"].get("variant") == "Ok" and not s["place"]["p"]))
        t = blk["term"]
        if t["k"] == "call" and t["dest"]["l"] == 0:
            rets.append((t, False))
    ck.floor("I8", len(rets), 1, "assignments of Client::exec's return value")
    for s, ok in rets:
        ck.req(ok, "I8.returns_ok", "Client::exec", ex.where(s.get("line")), "Client::exec can return something other than Ok(()): the process would exit with status 1")
    # end of input: the loop head's exit edge leads to the return, not to a panic
    exit_blocks = cfg.reachable(ex, [sh.loop_head]) - set().union(*[cfg.natural_loop(ex, be) for be in cfg.back_edges(ex) if be[1] == sh.loop_head] or [set()])
    # diverging blocks that belong to a command arm (an assert inside `go`, say) are that arm's business (C14's inventory of explicit
    # panics in exec), not the end-of-input path: drop what an arm entry dominates
    dom = cfg.dominators(ex)
    arm_entries = {e for k_, e in arms.items() if isinstance(e, int)}
    exit_blocks = {b for b in exit_blocks if not (arm_entries & set(dom.get(b, ())))}
    pan = [callee_name(ex.term(b)) for b in exit_blocks if not ex.is_cleanup(b) and ex.term(b)["k"] == "call" and ex.term(b).get("target") is None]
    ck.req(not pan, "I8.eof", "loop exit", ex.where(), "after the command loop ends Client::exec can diverge (%s)" % pan[:1])
    # the CLI exits non-zero only when run() returned Err, and run() returns exec()'s result through Context::context
    m = prog.body("weechess::main")
    if m is None:
        ck.missing("I8", "weechess::main")
        return
    tbm = TermBuilder(prog, m)
    n_exit = 0
    for bb, t in live_calls(m):
        if "process::exit" in callee_name(t):
            n_exit += 1
            code = tbm.operand(t["args"][0])
            g = guards_of(prog, m, bb, tbm)
            on_err = any(c[0] == "discr" and any(x[0] == "call" and x[1] == "weechess::run" for x in walk(c)) and v == 1 for c, v in g)
            ck.req(on_err, "I8.exit_code", "main", m.where(t["line"]), "the CLI calls process::exit on a path where run() did not fail")
    run = prog.body("weechess::run")
    if run is None:
        ck.missing("I8", "weechess::run")
        return
    tbr = TermBuilder(prog, run)
    calls = live_calls(run, names=(EXEC,))
    ck.req(len(calls) == 1, "I8.cli_uci", "run", run.where(), "weechess::run calls Client::exec %d times" % len(calls))
    for bb, t in calls:
        # the result flows to _0 only through anyhow's Context::context (which maps Ok to Ok)
        d = t["dest"]["l"]
        deps = Deps(run)
        users = [(b2, t2) for b2, t2 in live_calls(run) if any(d in operand_locals(a) for a in t2["args"])]
        ok = len(users) == 1 and "Context" in callee_name(users[0][1]) and users[0][1]["dest"]["l"] == 0
        ck.req(ok, "I8.cli_result", "run", run.where(t["line"]),
               "the result of Client::exec is not returned (through .context(..)) from weechess::run: %s" % [callee_name(u[1]) for u in users][:2])
        bad = [callee_name(t2) for b2, t2 in live_calls(run) if "process::exit" in callee_name(t2) and b2 in cfg.reachable(run, [bb])]
        ck.req(not bad, "I8.cli_exit", "run", run.where(), "weechess::run exits the process after the UCI client returned")
    ck.sample({"rule": "I8", "exec_return_assignments": len(rets), "exit_calls_in_main": n_exit})


# ---------------------------------------------------------------- I9
def i9_position(ck):
    ex, sh, arms = _shape(ck, "I9")
    if sh is None or "position" not in arms:
        return
    prog = ck.prog
    tb = sh.tb
    cps = [l for l in _carriers(prog, ex, sh, ("state::State",)) if ex.local_ty(l).endswith("state::State")]
    ck.req(len(cps) == 1, "I9.carrier", "current_position", ex.where(), "expected one session local of type State, found %d" % len(cps))
    if len(cps) != 1:
        return
    cp = cps[0]
    entry = arms["position"]
    region = sh.arm_blocks(entry)
    loop_blocks = cfg.reachable(ex, [sh.loop_head])
    base_blocks, apply_blocks = [], []
    n_assign = 0

    def from_moves_tail(t):
        """t derives from the slice after the `moves` separator: .1 of unwrap_or(split_once(args, |a| a == "moves"), ..)"""
        for x in walk(t):
            if x[0] == "field" and x[2] == "1" and x[1][0] == "call" and "unwrap_or" in x[1][1] and any(y[0] == "call" and "split_once" in y[1] for y in walk(x[1])):
                return True
        return False

    ADAPTERS_OK = ("into_iter", "iter", "filter_map", "map", "collect", "deref", "copied", "cloned", "as_slice", "borrow", "as_ref", "unwrap_or")

    def check_assign(bb, line, t):
        nonlocal n_assign
        n_assign += 1
        if t[0] == "call" and t[1] == STATE_DEFAULT:
            if bb in loop_blocks:
                base_blocks.append(bb)
            ck.ok("I9.source", "default@%s" % ("loop" if bb in loop_blocks else "init"), ex.where(line))
            return
        if t[0] == "field" and t[2] == "0" and t[1][0] == "variant" and t[1][2] == "Ok" and t[1][1][0] == "call":
            c = t[1][1]
            if c[1] == FROM_NOTATION:
                # the text parsed is the join of the tokens after `fen`
                gens = None
                for b2, t2 in live_calls(ex, names=(FROM_NOTATION,)):
                    gens = t2.get("generics", [])
                okg = gens is not None and any("State" in g for g in gens) and any("Fen" in g for g in gens)
                a = c[2][0]
                joined = any(x[0] == "call" and x[1].endswith("::join") for x in walk(a))
                sep = any(x[0] == "const" and _const_str(x) == " " for x in walk(a))
                tail = any(x[0] == "agg" and "RangeFrom" in str(x[1]) for x in walk(a)) or "RangeFrom" in show(a)
                ck.req(okg and joined and sep and tail, "I9.source", "fen", ex.where(line),
                       "the FEN position is not parsed by try_from_notation::<State, Fen> from the tokens after `fen` joined by single spaces")
                base_blocks.append(bb)
                return
            if c[1] == PERFORM:
                a0, a1 = c[2][0], c[2][1]
                ok0 = a0[0] == "var" and a0[1] == cp
                ck.req(ok0, "I9.source", "moves.base", ex.where(line), "by_performing_moves is applied to %s, not to the current position" % show(a0)[:60])
                names = [x[1] for x in walk(a1) if x[0] == "call"]
                chain = []
                for n in names:
                    if "split_once" in n:
                        break
                    chain.append(n)
                odd = [n for n in chain if n.split("::")[-1] not in ADAPTERS_OK]
                ck.req(from_moves_tail(a1) and not odd, "I9.source", "moves.list", ex.where(line),
                       "the moves applied are not exactly the tokens after `moves`, each converted in order (%s)" % (odd[:2] or "not the tail of split_once"))
                apply_blocks.append(bb)
                return
        ck.fail("I9.source", "other", ex.where(line), "current_position is assigned from %s" % show(t)[:100])

    for bb, blk in enumerate(ex.blocks):
        if blk.get("cleanup") or bb not in cfg.reachable_blocks(ex):
            continue
        for s in blk["stmts"]:
            if s["k"] == "assign" and s["place"]["l"] == cp:
                if s["place"]["p"]:
                    ck.fail("I9.source", "partial", ex.where(s.get("line")), "a field of current_position is written directly")
                    continue
                check_assign(bb, s.get("line"), tb.rvalue(s["rv"]))
        t = blk["term"]
        if t["k"] == "call":
            if t["dest"]["l"] == cp:
                check_assign(t["target"] if t["target"] is not None else bb, t["line"], tb.call_term(t))
            for a in t["args"]:
                for l in operand_locals(a):
                    if ex.local_ty(l).startswith("&mut ") and cp in sh_points(ex).get(l, ()):
                        ck.fail("I9.source", "mutated", ex.where(t["line"]), "current_position is mutated in place by %s" % callee_name(t))
    ck.floor("I9", n_assign, 4, "assignments of current_position (initial, startpos, fen, moves)")
    ck.req(all(b in region for b in base_blocks + apply_blocks), "I9.only_position", "position", ex.where(),
           "current_position is assigned outside the `position` arm")
    # every successful path through `position` re-establishes the base and applies the moves; error paths print an info string
    errs = [bb for bb, line, txt in _stdout(prog, ex, region) if txt and txt.startswith("info string")]
    ends = [sh.loop_head] + cfg.exits(ex)
    ck.floor("I9", len(errs), 4, "error replies of the `position` arm")
    ck.req(bool(base_blocks) and cfg.must_pass(ex, [entry], ends, base_blocks + errs), "I9.base_reset", "position", ex.where(),
           "a path through the `position` arm keeps the old position as the base (neither startpos nor the given FEN is installed, and no error is reported)")
    ck.req(bool(apply_blocks) and cfg.must_pass(ex, [entry], ends, apply_blocks + errs), "I9.moves_applied", "position", ex.where(),
           "a path through the `position` arm does not apply the move list (and reports no error)")
    # order: base before moves
    dom = sh.dom
    for a in apply_blocks:
        ck.req(cfg.must_pass(ex, [entry], [a], base_blocks), "I9.order", "base before moves", ex.where(),
               "the moves can be applied before the base position is installed")
    # startpos / fen literals select the two bases
    for lit in ("startpos", "fen", "moves"):
        found = lit in sh.arms or any(_const_str(x) == lit for bb in region for x in _block_consts(tb, ex, bb))
        if lit == "moves":
            # the separator literal lives in the split_once closure
            found = False
            for cn in prog.closures_of(EXEC):
                cb = prog.body(cn)
                tbc = TermBuilder(prog, cb)
                for bb2, t2 in live_calls(cb):
                    for a in t2["args"]:
                        if any(x[0] == "const" and _const_str(x) == "moves" for x in walk(tbc.operand(a))):
                            found = True
        ck.req(found, "I9.keyword", lit, ex.where(), "the `position` arm no longer recognises the keyword \"%s\"" % lit)
    if "startpos" in sh.arms:
        sb = sh.arms["startpos"][0][1]
        r = cfg.reachable(ex, [sb], avoid=[sh.loop_head])
        dflt = [b for b in base_blocks if b in r and _assign_kind(ex, tb, b, cp) == "default"]
        ck.req(bool(dflt) and cfg.must_pass(ex, [sb], ends, dflt + errs), "I9.startpos", "startpos", ex.where(), "`position startpos` does not install State::default()")
    # the book lookup uses the same position
    for bb, t in live_calls(ex, names=(LOOKUP,)):
        a = tb.operand(t["args"][1])
        ck.req(a[0] == "var" and a[1] == cp, "I9.book_position", "go", ex.where(t["line"]), "the opening book is consulted with %s, not the current position" % show(a)[:60])
    ck.sample({"rule": "I9", "assignments": n_assign, "base_blocks": sorted(base_blocks), "apply_blocks": sorted(apply_blocks), "error_replies": len(errs)})


_pt_cache = {}


def sh_points(ex):
    if id(ex) not in _pt_cache:
        _pt_cache[id(ex)] = Deps(ex).points_to
    return _pt_cache[id(ex)]


def _const_str(x):
    from terms import thaw
    v = thaw(x[2])
    while isinstance(v, dict) and "$ref" in v and len(v) == 1:
        v = v["$ref"]
    if isinstance(v, dict) and "$str" in v:
        return v["$str"]
    if isinstance(v, dict) and "$char" in v:
        return v["$char"]
    if isinstance(v, str):
        return v
    return None


def _block_consts(tb, ex, bb):
    t = ex.term(bb)
    out = []
    if t["k"] == "call":
        for a in t["args"]:
            out += [x for x in walk(tb.operand(a)) if x[0] == "const"]
    return out


def _assign_kind(ex, tb, bb, cp):
    for b2, blk in enumerate(ex.blocks):
        t = blk["term"]
        if t["k"] == "call" and t["dest"]["l"] == cp and t.get("target") == bb and callee_name(t) == STATE_DEFAULT:
            return "default"
    for s in ex.stmts(bb):
        if s["k"] == "assign" and s["place"]["l"] == cp:
            t = tb.rvalue(s["rv"])
            if t[0] == "call" and t[1] == STATE_DEFAULT:
                return "default"
    return "other"


# ---------------------------------------------------------------- I10
def past_first_iteration(c, tk):
    """Does (condition, truth) say that the value yielded by the depth range is not 0 (`depth > 0`, `depth != 0`, `depth >= 1`, `0 < depth`)?"""
    if c[0] != "bin" or c[1] not in ("Gt", "Ge", "Lt", "Le", "Eq", "Ne") or not isinstance(tk, bool):
        return False
    a, b_ = c[2], c[3]

    def is_depth(x):
        return any(y[0] == "call" and is_iter_next(y[1]) and "Range" in y[1] for y in walk(x)) and x[0] in ("field", "variant")
    for dv, other, left in ((a, b_, True), (b_, a, False)):
        if not is_depth(dv) or other[0] != "const":
            continue
        k = const_value(other)
        if not isinstance(k, int) or isinstance(k, bool):
            continue
        f = lambda d: {"Gt": d > k, "Ge": d >= k, "Lt": d < k, "Le": d <= k, "Eq": d == k, "Ne": d != k}[c[1]] if left else \
            {"Gt": k > d, "Ge": k >= d, "Lt": k < d, "Le": k <= d, "Eq": k == d, "Ne": k != d}[c[1]]
        # the condition with this truth value must exclude depth 0 and admit every depth >= 1
        if f(0) != tk and all(f(d) == tk for d in (1, 2, 3, 50)):
            return True
    return False


def i10_first_iteration(ck):
    prog = ck.prog
    b = ck.body(ITER, "I10")
    tb = TermBuilder(prog, b)
    work = [bb for bb, t in live_calls(b) if "rayon::iter" in callee_name(t) and ("collect" in callee_name(t) or "from_par_iter" in callee_name(t))]
    ck.req(len(work) == 1, "I10.workers", "analyze_iterative", b.where(), "expected one parallel collect of the iteration's workers, found %d" % len(work))
    if len(work) != 1:
        return
    wb = work[0]
    dom = cfg.dominators(b)
    loops = [cfg.natural_loop(b, be) for be in cfg.back_edges(b)]
    loops = [L for L in loops if wb in L]
    ck.req(bool(loops), "I10.loop", "analyze_iterative", b.where(), "the workers are not run inside the iterative-deepening loop")
    if not loops:
        return
    L = min(loops, key=len)
    heads = [be[1] for be in cfg.back_edges(b) if wb in cfg.natural_loop(b, be) and cfg.natural_loop(b, be) == L]
    head = heads[0]
    succ = b.successors()
    n = 0
    for a in sorted(L):
        for s in succ[a]:
            if s in L or b.is_cleanup(s):
                continue
            t = b.term(a)
            if t["k"] == "call" and t.get("target") is None:
                continue
            n += 1
            if wb in dom[a]:
                ck.ok("I10.exit", "after workers", b.where(t.get("line")))
                continue
            # leaving from the loop head because the range is exhausted is the normal end
            c = tb.operand(t["discr"]) if t["k"] == "switch" else None
            range_end = c is not None and c[0] == "discr" and any(x[0] == "call" and is_iter_next(x[1]) for x in walk(c)) and a in dom[wb]
            if range_end:
                ck.ok("I10.exit", "range exhausted", b.where(t.get("line")))
                continue
            g = guards_of(prog, b, a, tb)
            # a stop that is looked at between iterations, never before the first one
            if any(past_first_iteration(c_, v_) for c_, v_ in g):
                ck.ok("I10.exit", "between iterations", b.where(t.get("line")), "only after the first iteration")
                continue
            ck.fail("I10.exit", "before workers", b.where(t.get("line")),
                    "the deepening loop can be left before the iteration's search has run (conditions: %s): a search whose stop is already pending "
                    "reports no line, so the `go` gets no bestmove" % [show(c)[:50] for c, v in g][-2:])
    ck.floor("I10", n, 2, "exits of the iterative-deepening loop")
    # the loop runs over depths 0..max: it must start at the constant 0, otherwise a request with a small depth limit can run zero
    # iterations (e.g. a warm start above the requested depth) and nothing is reported
    from terms import const_value as _cv
    rng_ok = False
    for blk in b.blocks:
        for s_ in blk["stmts"]:
            if s_["k"] == "assign" and "agg" in s_["rv"] and str(s_["rv"]["agg"].get("adt", "")).endswith("ops::range::Range"):
                r = [tb.operand(o) for o in s_["rv"]["ops"]]
                # the range consumed by the deepening loop's next()
                if len(r) == 2 and any(x[0] == "call" and "unwrap_or" in x[1] for x in walk(r[1])):
                    rng_ok = rng_ok or _cv(r[0]) == 0
                    if _cv(r[0]) != 0:
                        ck.fail("I10.first_depth", "analyze_iterative", b.where(s_.get("line")),
                                "the deepening loop starts at %s, not at 0: with a depth limit at or below that start no iteration runs and the search ends without a report" % show(r[0])[:80])
    ck.req(rng_ok, "I10.first_depth", "range", b.where(), "cannot find the deepening range `0..max_depth`")
    # every BestMove report in analyze_iterative carries a line that is checked non-empty or produced by the iteration (C03 decides its legality)
    ck.sample({"rule": "I10", "loop_blocks": len(L), "workers_block": "bb%d" % wb, "exits": n})


def i11_time_limit(ck):
    """`go ... movetime ms` (and the default cap) is enforced by a timer thread of Search::spawn: a closure that sends ControlEvent::Stop on a clone of the
    control sender once start_time.elapsed() >= limit.  It must be started on every path (not only when no depth limit was given) and its limit must be
    the search_time parameter with the default as fallback."""
    prog = ck.prog
    sp = ck.body(SPAWN, "I11")
    tb = TermBuilder(prog, sp)
    timers = []
    for cn in prog.closures_of(SPAWN):
        c = prog.body(cn)
        if c.j.get("direct_parent") != SPAWN:
            continue
        ctb = TermBuilder(prog, c)
        sends = [(bb, t) for bb, t in live_calls(c) if "mpsc::Sender" in callee_name(t) and callee_name(t).endswith("::send") and any("Stop" in show(ctb.operand(a)) for a in t["args"][1:])]
        if sends and not any(callee_name(t).endswith("::recv") for bb, t in live_calls(c)):
            timers.append((cn, c, ctb, sends))
    ck.req(len(timers) == 1, "I11.timer", "Search::spawn", sp.where(), "expected one timer closure (sends Stop, receives nothing) in Search::spawn, found %d" % len(timers))
    if len(timers) != 1:
        return
    cn, c, ctb, sends = timers[0]
    # started unconditionally
    starts = [bb for bb, t in live_calls(sp) if callee_name(t).startswith("std::thread") and callee_name(t).endswith("::spawn")
              and any(x[0] == "agg" and str(x[1]) == "closure:" + cn for x in walk(tb.operand(t["args"][0])))]
    ck.req(len(starts) == 1 and cfg.must_pass(sp, [0], cfg.exits(sp), starts), "I11.always_started", "Search::spawn", sp.where(),
           "the timer thread is not started on every path through Search::spawn: a search with that combination of limits is not stopped when its time is up")
    # its limit is search_time.unwrap_or(DEFAULT) and it compares elapsed time with it
    ups = closure_upvar_terms(prog, sp, cn, tb) or []
    names = {sp.local_name(i): i for i in range(1, sp.arg_count + 1)}
    st = names.get("search_time")
    lim = [i for i, u in enumerate(ups) if is_call(u, "Option::<T>::unwrap_or") and u[2][0] == ("param", st) and u[2][1][0] == "const"]
    ck.req(bool(lim), "I11.limit", "timer", c.where(), "the timer's limit is not `search_time.unwrap_or(<default>)` (captures: %s)" % [show(u)[:50] for u in ups])
    sends_guarded = False
    for bb, t in sends:
        for cnd, tk in guards_of(prog, c, bb, ctb):
            if cnd[0] == "bin" and cnd[1] in ("Ge", "Gt") and tk is True and any(x[0] == "call" and x[1].endswith("Instant::elapsed") for x in walk(cnd[2])) \
                    and any(is_upvar(x, i) for i in lim for x in walk(cnd[3])):
                sends_guarded = True
    ck.req(sends_guarded, "I11.deadline", "timer", c.where(), "Stop is not sent when `start_time.elapsed() >= limit`")
    # the timer polls: its loop sleeps a bounded constant time
    sl = [t for bb, t in live_calls(c) if callee_name(t).endswith("thread::functions::sleep") or callee_name(t).endswith("thread::sleep")]
    ck.req(bool(sl) and all(cfg.in_cycle(c, bb) for bb, t in live_calls(c) if t in sl), "I11.polls", "timer", c.where(), "the timer does not poll in a loop")


def i1b_dispatch_unconditional(ck):
    """Every required command word reaches its arm whatever the session's state: between reading a line and comparing its first token
    with the word, only the line / token extraction and the failed comparisons with the other words may stand.  A guard arm placed in
    front (`while searching, only accept ..`) silently swallows commands - a `ucinewgame` sent during a search would never clear anything."""
    ex, sh, arms = _shape(ck, "I1")
    if sh is None:
        return
    prog = ck.prog
    tb = sh.tb
    n = 0
    for w in REQUIRED:
        if w not in sh.arms:
            continue
        bb = sh.arms[w][0][0]      # block of the comparison with the word
        n += 1
        extra = []
        for c, tk in guards_of(prog, ex, bb, tb):
            txt = show(c)
            if c[0] == "discr":
                continue           # Option / Result discriminants of the line iterator, split_first, read results
            if c[0] == "call" and (c[1].endswith("PartialEq for str>::eq") or c[1].endswith("::eq")) and any(x[0] == "const" for x in walk(c)) and tk is False:
                continue           # an earlier word did not match
            if c[0] == "bin" and c[1] in ("Eq", "Ne") and any(x[0] == "call" and x[1].endswith("::len") for x in walk(c)):
                continue           # slice-pattern length tests of the token list
            extra.append((txt[:80], tk))
        ck.req(not extra, "I1.unconditional", w, ex.where(ex.term(bb).get("line")),
               "the arm of `%s` is reached only under %s: in the other case the command is swallowed" % (w, extra[:2]))
        # path form (a guard arm in front whose condition is a short-circuit leaves no dominating guard): once the first token is
        # extracted, every way back to the next line passes the comparison with this word, except through an earlier word's own arm
        starts = []
        for b2, blk in enumerate(ex.blocks):
            t2 = blk["term"]
            if t2["k"] == "switch" and not blk.get("cleanup"):
                c2 = tb.operand(t2["discr"])
                if c2[0] == "discr" and any(x[0] == "call" and x[1].endswith("::split_first") for x in walk(c2[1])) and b2 in cfg.dominators(ex).get(bb, ()):
                    starts += [x[1] for x in t2["cases"] if x[0] == 1] or [t2["otherwise"]]
        other_true = [(ex.term(e[0])["target"], e[1]) for w2, ents in sh.arms.items() if w2 != w for e in ents]
        if starts:
            ok_path = cfg.must_pass(ex, starts, [sh.loop_head], [bb], through_edges=other_true)
            ck.req(ok_path, "I1.unconditional", w + " (paths)", ex.where(ex.term(bb).get("line")),
                   "after the first token has been split off, the next line can be read without this token ever being compared with `%s` (and without another "
                   "command word having matched): a guard in front of the dispatch swallows the command in some session states" % w)
    ck.floor("I1", n, 7, "command words whose dispatch is checked for unconditional reach")
