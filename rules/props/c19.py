"""C19 - A search is reproducible from its seed (proof).

N1 no nondeterminism source reachable from Searcher::analyze, N2 hash containers never iterated, N3 every RNG descends from
the caller's seed, N4 single worker for the first three iterations (evaluated, not matched), N5 single producer of events,
N6 CLI seed plumbing, N7 no mutable global state."""
from facts import callee_name
from terms import TermBuilder, show, walk, fold, CannotFold, const_value, subst
from symex import decision_table
from callgraph import CallGraph, load_effects, classify
from .common import live_calls, ws_bodies, fn_of, closure_upvar_terms, is_upvar, INTERIOR_MUT, is_iter_next, resolve_upvars

LEVEL = "proof"
S = "weechess_engine::searcher::"
ANALYZE = S + "Searcher::analyze"
ITER = S + "Searcher::analyze_iterative"
REC = S + "Searcher::analyze_recursive"

# reviewed exceptions: (callee substring, caller) -> reason
REVIEWED = {
    ("hash_container_new", S + "StateHistory::new"):
        "HashMap::new seeds SipHash from the OS, but the map is only used through entry/get (N2: never iterated), so its order cannot be observed",
}
RNG_TYPES = ("rand_chacha::chacha::ChaCha8Rng",)


def run(ck):
    ck.explanation = (
        "In unsafe-free Rust a single-threaded computation that calls no nondeterministic function and touches no mutable global state is a "
        "function of its inputs. N1/N2/N7 establish that for everything reachable from Searcher::analyze (closures, fn-pointer tables, movegen, "
        "hasher, evaluator included), N3 ties every random number to the caller's seed, N4 shows (by folding the worker-count condition for "
        "iteration indices 0,1,2) that the public entry point uses one worker up to depth limit 3, N5 that all status events are produced in "
        "program order by the one thread running analyze_iterative, N6 that the CLI hands --seed through unchanged.")
    ck.trusted = ["rustc front end and MIR construction", "extractor decoding", "tables/effects.json is complete for the nondet class",
                  "rayon runs a one-element parallel iterator deterministically", "rand_chacha streams depend only on the seed",
                  "f32 arithmetic and sort_by_cached_key are deterministic on one machine"]
    ck.not_decided = ["worker scheduling above iteration index 2 (outside the property's single-worker scope)"]
    cg = CallGraph(ck.prog)
    ck.run_rule(n1_n2_effects, cg)
    ck.run_rule(n3_rngs, cg)
    ck.run_rule(n4_single_worker)
    ck.run_rule(n5_single_producer)
    ck.run_rule(n6_cli)
    ck.run_rule(n7_no_global_state, cg)
    # a search runs to its depth limit unless a Stop is sent: the control thread cancels only on Stop or when every sender is gone, and the
    # search thread keeps one sender alive until it has finished (C04's X5) - otherwise a caller dropping its sender cuts the search short
    from .c04 import x5_x6_control_and_sink
    ck.run_rule(x5_x6_control_and_sink)


def reach(ck, cg):
    a = ck.body(ANALYZE, "N1")
    seen, ext, indirect = cg.reachable([a.name])
    return a, seen, ext, indirect


def n1_n2_effects(ck, cg):
    prog = ck.prog
    a, seen, ext, indirect = reach(ck, cg)
    eff = load_effects()
    for must in (ITER, REC, S + "Searcher::quiescence_search", "weechess_core::hasher::ZobristHasher::hash",
                 "weechess_engine::eval::Evaluator::evaluate", "weechess_core::movegen::MoveGenerator::compute_psuedo_legal_moves_into",
                 "weechess_engine::eval::evaluate_piece_squares::evaluate"):
        ck.req(must in seen, "N1.reach", must.split("::")[-1], "", "%s is not in the set reachable from Searcher::analyze: call graph incomplete" % must)
    ck.floor("N1", len(seen), 150, "workspace functions reachable from Searcher::analyze")
    n_bad = 0
    for e, callers in sorted(ext.items()):
        cls = classify(e, eff)
        for c in sorted(cls & {"nondet", "hash_container_new"}):
            for caller in sorted(callers):
                b = prog.body(caller)
                key = "%s<-%s" % (e, caller)
                reviewed = None
                for (rc, rcaller), reason in REVIEWED.items():
                    if rc == c and fn_of(prog, b).name == rcaller:
                        reviewed = reason
                if reviewed:
                    ck.ok("N1.reviewed", key, b.where(), reviewed)
                    continue
                n_bad += 1
                path = cg.path_to([a.name], lambda x, e=e: x == e)
                ck.fail("N1.nondet" if c == "nondet" else "N1.hash_container", key, b.where(),
                        "%s source %s is reachable from Searcher::analyze via %s" % (c, e, " -> ".join(x.split("::")[-1] for x in (path or [caller, e]))))
    ck.ok("N1.nondet", "inventory", a.where(), "%d external callees of %d reachable workspace functions classified" % (len(ext), len(seen)))
    ck.extra["reachable_functions"] = len(seen)
    ck.extra["external_callees"] = len(ext)
    ck.sample({"rule": "N1", "reachable_workspace_fns": len(seen), "external_callees": len(ext), "indirect_calls": indirect,
               "example_external": sorted(ext)[:8]})
    # pointer-to-integer casts expose addresses
    for n in sorted(seen):
        b = prog.body(n)
        for blk in b.blocks:
            for s in blk["stmts"]:
                if s["k"] == "assign" and "cast" in s["rv"] and s["rv"]["kind"] in ("PointerExposeProvenance",):
                    ck.fail("N1.ptr2int", n, b.where(s["line"]), "pointer-to-integer cast: addresses differ between runs")
    # dyn calls are not modelled
    for n in sorted(seen):
        b = prog.body(n)
        for bb, t in live_calls(b):
            if t.get("instance") == "virtual":
                ck.fail("N1.dyn", n, b.where(t["line"]), "dynamic dispatch in reachable code is not resolved by the call graph")


def n3_rngs(ck, cg):
    prog = ck.prog
    a, seen, ext, indirect = reach(ck, cg)
    ctor = 0
    for n in sorted(seen):
        b = prog.body(n)
        tb = None
        for bb, t in live_calls(b):
            cn = callee_name(t)
            base = cn.split("::")[-1]
            if "SeedableRng" in cn or base in ("seed_from_u64", "from_seed", "from_rng", "from_entropy", "from_os_rng"):
                ctor += 1
                tb = tb or TermBuilder(prog, b)
                arg = tb.operand(t["args"][0]) if t["args"] else None
                good = False
                why = ""
                if base == "seed_from_u64" and arg is not None:
                    if b.name == ANALYZE and arg[0] == "param":
                        good = b.local_name(arg[1]) == "rng_seed" or b.local_ty(arg[1]) == "u64"
                        why = "seed parameter"
                    else:
                        good = _seed_derived(prog, b, arg, tb) and any(x[0] == "call" and x[1].endswith(("Rng::gen", "RngCore::next_u64")) for x in walk(arg))
                        why = "function of draws from a seeded generator and deterministic inputs"
                ck.req(good, "N3.ctor", "%s@%s" % (base, b.name), b.where(t["line"]),
                       "RNG constructed by %s from %s, which is not the caller's seed nor drawn from a seeded generator" % (base, show(arg) if arg else "nothing"), why)
            elif ("rand::rng::Rng::" in cn or "rand_core::RngCore::" in cn or cn.startswith("rand::Rng::")) and t["args"]:
                tb = tb or TermBuilder(prog, b)
                recv_ty = None
                a0 = t["args"][0]
                p = a0.get("copy") or a0.get("move")
                if p is not None:
                    recv_ty = b.local_ty(p["l"])
                g = t.get("generics", [])
                tys = " ".join(g) + " " + (recv_ty or "")
                if any(r in tys for r in RNG_TYPES):
                    ck.ok("N3.use", "%s@%s" % (base, b.name), b.where(t["line"]), "on ChaCha8Rng")
                elif g and g[0] in ("R", "Self") or " R" in (" " + tys):
                    # generic generator: every instantiation site must pass a seeded type
                    owner = fn_of(prog, b).name
                    insts = []
                    for c in ws_bodies(prog) + [x for x in prog.bodies.values() if x.crate == "build_script_build"]:
                        for bb2, t2 in live_calls(c, names=(owner,)):
                            insts.append((c, t2))
                    good = bool(insts) and all(any(r in " ".join(t2.get("generics", [])) for r in RNG_TYPES) for c, t2 in insts)
                    ck.req(good, "N3.use", "%s@%s" % (base, b.name), b.where(t["line"]),
                           "random draw on a generic generator %s whose instantiations are not all ChaCha8Rng" % tys, "generic R instantiated with ChaCha8Rng at %d site(s)" % len(insts))
                else:
                    ck.fail("N3.use", "%s@%s" % (base, b.name), b.where(t["line"]), "random draw on a generator of type %s (not the seeded ChaCha8Rng)" % tys)
    ck.floor("N3", ctor, 2, "RNG constructions reachable from analyze (analyze, per-worker)")


def _seed_derived(prog, b, t, tb):
    """Every leaf of the term is a draw from a seeded generator, a constant or an integer parameter (deterministic input)."""
    k = t[0]
    if k == "const":
        return True
    if k == "param":
        return b.local_ty(t[1]) in ("usize", "u64", "u32", "i32", "u8", "i64", "u16")
    if k == "call" and t[1].endswith(("Rng::gen", "RngCore::next_u64")):
        return _is_seeded_generator(prog, b, t[2][0], tb)
    if k in ("bin", "un", "cast"):
        return all(_seed_derived(prog, b, x, tb) for x in t[1:] if isinstance(x, tuple))
    return False


def _is_seeded_generator(prog, b, recv, tb):
    """recv term denotes a ChaCha8Rng that was passed in / captured (its own construction is checked separately)."""
    if recv[0] == "param":
        return any(r in b.local_ty(recv[1]) for r in RNG_TYPES)
    if recv[0] == "var":
        return any(r in b.local_ty(recv[1]) for r in RNG_TYPES)
    if is_upvar(recv):
        parent = prog.body(b.j.get("direct_parent"))
        if parent is None:
            return False
        ups = closure_upvar_terms(prog, parent, b.name)
        if ups is None:
            return False
        i = int(recv[2])
        if i < len(ups):
            u = ups[i]
            if u[0] in ("param", "var"):
                return any(r in parent.local_ty(u[1]) for r in RNG_TYPES)
    return False


def n4_single_worker(ck):
    prog = ck.prog
    it = ck.body(ITER, "N4")
    tb = TermBuilder(prog, it)
    # the worker count: Option::unwrap_or_else(max_thread_count, closure)
    sites = [(bb, t) for bb, t in live_calls(it) if callee_name(t).endswith("Option::<T>::unwrap_or_else")]
    cand = None
    for bb, t in sites:
        args = [tb.operand(x) for x in t["args"]]
        if args[0][0] in ("param", "var") and it.local_name(args[0][1]) == "max_thread_count" or args[0] == ("param", 7):
            cand = (t, args)
    if cand is None:
        ck.fail("N4", "thread_count", it.where(), "cannot find `max_thread_count.unwrap_or_else(..)` deciding the worker count")
        return
    t, args = cand
    cl = args[1]
    if not (cl[0] == "agg" and cl[1].startswith("closure:")):
        ck.fail("N4", "thread_count", it.where(t["line"]), "worker-count default is not a closure")
        return
    cname = cl[1][len("closure:"):]
    cb = ck.body(cname, "N4")
    ups = closure_upvar_terms(prog, it, cname, tb) or []
    # which upvar is the iteration index: a value taken from the `0..max_depth` range iterator
    depth_up = None
    for i, u in enumerate(ups):
        if any(x[0] == "call" and is_iter_next(x[1]) for x in walk(u)):
            depth_up = i
    ck.req(depth_up is not None or not ups, "N4.depth_source", "thread_count", it.where(t["line"]),
           "the worker-count closure does not capture the iteration index of the deepening loop (captures: %s)" % [show(u) for u in ups])
    # the range starts at 0
    rng0 = None
    for blk in it.blocks:
        for s in blk["stmts"]:
            if s["k"] == "assign" and "agg" in s["rv"] and s["rv"]["agg"].get("adt", "").endswith("ops::range::Range"):
                rng0 = [tb.operand(o) for o in s["rv"]["ops"]]
    ck.req(rng0 is not None and const_value(rng0[0]) == 0, "N4.range", "0..max_depth", it.where(), "the deepening loop is not `0..max_depth`")
    def is_index(x):
        return x[0] == "field" and x[1][0] == "variant" and x[1][1][0] == "call" and is_iter_next(x[1][1][1])

    def prepare(c):
        # express the closure's condition over the loop's iteration index: captured variables are replaced by the
        # captured terms, and the element yielded by the `0..max_depth` iterator becomes the free variable p99
        for i, u in enumerate(ups):
            c = _replace(c, ("field", ("param", 1), str(i)), u)
        return _replace_if(c, is_index, ("param", 99))

    for d in (0, 1, 2):
        rets = []
        for p in decision_table(prog, cb):
            feasible = True
            for c, taken in p.conds:
                try:
                    v = fold(prepare(c), {99: d})
                except CannotFold:
                    v = None
                if v is None:
                    continue  # undecided condition: keep the path (conservative)
                truth = taken != 0
                if bool(v) != truth:
                    feasible = False
            if feasible:
                rets.append(p.ret)
        good = bool(rets) and all(const_value(r) == 1 for r in rets)
        ck.req(good, "N4.single", "iteration index %d" % d, cb.where(),
               "at iteration index %d (depth limit %d) the worker count is %s, not the constant 1" % (d, d + 1, [show(r) for r in rets]),
               "worker count 1")
    ck.sample({"rule": "N4", "closure": cname, "paths": [([(show(c), tk) for c, tk in p.conds], show(p.ret)) for p in decision_table(prog, cb)]})
    # the public entry point passes None for the explicit worker count
    found = 0
    for b in [prog.body(n) for n in [ANALYZE] + prog.closures_of(ANALYZE)]:
        btb = TermBuilder(prog, b)
        for bb, t2 in live_calls(b, names=(ITER,)):
            found += 1
            a7 = btb.operand(t2["args"][6])
            ck.req(a7 == ("agg", "core::option::Option::None", ()), "N4.entry", "analyze->analyze_iterative", b.where(t2["line"]),
                   "Searcher::analyze passes %s as explicit worker count" % show(a7))
    ck.floor("N4", found, 1, "calls of analyze_iterative from analyze")


def _replace_if(t, pred, new):
    if isinstance(t, tuple) and t and t[0] != "const" and pred(t):
        return new
    if not isinstance(t, tuple) or not t or t[0] == "const":
        return t
    return tuple(_replace_if(x, pred, new) if isinstance(x, tuple) else x for x in t)


def _replace(t, old, new):
    if t == old:
        return new
    if not isinstance(t, tuple) or not t or t[0] == "const":
        return t
    return tuple(_replace(x, old, new) if isinstance(x, tuple) else x for x in t)


def n5_single_producer(ck):
    prog = ck.prog
    it = ck.body(ITER, "N5")
    # the callback parameter is invoked only from analyze_iterative's own body
    calls_in_main = [t for bb, t in live_calls(it) if callee_name(t).endswith("FnMut::call_mut") or callee_name(t).endswith("FnOnce::call_once") or callee_name(t).endswith("Fn::call")]
    ck.floor("N5", len(calls_in_main), 2, "invocations of the status callback in analyze_iterative")
    for cn in prog.closures_of(ITER):
        c = prog.body(cn)
        for bb, t in live_calls(c):
            n = callee_name(t)
            if n.endswith(("FnMut::call_mut", "Fn::call", "FnOnce::call_once")) and "F" in t.get("generics", [""])[0:1]:
                ck.fail("N5.worker_callback", cn, c.where(t["line"]), "the status callback is invoked from inside a worker closure: event order depends on scheduling")
        for bb, t in live_calls(c):
            if "mpsc::Sender" in callee_name(t) or "mpsc::SyncSender" in callee_name(t):
                ck.fail("N5.worker_send", cn, c.where(t["line"]), "a worker closure sends on a channel")
    ck.ok("N5.worker_callback", "workers do not report", it.where(), "%d closures of analyze_iterative scanned" % len(prog.closures_of(ITER)))
    # status events are sent only by the callback closure created in analyze
    senders = []
    for b in ws_bodies(prog, ("weechess_engine",)):
        for bb, t in live_calls(b):
            if (callee_name(t).endswith("mpsc::Sender::<T>::send") or callee_name(t).endswith("mpsc::SyncSender::<T>::send")) and "StatusEvent" in " ".join(t.get("generics", [])):
                senders.append(b.name)
    ck.req(len(senders) == 1 and senders[0].startswith(ANALYZE + "::"), "N5.single_sender", "StatusEvent sender", "",
           "StatusEvent is sent from %s (expected only the callback closure inside Searcher::analyze)" % senders, senders[0] if senders else "")


def n6_cli(ck):
    prog = ck.prog
    n = 0
    for b in ws_bodies(prog, ("weechess",)):
        tb = None
        for bb, t in live_calls(b, names=(ANALYZE,)):
            n += 1
            tb = tb or TermBuilder(prog, b)
            seed = tb.operand(t["args"][2])
            seed, home = resolve_upvars(prog, b, seed)
            good = seed[0] == "call" and seed[1].endswith("Option::<T>::unwrap_or_else") and seed[2][1][0] == "fn" and seed[2][1][1].endswith("rand::random")
            src = seed[2][0] if good else None
            named = False
            if src is not None:
                for x in walk(src):
                    if x[0] in ("var", "param") and (home.local_name(x[1]) or "") == "seed":
                        named = True
                    if x[0] == "field" and x[2] == "seed":
                        named = True
            ck.req(good and named, "N6", b.name, b.where(t["line"]),
                   "the seed handed to Searcher::analyze is %s, not `seed.unwrap_or_else(rand::random)` of the parsed --seed option" % show(seed),
                   "seed.unwrap_or_else(rand::random)")
    ck.floor("N6", n, 2, "CLI call sites of Searcher::analyze")


def n7_no_global_state(ck, cg):
    prog = ck.prog
    a, seen, ext, indirect = reach(ck, cg)
    n = 0
    for name, s in sorted(prog.statics.items()):
        n += 1
        ty = s["ty"]
        lazy = ty.startswith("lazy_static::lazy::Lazy<") or ty == name
        if lazy:
            continue
        mutable = any(m in ty for m in INTERIOR_MUT) or "static mut" in ty
        if mutable:
            from .common import write_once_static
            once, why = write_once_static(prog, name, s)
            if once:
                ck.ok("N7.static", name, "", "write-once constant table: " + why)
                continue
        ck.req(not mutable, "N7.static", name, "%s:%s" % (s["loc"]["file"].split("/repo/")[-1], s["loc"]["line"]),
               "process-wide mutable state `%s: %s`: results of one search can leak into the next one in the same process" % (name, ty))
    ck.ok("N7.static", "statics", "", "%d statics inspected (lazy_static tables are write-once with deterministic initialisers, which are in the reachable set)" % n)
    for nme in sorted(seen):
        b = prog.body(nme)
        for blk in b.blocks:
            for s in blk["stmts"]:
                if s["k"] == "assign" and "thread_local" in s["rv"]:
                    ck.fail("N7.thread_local", nme, b.where(s["line"]), "thread-local state used in reachable code")
    # lazy_static initialisers are reachable (so N1 covers them)
    inits = [x for x in seen if x.endswith("__static_ref_initialize")]
    ck.floor("N7", len(inits), 10, "lazy_static initialisers inside the reachable set")
