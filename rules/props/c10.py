"""C10 - Check detection and attacked-square sets (cache clause: proof; rest: structural clauses B1-B7).

NOT decided: that the union equals the geometric attack set for every placement (follows from C09 + B6, not re-proved)."""
from facts import callee_name
from terms import TermBuilder, return_term, show, walk, const_value, thaw
from symex import decision_table
import cfg
from .common import live_calls, guards_of, ws_bodies, fn_of, is_derived, closure_upvar_terms, resolve_upvars, is_iter_next
from .c01 import is_call, variant_name

LEVEL = "other"
BOARD = "weechess_core::board::Board"
AMAP = "weechess_core::board::AttackMap"
AG = "weechess_core::attacks::AttackGenerator::"
PLACEMENT = ("occupancy", "piece_occupancy", "colored_occupancy")


def run(ck):
    ck.explanation = (
        "B1-B4 (cache clause): Board values are assembled only in Board::new; no function writes or mutably borrows a Board's placement or cache fields, the "
        "fields are private and Board has no &mut self method; the attack-map cell is filled only by get_or_init with a closure that passes the board's own "
        "occupancy data for the same colour that selects the cell - so a cached value is a function of immutable data and answers cannot depend on query or clone "
        "order. B5: a side is in check iff its king squares meet the attacks of the opposing colour. B6: an attack map is the union over the colour's six piece "
        "kinds of per-piece attacks against the shared occupancy, minus own squares, the pawn-only set accumulating exactly under kind == Pawn. B7: the dispatch "
        "table maps every Piece discriminant to its own attack function and only pawns receive the colour. NOT decided: equality with geometry for all placements "
        "(C09 + B6).")
    ck.trusted = ["rustc front end and MIR construction", "extractor decoding", "std::cell::OnceCell::get_or_init initialises at most once", "C09 (per-piece attack sets)"]
    ck.not_decided = ["that the union of the per-piece attack sets equals the geometric attack set for every placement (C09 + B6, not re-proved)"]
    _attack_map_fn(ck.prog)
    ck.run_rule(b1_b2_frozen_board)
    ck.run_rule(b3_b4_cache)
    ck.run_rule(b5_is_check)
    ck.run_rule(b6_from_occupancy)
    ck.run_rule(b7_dispatch)
    # the slider part of every attack set is a table lookup: reader and table fill must use the same slot for the same (square, blockers) (C09's M3)
    from . import c09 as _c09
    ck.run_rule(_c09.m3_reader_writer, {})
    ck.run_rule(_c09.m9_lookups_are_pure)


def board_fields(ck):
    a = ck.adt(BOARD, "B2")
    return a["variants"][0]["fields"]


def touches_board_field(place, names):
    for e in place["p"]:
        if isinstance(e, dict) and e.get("f") in names and BOARD in e.get("of", ""):
            return e["f"]
    return None


def b1_b2_frozen_board(ck):
    prog = ck.prog
    fields = board_fields(ck)
    names = {f["name"] for f in fields}
    ck.req(all(not f["public"] for f in fields), "B2.private", "Board", "", "Board has public fields: %s" % [f["name"] for f in fields if f["public"]])
    ck.req(set(PLACEMENT) <= names and "colored_attack_map" in names, "B2.fields", "Board", "", "Board fields are %s" % sorted(names))
    cons = 0
    for b in ws_bodies(prog):
        for blk in b.blocks:
            for s in blk["stmts"]:
                if s["k"] == "assign" and "agg" in s["rv"] and s["rv"]["agg"].get("adt") == BOARD:
                    cons += 1
                    ck.req(b.name == BOARD + "::new" or is_derived(prog, b), "B1.single_constructor", b.name, b.where(s["line"]),
                           "a Board is assembled outside Board::new: its derived fields / cache may not match its piece placement")
                if s["k"] == "assign":
                    f = touches_board_field(s["place"], names)
                    if f and b.name != BOARD + "::new" and not is_derived(prog, b):
                        ck.fail("B2.write", "%s:%s" % (b.name, f), b.where(s["line"]), "field %s of an existing Board is written: placement or cache can go stale" % f)
                    rv = s["rv"]
                    if "ref" in rv and rv.get("mutbl"):
                        f = touches_board_field(rv["ref"], names)
                        if f and not is_derived(prog, b):
                            ck.fail("B2.mut_borrow", "%s:%s" % (b.name, f), b.where(s["line"]), "field %s of a Board is mutably borrowed" % f)
    ck.floor("B1", cons, 1, "Board aggregate constructions")
    # no &mut self methods on Board
    for i in prog.impls_of(self_ty=BOARD):
        if i["trait"] is not None and i["derived"]:
            continue
        for it in i["items"]:
            b = prog.body(it["path"])
            if b is not None and b.arg_count >= 1 and b.local_ty(1).startswith("&mut ") and BOARD in b.local_ty(1):
                ck.fail("B2.mut_method", it["path"], b.where(), "Board has a `&mut self` method: an existing board (and its cache) can be modified in place")
    ck.ok("B2.mut_method", "no &mut self methods", "", "%d impl blocks of Board inspected" % len(prog.impls_of(self_ty=BOARD)))
    # any function anywhere taking &mut Board
    for b in ws_bodies(prog):
        if is_derived(prog, b):
            continue
        for i in range(1, b.arg_count + 1):
            ty = b.local_ty(i)
            if ty.startswith("&mut ") and ty.endswith("board::Board"):
                ck.fail("B2.mut_param", b.name, b.where(), "function takes `&mut Board`")
    # Board::new: derived fields are computed from the given piece map; fresh empty cells
    nb = ck.body(BOARD + "::new", "B1")
    tb = TermBuilder(prog, nb)
    ag = None
    for blk in nb.blocks:
        for s in blk["stmts"]:
            if s["k"] == "assign" and "agg" in s["rv"] and s["rv"]["agg"].get("adt") == BOARD:
                ag = dict(zip(s["rv"]["agg"]["fields"], [tb.operand(o) for o in s["rv"]["ops"]]))
    good = ag is not None and ag.get("piece_occupancy") == ("param", 1)
    ck.req(good, "B1.placement", "Board::new", nb.where(), "Board::new does not store the given piece map unchanged")
    cells = ag.get("colored_attack_map") if ag else None
    fresh = cells is not None and len([x for x in walk(cells) if is_call(x, "OnceCell::<T>::new")]) == 2
    ck.req(fresh, "B1.fresh_cache", "Board::new", nb.where(), "a new Board does not start with two empty cache cells: %s" % (show(cells)[:120] if cells else "?"))
    ors = [t for bb, t in live_calls(nb) if callee_name(t).endswith("BitOrAssign>::bitor_assign")]
    okor = len(ors) == 2 and all(is_call(tb.operand(t["args"][1]), "Index<I>>::index") and tb.operand(t["args"][1])[2][0] == ("param", 1) for t in ors)
    ck.req(okor, "B1.derived_fields", "Board::new", nb.where(), "occupancy / colored_occupancy are not the unions of the given piece bitboards")
    # Clone for Board is derived (clone copies placement and whatever is cached for that very placement)
    cl = [i for i in prog.impls if i["self_ty"] == BOARD and i["trait"] == "core::clone::Clone"]
    ck.req(len(cl) == 1 and cl[0]["derived"], "B1.clone", "Board", "", "Clone for Board is not derived")


def _attack_map_fn(prog):
    """The method of Board that fills the attack cache: by name, or - after a rename - the one non-closure method of Board that calls
    get_or_init (it is then kept out of the helper inliner: the rules address it as a function)."""
    name = BOARD + "::attack_map"
    if name in prog.bodies:
        return name
    cached = getattr(prog, "_c10_attack_map_fn", None)
    if cached:
        return cached
    cands = [n for n, b in prog.bodies.items() if n.startswith(BOARD + "::") and "{closure" not in n and
             any(callee_name(t).split("::")[-1] == "get_or_init" for bb, t in live_calls(prog.raw_body(n)))]
    if len(cands) == 1:
        prog._c10_attack_map_fn = cands[0]
        prog.no_inline = set(getattr(prog, "no_inline", ())) | {cands[0]}
        prog._inlined = {}
        prog.inlined_helpers = {}
        return cands[0]
    return name


def b3_b4_cache(ck):
    prog = ck.prog
    AM = _attack_map_fn(prog)
    am = ck.body(AM, "B3")
    tb = TermBuilder(prog, am)
    goi = [t for bb, t in live_calls(am) if callee_name(t).endswith("OnceCell::<T>::get_or_init")]
    ck.req(len(goi) == 1, "B3.get_or_init", "attack_map", am.where(), "expected exactly one get_or_init, found %d" % len(goi))
    if len(goi) != 1:
        return
    a = [tb.operand(x) for x in goi[0]["args"]]
    cell, clo = a
    okcell = is_call(cell, "Index<I>>::index") and cell[2][0] == ("field", ("param", 1), "colored_attack_map") and cell[2][1] == ("param", 2)
    ck.req(okcell, "B3.cell", "attack_map", am.where(), "the cell is not self.colored_attack_map[color]: %s" % show(cell)[:120])
    if not (clo[0] == "agg" and clo[1].startswith("closure:")):
        ck.fail("B3.closure", "attack_map", am.where(), "get_or_init is not given a closure")
        return
    cname = clo[1][len("closure:"):]
    cb = ck.body(cname, "B3")
    ctb = TermBuilder(prog, cb)
    calls = live_calls(cb)
    fo = [t for bb, t in calls if callee_name(t) == AMAP + "::from_occupancy"]
    args = None
    if len(fo) == 1:
        ck.req(len(calls) <= 2, "B3.pure", cname.split("::")[-1], cb.where(), "the cache closure does more than one AttackMap::from_occupancy call: %s" % [callee_name(t).split("::")[-1] for bb, t in calls])
        args = [resolve_upvars(prog, cb, ctb.operand(x))[0] for x in fo[0]["args"]]
    elif not calls:
        # second form: the value is computed in attack_map itself and the closure only hands it over: `cell.get_or_init(|| computed)`
        crt = return_term(prog, cb)
        ups = closure_upvar_terms(prog, am, cname, tb) or []
        val = None
        if crt is not None and crt[0] == "field" and crt[1] == ("param", 1) and crt[2].isdigit() and int(crt[2]) < len(ups):
            val = ups[int(crt[2])]
        fo_am = [t for bb, t in live_calls(am) if callee_name(t) == AMAP + "::from_occupancy"]
        ok2 = val is not None and is_call(val, AMAP + "::from_occupancy") and len(fo_am) == 1
        ck.req(ok2, "B3.pure", cname.split("::")[-1], cb.where(), "the cache closure neither computes AttackMap::from_occupancy nor hands over a value computed by it")
        if ok2:
            args = list(val[2])
    else:
        ck.fail("B3.pure", cname.split("::")[-1], cb.where(), "the cache closure does something other than one AttackMap::from_occupancy call: %s" % [callee_name(t).split("::")[-1] for bb, t in calls])
    if args is not None:
        SELF, COLOR = ("param", 1), ("param", 2)
        want = [COLOR, ("field", SELF, "piece_occupancy"), ("field", SELF, "occupancy")]
        good = args[:3] == want and is_call(args[3], "Index<I>>::index") and args[3][2] == (("field", SELF, "colored_occupancy"), COLOR)
        ck.req(good, "B3.arguments", "attack_map", cb.where(),
               "the cached map is not from_occupancy(color, &self.piece_occupancy, self.occupancy, self.colored_occupancy[color]) for the colour that selects the cell: %s"
               % [show(x)[:60] for x in args], "from_occupancy(color, own piece map, full occupancy, own occupancy)")
        ck.sample({"rule": "B3", "args": [show(x)[:80] for x in args]})
    # B4: every other access to the cache field
    n = 0
    for b in ws_bodies(prog):
        if is_derived(prog, b):
            continue
        for blk in b.blocks:
            for s in blk["stmts"]:
                if s["k"] != "assign":
                    continue
                places = [s["place"]]
                rv = s["rv"]
                for k in ("ref", "rawptr", "discr"):
                    if k in rv:
                        places.append(rv[k])
                for k in ("use", "cast", "a", "b"):
                    o = rv.get(k)
                    if isinstance(o, dict):
                        p = o.get("copy") or o.get("move")
                        if p:
                            places.append(p)
                for pl in places:
                    if touches_board_field(pl, {"colored_attack_map"}):
                        n += 1
                        ck.req(fn_of(prog, b).name in (_attack_map_fn(prog), BOARD + "::new"), "B4.cell_access", b.name, b.where(s["line"]),
                               "the attack cache is accessed outside Board::new / Board::attack_map: cells can be filled with data of another placement")
        for bb, t in live_calls(b):
            if "cell::once::OnceCell" in callee_name(t) and callee_name(t).split("::")[-1] in ("set", "take", "get_mut", "get_mut_or_init", "into_inner", "try_insert") \
                    and "AttackMap" in " ".join(t.get("generics", [])):
                ck.fail("B4.cell_write", b.name, b.where(t["line"]), "%s on an attack-map cell" % callee_name(t).split("::")[-1])
    ck.floor("B4", n, 1, "accesses to Board::colored_attack_map")
    # accessors read the cell's two components
    for nm, fld in (("colored_attacks", "all"), ("colored_pawn_attacks", "pawn")):
        b = ck.body(BOARD + "::" + nm, "B4")
        rt = return_term(prog, b)
        ck.req(rt is not None and rt[0] == "field" and rt[2] == fld and is_call(rt[1], _attack_map_fn(prog)) and rt[1][2] == (("param", 1), ("param", 2)), "B4.accessor", nm, b.where(),
               "%s is not self.attack_map(color).%s" % (nm, fld))


def b5_is_check(ck):
    prog = ck.prog
    b = ck.body(BOARD + "::is_check", "B5")
    rt = return_term(prog, b)
    good = rt is not None and is_call(rt, "BitBoard::any") and is_call(rt[2][0], "BitAnd>::bitand")
    if good:
        ops = rt[2][0][2]
        kings = [o for o in ops if is_call(o, "Index<I>>::index")]
        att = [o for o in ops if is_call(o, BOARD + "::colored_attacks")]
        good = len(kings) == 1 and len(att) == 1
        if good:
            k = kings[0]
            pi = k[2][1]
            good = k[2][0] == ("field", ("param", 1), "piece_occupancy") and is_call(pi, "PieceIndex::new") and pi[2][0] == ("param", 2) and variant_name(pi[2][1]) == "King"
            a = att[0]
            good = good and a[2][0] == ("param", 1) and is_call(a[2][1], "Color::opposing_color") and a[2][1][2][0] == ("param", 2)
    ck.req(good, "B5.board", "Board::is_check", b.where(), "is_check(c) is not (kings of c & attacks of c.opposing_color()).any(): %s" % (show(rt)[:200] if rt else "?"),
           "(kings(c) & attacks(!c)).any()")
    sb = ck.body("weechess_core::state::State::is_check", "B5")
    rt = return_term(prog, sb)
    good = rt is not None and is_call(rt, BOARD + "::is_check") and rt[2] == (("field", ("param", 1), "board"), ("field", ("param", 1), "turn_to_move"))
    ck.req(good, "B5.state", "State::is_check", sb.where(), "State::is_check is not self.board.is_check(self.turn_to_move): %s" % (show(rt) if rt else "?"))


def b6_from_occupancy(ck):
    prog = ck.prog
    b = ck.body(AMAP + "::from_occupancy", "B6")
    tb = TermBuilder(prog, b)
    comp = live_calls(b, names=(AG + "compute",))
    ck.req(len(comp) == 1, "B6.compute", "from_occupancy", b.where(), "expected one AttackGenerator::compute call, found %d" % len(comp))
    if len(comp) != 1:
        return
    cbb, ct = comp[0]
    a = [tb.operand(x) for x in ct["args"]]
    pi, sqr, occ = a
    good_pi = is_call(pi, "PieceIndex::new") and pi[2][0] == ("param", 1) and any(x[0] == "const" and x[1] == "weechess_core::piece::Piece::ALL" for x in walk(pi[2][1]))
    ck.req(good_pi, "B6.pieces", "from_occupancy", b.where(ct["line"]), "attacks are not computed for PieceIndex::new(color, each of Piece::ALL): %s" % show(pi)[:160])
    ck.req(occ == ("param", 3), "B6.shared_occupancy", "from_occupancy", b.where(ct["line"]),
           "the blockers handed to the attack computation are %s, not the unmodified shared occupancy parameter" % show(occ)[:120], "blockers = shared occupancy")
    pops = [x for x in walk(sqr) if is_call(x, "BitBoard::pop")]
    src = [x for x in walk(sqr) if is_call(x, "Index<I>>::index") and x[2][0] == ("param", 2)]
    ck.req(bool(pops) or any(is_iter_next(x[1]) for x in walk(sqr) if x[0] == "call"), "B6.squares", "from_occupancy", b.where(ct["line"]), "squares are not drawn from the piece's own bitboard")
    # the copy that is popped comes from piece_occupancy[piece_index]
    srcs = []
    for blk in b.blocks:
        for s in blk["stmts"]:
            if s["k"] == "assign" and not s["place"]["p"] and b.local_ty(s["place"]["l"]).endswith("board::BitBoard"):
                srcs.append(tb.rvalue(s["rv"]))
    good_src = any(is_call(x, "Index<I>>::index") and x[2][0] == ("param", 2) and x[2][1] == pi for x in srcs)
    ck.req(good_src, "B6.own_bitboard", "from_occupancy", b.where(), "the popped bitboard is not piece_occupancy[piece_index] of the same piece index")
    pall = ck.const("weechess_core::piece::Piece::ALL", "B6")
    ck.req(sorted(x["$variant"] for x in pall) == ["Bishop", "King", "Knight", "Pawn", "Queen", "Rook"], "B6.piece_all", "Piece::ALL", "", "Piece::ALL is %s" % [x["$variant"] for x in pall])
    # accumulation: all |= attacks unconditionally, pawn |= attacks under piece == Pawn
    result = tb.call_term(ct)
    ors = [(bb, t) for bb, t in live_calls(b) if callee_name(t).endswith("BitOrAssign>::bitor_assign")]
    uncond = cond = 0
    for bb, t in ors:
        aa = [tb.operand(x) for x in t["args"]]
        if aa[1] != result:
            ck.fail("B6.accumulate", "bitor@L%d" % t["line"], b.where(t["line"]), "something other than this piece's attacks is merged in: %s" % show(aa[1])[:100])
            continue
        allg = guards_of(prog, b, bb, tb)
        g = [(c, tk) for c, tk in allg if c[0] == "call" and c[1].endswith("::eq")]
        # besides the loops' own "there is another piece / square" tests nothing may stand between a piece and its contribution:
        # a fast path that skips some pieces (boxed in, far away, ..) drops their attacks from the union
        skip = [(c, tk) for c, tk in allg if (c, tk) not in g and not (
            c[0] == "discr" and any(x[0] == "call" and (is_iter_next(x[1]) or x[1].split("::")[-1] in ("pop", "next", "first_one", "last_one")) for x in walk(c)))]
        ck.req(not skip, "B6.every_piece", "bitor@L%d" % t["line"], b.where(t["line"]),
               "a piece's attacks are merged only under %s: pieces failing that test are left out of the attack set" % [(show(c)[:70], tk) for c, tk in skip][:2])
        if not g:
            uncond += 1
        else:
            c, tk = g[0]
            isp = tk is True and any(variant_name(x) == "Pawn" for x in c[2])
            ck.req(isp and len(g) == 1, "B6.pawn_only", "from_occupancy", b.where(t["line"]), "the pawn-only set accumulates under %s" % [(show(c)[:80], tk) for c, tk in g])
            cond += 1
    ck.req(uncond == 1 and cond == 1, "B6.accumulate", "from_occupancy", b.where(), "expected one unconditional and one pawn-only accumulation (%d/%d)" % (uncond, cond))
    ands = [(bb, t) for bb, t in live_calls(b) if callee_name(t).endswith("BitAndAssign>::bitand_assign")]
    okand = len(ands) == 2 and all(tb.operand(t["args"][1]) == ("call", "<weechess_core::board::BitBoard as core::ops::bit::Not>::not", (("param", 4),)) and not cfg.in_cycle(b, bb) for bb, t in ands)
    ck.req(okand, "B6.minus_own", "from_occupancy", b.where(), "own squares are not removed from both sets after the loops (`&= !own_occupancy`)")


def b7_dispatch(ck):
    prog = ck.prog
    cm = ck.const(AG + "compute::COMPUTE_MAP", "B7")["array"]
    padt = ck.adt("weechess_core::piece::Piece", "B7")
    by_discr = {v["discr"]: v["name"] for v in padt["variants"]}
    ck.floor("B7", len(cm), 7, "COMPUTE_MAP entries")
    ck.req(len(cm) == len(by_discr), "B7.size", "COMPUTE_MAP", "", "COMPUTE_MAP has %d entries for %d Piece variants" % (len(cm), len(by_discr)))
    want = {"None": None, "Pawn": "compute_pawn_attacks", "Knight": "compute_knight_attacks", "Bishop": "compute_bishop_attacks",
            "Rook": "compute_rook_attacks", "Queen": "compute_queen_attacks", "King": "compute_king_attacks"}
    for i, ent in enumerate(cm):
        fn = ent.get("$fn")
        cb = prog.body(fn) if fn else None
        kind = by_discr.get(i)
        if cb is None:
            ck.fail("B7.entry", "COMPUTE_MAP[%d]" % i, "", "entry %d is not a workspace function (%s)" % (i, ent))
            continue
        rt = return_term(prog, cb)
        exp = want.get(kind)
        if exp is None:
            good = rt is not None and rt[0] == "const" and const_value(rt) == 0
        else:
            good = rt is not None and is_call(rt, AG + exp)
            if good:
                args = rt[2]
                # closure params: (self, colour, square, occupancy) = p1..p4
                if kind == "Pawn":
                    good = args == (("param", 3), ("param", 2))
                elif kind in ("Knight", "King"):
                    good = args == (("param", 3),)
                else:
                    good = args == (("param", 3), ("param", 4))
        ck.req(good, "B7.entry", "COMPUTE_MAP[%s]" % kind, cb.where(), "entry for Piece::%s computes %s" % (kind, show(rt)[:120] if rt else "?"), exp or "empty set")
    # compute(): COMPUTE_MAP[piece.piece()](piece.color(), square, occupancy)
    cp = ck.body(AG + "compute", "B7")
    tb = TermBuilder(prog, cp)
    ind = [blk["term"] for blk in cp.blocks if blk["term"]["k"] == "call" and "indirect" in blk["term"]]
    good = len(ind) == 1
    if good:
        f = tb.operand(ind[0]["indirect"])
        a = [tb.operand(x) for x in ind[0]["args"]]
        good = is_call(f, "Index<I>>::index") and is_call(f[2][1], "PieceIndex::piece") and f[2][1][2][0] == ("param", 1) \
            and is_call(a[0], "PieceIndex::color") and a[0][2][0] == ("param", 1) and a[1] == ("param", 2) and a[2] == ("param", 3)
    ck.req(good, "B7.dispatch", "AttackGenerator::compute", cp.where(), "compute is not COMPUTE_MAP[piece.piece()](piece.color(), square, occupancy)")
