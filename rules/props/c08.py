"""C08 - Position hash depends on, and separates, everything rule-relevant (proof).

H1 coverage / H2 no counters (influence analysis: data + control dependences of every XOR-accumulate),
H3 purity, H4 seeded keys of sufficient arity, H5 XOR-fold with loop-distinct keys, H6 single source of keys."""
import re

from facts import callee_name
from terms import TermBuilder, show, walk
import cfg
from dataflow import Deps, operand_locals
from callgraph import CallGraph, load_effects, classify
from .common import live_calls, ws_bodies, fn_of, closure_upvar_terms, is_upvar, is_iter_next

LEVEL = "proof"
HASHER = "weechess_core::hasher::ZobristHasher"
STATE = "weechess_core::state::State"
RULE_RELEVANT = ("board", "turn_to_move", "castle_rights", "en_passant_target")
COUNTERS = ("clock",)


def run(ck):
    ck.explanation = (
        "H1/H2: for every XOR-accumulate into the returned value of ZobristHasher::hash the State accessors that can influence the selected key "
        "(data and control dependences) are mapped to State fields; their union must cover placement, side to move, castling rights and en passant "
        "target and must not contain the clock. H3: hash is &self on plain data and reaches no nondeterministic or IO effect. H4: every key table "
        "is filled from the caller's Rng and has at least as many keys as its component has values. H5: the result is 0 XOR keys, and a key XORed "
        "inside a loop is selected by an index that depends on every enclosing loop's element (no key can be folded in twice and cancel). "
        "H6: every key handed to the transposition tables, the repetition history and the book is the result of ZobristHasher::hash.")
    ck.trusted = ["rustc front end and MIR construction", "extractor decoding", "independent 64-bit keys collide with chance 2^-64 (assumed)",
                  "rand_chacha::ChaCha8Rng::next_u64 yields the seeded stream"]
    ck.not_decided = ["2^-64 collision chance of independent keys (assumed)"]
    ck.run_rule(h1_h2_h5_influence)
    ck.run_rule(h3_pure)
    ck.run_rule(h4_keys)
    ck.run_rule(h6_single_source)
    # "consumers keyed by the hash": the table answers a probe only under equality of the full 64-bit key and routes by it (C15's T1, T2)
    from .c15 import t1_key_check, t2_routing, t3_never_emptied, t4_eviction
    ck.run_rule(t1_key_check)
    ck.run_rule(t2_routing)
    # ... and every stored entry sits under its own key: slots are only ever written (key, entry) together (C15's T3, T4)
    ck.run_rule(t3_never_emptied)
    ck.run_rule(t4_eviction)


# -------------------------------------------------------------------------------------------------
# A7: which State fields does a State accessor read


def state_fields(ck):
    adt = ck.adt(STATE, "H1")
    return [f["name"] for f in adt["variants"][0]["fields"]]


def accessor_reads(prog, name, _depth=0, _memo={}):
    """Set of State field names readable through `self` in method `name` ('*' = whole state / unknown)."""
    if name in _memo:
        return _memo[name]
    b = prog.body(name)
    if b is None:
        return {"*"}
    _memo[name] = set()
    out = set()
    tb = TermBuilder(prog, b)
    # direct projections of (*self).field
    for blk in b.blocks:
        for s in blk["stmts"]:
            if s["k"] != "assign":
                continue
            for pl in _places_in_rv(s["rv"]):
                f = _field_of_param(tb, pl, 1)
                if f:
                    out.add(f)
        t = blk["term"]
        if t["k"] == "call":
            for i, a in enumerate(t["args"]):
                p = a.get("copy") or a.get("move")
                if p is None:
                    continue
                f = _field_of_param(tb, p, 1)
                if f:
                    out.add(f)
                elif tb.place(p) == ("param", 1):
                    n = callee_name(t)
                    if n.startswith(STATE + "::") and i == 0 and _depth < 6:
                        out |= accessor_reads(prog, n, _depth + 1)
                    else:
                        out.add("*")
    _memo[name] = out
    return out


def _places_in_rv(rv):
    for k in ("ref", "rawptr", "discr"):
        if k in rv:
            yield rv[k]
    for k in ("use", "cast", "a", "b"):
        o = rv.get(k)
        if isinstance(o, dict):
            p = o.get("copy") or o.get("move")
            if p:
                yield p
    for o in rv.get("ops", []):
        p = o.get("copy") or o.get("move")
        if p:
            yield p


def _field_of_param(tb, place, param):
    """If `place` is (*param).field... return the first field name."""
    t = tb.place(place)
    while t[0] in ("field", "variant", "index", "cindex"):
        inner = t[1]
        if t[0] == "field" and inner == ("param", param):
            return t[2]
        t = inner
    return None


# -------------------------------------------------------------------------------------------------


def xor_sites(body):
    """Statements `acc = BitXor(acc, k)` (either operand order). Returns (bb, acc_local, key_operand, line)."""
    out = []
    for bb, blk in enumerate(body.blocks):
        for s in blk["stmts"]:
            if s["k"] == "assign" and "binop" in s["rv"] and s["rv"]["binop"] == "BitXor" and not s["place"]["p"]:
                acc = s["place"]["l"]
                a, b = s["rv"]["a"], s["rv"]["b"]
                la, lb = operand_locals(a), operand_locals(b)
                if acc in la and acc not in lb:
                    out.append((bb, acc, b, s["line"]))
                elif acc in lb and acc not in la:
                    out.append((bb, acc, a, s["line"]))
    return out


def loop_elements(body):
    """For each natural loop driven by an Iterator::next call: (loop blocks, local receiving the Some payload set)."""
    out = []
    for be in cfg.back_edges(body):
        loop = cfg.natural_loop(body, be)
        elems = set()
        for bb in loop:
            t = body.term(bb)
            if t["k"] == "call" and is_iter_next(callee_name(t)) and not t["dest"]["p"]:
                elems.add(t["dest"]["l"])
        out.append((loop, elems, be))
    return out


def collect_key_sites(h, tb, ret_locals):
    """The returned value is a XOR fold.  Accumulators may nest (a helper spliced in by the inliner accumulates its own part,
    a match yields a key or 0): every local reached from the returned one through `acc ^= k` / whole-local moves whose
    definitions are only the literal 0, XOR-accumulates or key reads is an accumulator; the leaves are the key reads.
    -> (leaf sites [(bb, acc, key operand, line)], problems [(key, message)])"""
    all_xors = xor_sites(h)
    accs_seen = set()
    sites = []
    problems = []
    work = list(ret_locals)
    while work:
        acc = work.pop()
        if acc in accs_seen:
            continue
        accs_seen.add(acc)
        for d in tb.d.defs.get(acc, []):
            if d[0] != "assign":
                problems.append(("hash@bb%d" % d[1], "the accumulator %s is overwritten by a call result" % (h.local_name(acc) or acc)))
                continue
            rv = d[3]
            if "use" in rv and "const" in rv["use"]:
                if rv["use"]["const"].get("val") != 0:
                    problems.append(("hash@bb%d" % d[1], "the accumulator is also defined by a constant other than 0"))
                continue
            if "binop" in rv and rv["binop"] == "BitXor":
                continue   # handled through all_xors below
            if "use" in rv:
                q = rv["use"].get("copy") or rv["use"].get("move")
                if q is not None and not q["p"]:
                    work.append(q["l"])      # alias (e.g. the return place of a spliced-in helper)
                    continue
                if q is not None:
                    sites.append((d[1], acc, rv["use"], h.stmts(d[1])[d[2]].get("line")))   # a key read assigned directly
                    continue
            problems.append(("hash@bb%d" % d[1], "the accumulator is also defined by something that is neither the literal 0, a key read nor an XOR-accumulate"))
        for bb, a2, key, line in all_xors:
            if a2 != acc:
                continue
            kp = key.get("copy") or key.get("move")
            kt0 = tb.operand(key)
            if kp is not None and not kp["p"] and kt0[0] == "var":
                work.append(kt0[1])          # a nested accumulator / a value with several definitions
            else:
                sites.append((bb, acc, key, line))
    return sites, problems


def returned_locals(h):
    out = set()
    for blk in h.blocks:
        for s in blk["stmts"]:
            if s["k"] == "assign" and s["place"] == {"l": 0, "p": []} and "use" in s["rv"]:
                out |= operand_locals(s["rv"]["use"])
    return out


def h1_h2_h5_influence(ck):
    prog = ck.prog
    h = ck.body(HASHER + "::hash", "H1")
    fields = state_fields(ck)
    for f in RULE_RELEVANT + COUNTERS:
        if f not in fields:
            ck.missing("H1", "State field " + f)
    deps = Deps(h)
    tb = TermBuilder(prog, h)
    # the accumulator: the local returned
    ret_locals = set()
    for blk in h.blocks:
        for s in blk["stmts"]:
            if s["k"] == "assign" and s["place"] == {"l": 0, "p": []} and "use" in s["rv"]:
                ret_locals |= operand_locals(s["rv"]["use"])
    sites, fold_problems = collect_key_sites(h, tb, ret_locals)
    for key_, msg in fold_problems:
        ck.fail("H5.fold", key_, h.where(), msg)
    if not fold_problems:
        ck.ok("H5.fold", "hash", h.where(), "every accumulator is defined only by 0, key reads and XOR-accumulates")
    ck.floor("H5", len(sites), 4, "XOR-accumulates into the returned hash (pieces, side, castling, en passant)")
    loops = loop_elements(h)
    covered = set()
    all_accessors = set()
    n_drivers = []
    for bb, acc, key, line in sites:
        kl = operand_locals(key)
        calls, closure = deps.calls_in_closure(kl, [bb])
        accs = sorted({callee_name(t) for t in calls if callee_name(t).startswith(STATE + "::")})
        flds = set()
        for a in accs:
            flds |= accessor_reads(prog, a)
        kt = tb.operand(key)
        # the key must come from a table of `self`
        table = None
        for x in walk(kt):
            if x[0] == "field" and x[1] == ("param", 1):
                table = x[2]
        ck.req(table is not None, "H5.key_from_table", "xor@L%d" % 0 if False else "xor:%s" % (table or show(kt)), h.where(line),
               "XORed value %s is not read from a key table of the hasher" % show(kt))
        covered |= flds
        all_accessors |= set(accs)
        # H5.component: the hash is a XOR of independent per-component hashes; a key whose selection mixes several
        # components (e.g. an en passant key folded in only for certain placements) is outside the form for which
        # separation is established here
        ck.req(len(flds) == 1 and "*" not in flds, "H5.component", "xor:%s" % table, h.where(line),
               "the key folded in from table %s depends on several State components %s: the per-component separation argument does not apply "
               "(if this is an intended refinement it needs its own proof)" % (table, sorted(flds)),
               "depends on %s only" % sorted(flds))
        ck.sample({"rule": "H1", "xor_site_line": line, "key": show(kt), "table": table, "state_accessors": [a.split("::")[-1] for a in accs],
                   "state_fields": sorted(flds)})
        # H5.index_form: the index selecting the key is built from loop elements and accessor results through conversions only;
        # an index assembled by arithmetic (shifts, ors, multiplications) would need an injectivity proof that is not attempted here
        data_cl0 = deps.closure(kl, [], control=False)
        arith = []
        for l in sorted(data_cl0):
            for d in tb.d.defs.get(l, []):
                if d[0] == "assign" and "binop" in d[3] and d[3]["binop"] not in ("Eq", "Ne", "Lt", "Le", "Gt", "Ge"):
                    arith.append("%s@bb%d" % (d[3]["binop"], d[1]))
        ck.req(not arith, "H5.index_form", "xor:%s" % table, h.where(line),
               "the index selecting the key from table %s is assembled by arithmetic (%s): distinct component values may select the same key "
               "(injectivity of the packing is not established)" % (table, ", ".join(arith[:4])), "index built by conversions only")
        # H1.every_square: a placement key is folded in for EVERY piece on the board: each loop around the XOR runs over a full
        # enumeration constant (Color::ALL, Piece::ALL..) or over all set bits of the piece's occupancy; an iterator obtained any other way
        # (a helper yielding "the two ends", a take(n), a filtered walk) can skip pieces, and positions differing there collide
        if "board" in flds:
            for loop, elems, be in loops:
                if bb not in loop:
                    continue
                for lb in sorted(loop):
                    lt = h.term(lb)
                    if lt["k"] == "call" and is_iter_next(callee_name(lt)) and not lt["dest"]["p"] and lt["dest"]["l"] in elems:
                        src = tb.operand(lt["args"][0])
                        while src[0] in ("ref", "deref") or (src[0] == "call" and src[1].endswith("::into_iter") and len(src[2]) == 1):
                            src = src[1] if src[0] in ("ref", "deref") else src[2][0]
                        full = (src[0] == "const" and src[1].split("::")[-1].startswith("ALL")) or (
                            src[0] == "call" and src[1].endswith("BitBoard::iter_ones") and src[2] and src[2][0][0] == "call"
                            and src[2][0][1].endswith("Board::piece_occupancy"))
                        ck.req(full, "H1.every_square", "loop@bb%d" % be[1] if False else "loop:%s" % (src[1].split("::")[-1] if src[0] in ("call", "const") else src[0]),
                               h.where(lt["line"]),
                               "a loop around the placement XOR is driven by %s, not by a full enumeration constant or by all set bits of a piece's "
                               "occupancy: pieces can be left out of the hash" % show(src)[:200], "runs over %s" % show(src)[:80])
                        n_drivers.append(lb)
        # H5: loop-distinct keys
        for loop, elems, be in loops:
            if bb in loop:
                if not elems:
                    ck.fail("H5.loop_distinct", "xor:%s" % table, h.where(line), "XOR inside a loop that is not driven by an iterator: cannot show keys are distinct per iteration")
                    continue
                dep = bool(elems & closure)
                # only the data dependences of the key count here (control dependence on the element does not make keys distinct)
                data_cl = deps.closure(kl, [], control=False)
                dep = bool(elems & data_cl)
                ck.req(dep, "H5.loop_distinct", "xor:%s@loop%d" % (table, be[1]), h.where(line),
                       "the key %s XORed inside the loop headed at bb%d does not depend on that loop's element: it can be folded in an even number of "
                       "times and cancel" % (show(kt), be[1]),
                       "key index depends on the loop element")
    ck.floor("H1.every_square", len(set(n_drivers)), 3, "loops around the placement XOR (colours, kinds, squares)")
    for f in RULE_RELEVANT:
        ck.req(f in covered or "*" in covered, "H1.coverage", f, h.where(),
               "no key folded into the hash depends on State::%s: positions differing only in %s collide deterministically "
               "(State accessors that do influence the hash: %s)" % (f, f, sorted(a.split("::")[-1] for a in all_accessors)),
               "influences a folded key")
    # H2: counters: not influencing any key, and not read at all
    whole = set()
    for bbi, t in live_calls(h):
        n = callee_name(t)
        if n.startswith(STATE + "::"):
            whole |= accessor_reads(prog, n)
    for blk in h.blocks:
        for s in blk["stmts"]:
            if s["k"] == "assign":
                for pl in _places_in_rv(s["rv"]):
                    f = _field_of_param(tb, pl, 2)
                    if f:
                        whole.add(f)
    for f in COUNTERS:
        ck.req(f not in covered and f not in whole and "*" not in whole, "H2.no_counters", f, h.where(),
               "the hash reads State::%s (move counters must not affect the hash)" % f, "not read")
    # state passed whole to a non-accessor?
    for bbi, t in live_calls(h):
        n = callee_name(t)
        for i, a in enumerate(t["args"]):
            p = a.get("copy") or a.get("move")
            if p is not None and tb.place(p) == ("param", 2) and not n.startswith(STATE + "::"):
                ck.fail("H2.opaque_use", n, h.where(t["line"]), "the whole State is handed to %s: its read-set is not analysed" % n)


def h3_pure(ck):
    prog = ck.prog
    h = ck.body(HASHER + "::hash", "H3")
    cg = CallGraph(prog)
    eff = load_effects()
    seen, ext, indirect = cg.reachable([h.name])
    bad = 0
    for e, callers in sorted(ext.items()):
        cls = classify(e, eff) & {"nondet", "blocking", "io_output"}
        if cls:
            bad += 1
            ck.fail("H3.effect", e, prog.body(sorted(callers)[0]).where(), "%s effect reachable from ZobristHasher::hash via %s" % ("/".join(sorted(cls)), sorted(callers)[0]))
    ck.req(not indirect, "H3.indirect", "hash", h.where(), "indirect call reachable from hash")
    ck.ok("H3.effect", "no nondet/blocking/io callee reachable", h.where(), "%d workspace fns, %d external callees inspected" % (len(seen), len(ext)))
    adt = ck.adt(HASHER, "H3")
    from .common import INTERIOR_MUT
    bad = [f["ty"] for f in adt["variants"][0]["fields"] if any(m in f["ty"] for m in INTERIOR_MUT)]
    ck.req(not bad, "H3.plain_data", "ZobristHasher", "", "interior mutability in the hasher: %s" % bad)
    ck.req(h.locals[1]["ty"].startswith("&") and not h.locals[1]["ty"].startswith("&mut"), "H3.shared_self", "hash", h.where(), "hash takes %s" % h.locals[1]["ty"])
    # no statics with interior mutability are touched
    for n in seen:
        b = prog.body(n)
        for blk in b.blocks:
            for s in blk["stmts"]:
                if s["k"] == "assign" and "thread_local" in s["rv"]:
                    ck.fail("H3.static", n, b.where(s["line"]), "thread-local state used under hash")


KEY_COUNTS = {
    # component -> minimal number of independent keys
    "turn_to_move": 2, "castle_rights": 4, "en_passant_target": 8, "board": 64 * 12,
}


def parse_arraymap(ty):
    """ArrayMap<K1, ArrayMap<K2, u64>> -> ([K1, K2], 'u64')"""
    keys = []
    t = ty
    while t.startswith("weechess_core::utils::ArrayMap<"):
        inner = t[len("weechess_core::utils::ArrayMap<"):-1]
        depth = 0
        for i, c in enumerate(inner):
            if c == "<":
                depth += 1
            elif c == ">":
                depth -= 1
            elif c == "," and depth == 0:
                keys.append(inner[:i].strip())
                t = inner[i + 1:].strip()
                break
        else:
            break
    return keys, t


def h4_keys(ck):
    prog = ck.prog
    w = ck.body(HASHER + "::with", "H4")
    adt = ck.adt(HASHER, "H4")
    fields = adt["variants"][0]["fields"]
    tb = TermBuilder(prog, w)
    # the returned aggregate
    agg = None
    for blk in w.blocks:
        for s in blk["stmts"]:
            if s["k"] == "assign" and "agg" in s["rv"] and s["rv"]["agg"].get("adt") == HASHER:
                agg = s
    if agg is None:
        ck.fail("H4", "with", w.where(), "ZobristHasher::with does not build the hasher by a struct expression")
        return
    others = 0
    for b in ws_bodies(prog):
        for blk in b.blocks:
            for s in blk["stmts"]:
                if s["k"] == "assign" and "agg" in s["rv"] and s["rv"]["agg"].get("adt") == HASHER and b.name != w.name:
                    derived = (fn_of(prog, b).j.get("impl_of") or {}).get("derived", False)
                    if not derived:
                        others += 1
                        ck.fail("H4.single_constructor", b.name, b.where(s["line"]), "ZobristHasher built outside ZobristHasher::with")
    rng_param = 1

    def from_rng(closure_name, depth=0):
        """closure (possibly nested from_fn closures) returns rng.next_u64()/gen() of the captured rng"""
        c = prog.body(closure_name)
        if c is None or depth > 4:
            return False
        ctb = TermBuilder(prog, c)
        rets = [d for d in ctb.d.defs.get(0, [])]
        if len(rets) != 1 or rets[0][0] != "call":
            return False
        t = rets[0][2]
        n = callee_name(t)
        args = [ctb.operand(a) for a in t["args"]]
        if n.endswith("RngCore::next_u64") or n.endswith("Rng::gen") or n.endswith("RngCore::next_u32"):
            return n.endswith("next_u64") and is_upvar(args[0])
        if n.endswith("ArrayMap::<I, T>::from_fn") and args and args[0][0] == "agg" and args[0][1].startswith("closure:"):
            return from_rng(args[0][1][len("closure:"):], depth + 1)
        return False

    sizes = {}
    for cn in ("Color", "Side", "File", "Rank", "Square", "PieceIndex", "Piece"):
        for k, c in prog.consts.items():
            if k.endswith("::%s as weechess_core::utils::ArrayKey>::COUNT" % cn):
                sizes[k.split(" as ")[0].lstrip("<")] = c["value"]
    for i, f in enumerate(fields):
        op = agg["rv"]["ops"][i]
        t = tb.operand(op)
        good = t[0] == "call" and t[1].endswith("ArrayMap::<I, T>::from_fn") and t[2][0][0] == "agg" and t[2][0][1].startswith("closure:") \
            and from_rng(t[2][0][1][len("closure:"):])
        if good:
            ups = closure_upvar_terms(prog, w, t[2][0][1][len("closure:"):], tb)
            good = ups is not None and ("param", rng_param) in ups
        ck.req(good, "H4.seeded", f["name"], w.where(agg["line"]), "key table %s is not filled with next_u64() of the caller's generator (%s)" % (f["name"], show(t)),
               "from_fn(|_| rng.next_u64())")
        keys, leaf = parse_arraymap(f["ty"])
        n = 1
        for k in keys:
            n *= sizes.get(k, 0)
        ck.extra.setdefault("key_tables", {})[f["name"]] = {"index_types": keys, "keys": n}
        ck.req(leaf == "u64" and n > 0, "H4.shape", f["name"], "", "key table %s has type %s: not a table of u64 keys with known index sizes" % (f["name"], f["ty"]))
    # arity per component: some XOR site influenced by the component must read a table with enough keys
    h = ck.body(HASHER + "::hash", "H4")
    deps = Deps(h)
    htb = TermBuilder(prog, h)
    best = {}
    for bb, acc, key, line in collect_key_sites(h, htb, returned_locals(h))[0]:
        kt = htb.operand(key)
        table = None
        for x in walk(kt):
            if x[0] == "field" and x[1] == ("param", 1):
                table = x[2]
        if table is None:
            continue
        calls, _ = deps.calls_in_closure(operand_locals(key), [bb])
        flds = set()
        for t in calls:
            n = callee_name(t)
            if n.startswith(STATE + "::"):
                flds |= accessor_reads(prog, n)
        nkeys = ck.extra.get("key_tables", {}).get(table, {}).get("keys", 0)
        for comp in flds & set(KEY_COUNTS):
            if nkeys > best.get(comp, (0, None))[0]:
                best[comp] = (nkeys, table)
    for comp in sorted(KEY_COUNTS):
        nkeys, table = best.get(comp, (0, None))
        ck.req(nkeys >= KEY_COUNTS[comp], "H4.arity", comp, h.where(),
               "component %s is keyed from at most %d keys (table %s), needs >= %d" % (comp, nkeys, table, KEY_COUNTS[comp]),
               "%d keys in %s >= %d" % (nkeys, table, KEY_COUNTS[comp]))


SINKS = [
    # (callee, index of the Hash argument, floor of call sites)
    ("weechess_engine::searcher::TranspositionTableAccess::find", 1, 3),
    ("weechess_engine::searcher::TranspositionTableAccess::insert", 1, 2),
    ("weechess_engine::searcher::StateHistory::increment", 1, 1),
    ("weechess_engine::searcher::StateHistory::lookup", 1, 1),
    ("weechess_core::book::Book::find", 1, 1),
]


def hash_provenance(prog, body, op, tb):
    """True if the operand's value is (on all definitions) the result of ZobristHasher::hash."""
    t = tb.operand(op)
    return _is_hash_term(prog, body, t, tb, 0)


def _is_hash_term(prog, body, t, tb, depth):
    if t[0] == "call" and t[1] == HASHER + "::hash":
        return True
    if t[0] == "param" and depth < 4 and "{closure" not in body.name and not body.j.get("public", False):
        # a private wrapper hands its parameter on: every call site of the wrapper must pass a hash (and there must be one)
        sites = []
        for cb in prog.bodies.values():
            if cb.crate not in ("weechess_core", "weechess_engine", "weechess"):
                continue
            raw = prog.raw_body(cb.name) if hasattr(prog, "raw_body") else cb
            for bb, ct in live_calls(raw, names=(body.name,)):
                sites.append((raw, ct))
        if not sites:
            return False
        for raw, ct in sites:
            if t[1] - 1 >= len(ct["args"]):
                return False
            ctb = TermBuilder(prog, raw)
            if not _is_hash_term(prog, raw, ctb.operand(ct["args"][t[1] - 1]), ctb, depth + 1):
                return False
        return True
    if t[0] == "var" and depth < 4:
        ds = tb.d.defs.get(t[1], [])
        if not ds:
            return False
        ok = True
        for d in ds:
            if d[0] == "call":
                ok = ok and callee_name(d[2]) == HASHER + "::hash"
            else:
                sub = TermBuilder(prog, body).rvalue(d[3])
                ok = ok and _is_hash_term(prog, body, sub, tb, depth + 1)
        return ok
    return False


def h6_single_source(ck):
    prog = ck.prog
    total = 0
    for callee, idx, floor in SINKS:
        n = 0
        for b in ws_bodies(prog):
            tb = None
            for bb, t in live_calls(b, names=(callee,)):
                n += 1
                tb = tb or TermBuilder(prog, b)
                good = hash_provenance(prog, b, t["args"][idx], tb)
                ck.req(good, "H6", "%s<-%s" % (callee.split("::")[-2] + "::" + callee.split("::")[-1], b.name), b.where(t["line"]),
                       "the key %s handed to %s is not the result of ZobristHasher::hash" % (show(tb.operand(t["args"][idx])), callee.split("::")[-1]),
                       "key = hasher.hash(state)")
        ck.floor("H6", n, floor, "call sites of " + callee.split("::")[-2] + "::" + callee.split("::")[-1])
        total += n
    # Book::append: keys come out of BookParser::parse_movetext, whose items are (hasher.hash(state), move)
    pm = None
    for name in prog.closures_of("weechess_core::book::BookParser::parse_movetext"):
        b = prog.body(name)
        for bb, t in live_calls(b, names=(HASHER + "::hash",)):
            pm = (b, t)
    ck.req(pm is not None, "H6.book_write", "parse_movetext", "", "BookParser::parse_movetext does not compute its keys with ZobristHasher::hash")
    hashes = sum(len(live_calls(b, names=(HASHER + "::hash",))) for b in ws_bodies(prog) + [x for x in prog.bodies.values() if x.crate == "build_script_build"])
    ck.floor("H6", hashes, 5, "call sites of ZobristHasher::hash")
    # no other function produces a `Hash` from a State (e.g. an incremental variant)
    # private helpers that are only ever called from ZobristHasher::hash (or from other such helpers) are parts of that one
    # function (they are spliced into it by the helper inliner and analysed there), not second hash functions
    callers = {}
    for b in list(prog.bodies.values()):
        for bb, t in live_calls(b):
            callers.setdefault(callee_name(t), set()).add(fn_of(prog, b).name if b.j["kind"] == "Closure" else b.name)
    part_of_hash = {HASHER + "::hash"}
    grew = True
    while grew:
        grew = False
        for nme, cs in callers.items():
            if nme not in part_of_hash and nme in prog.bodies and cs and cs <= part_of_hash and not prog.bodies[nme].j.get("public", False):
                part_of_hash.add(nme)
                grew = True
    for b in ws_bodies(prog):
        if b.j["kind"] == "Closure" or b.name in part_of_hash:
            continue
        ret = b.locals[0]["ty"]
        takes_state = any(STATE in b.locals[i]["ty"] for i in range(1, b.arg_count + 1))
        in_hasher = b.name.startswith(HASHER + "::")
        if ret == "u64" and (takes_state or in_hasher) and not (b.j.get("impl_of") or {}).get("derived", False):
            ck.fail("H6.second_hash", b.name, b.where(), "a second function computes a u64 key from a State / inside the hasher: keys must come from ZobristHasher::hash only")
