"""C05 - No-move positions score as mate or draw (structural clauses V1-V3).

NOT decided: that positions with a legal move score strictly inside the terminal thresholds (numeric bound on the heuristic sum)."""
from facts import callee_name
from terms import TermBuilder, return_term, show, walk, fold, CannotFold, const_value
import cfg
from .common import live_calls, guards_of, path_guards, return_sources
from .c01 import is_call, variant_name, conjuncts

LEVEL = "other"
EV = "weechess_engine::eval::"
STATE = "weechess_core::state::State::"
BOARD = "weechess_core::board::Board::"


def run(ck):
    ck.explanation = (
        "V1: in Evaluator::evaluate every path from entry to the heuristic part passes either through the not-empty edge of the full legal move generation "
        "for the evaluated state, or through a not-in-check edge taken only when the king has an empty neighbour square outside the opponent's attack map "
        "(chess fact: not in check, such a square is a legal king move; in check it may lie on the checking ray behind the king). The shortcut's square set is "
        "checked conjunct by conjunct (king pattern of the side to move's king, !occupancy, !attacks of the other colour). V2: the mate value is returned only "
        "under no-legal-move and in-check, negative for the side to move and positive for the other perspective, stalemate returns the constant 0. "
        "V3: mate_in_ply is non-increasing in ply and never below the terminal threshold (monotonicity abstract interpretation + folding), and is_terminal "
        "uses the same thresholds. NOT decided: heuristic scores stay inside the thresholds.")
    ck.trusted = ["rustc front end and MIR construction", "extractor decoding", "C01 (legal move list), C10 (check detection, attack sets)"]
    ck.not_decided = ["a numeric bound keeping heuristic scores of non-terminal positions inside the terminal thresholds"]
    ck.run_rule(v1_bypass)
    ck.run_rule(v2_terminal_values)
    ck.run_rule(v3_mate_score)
    from .c04 import x3_poll_placement
    ck.run_rule(x3_poll_placement)
    ck.run_rule(v4_no_mate_score_outside_the_terminal_test)
    ck.run_rule(v5_threshold_scale)
    # whether a move is legal is decided on its successor position: the successor function (C02's U rules)
    from . import c02 as _c02
    _ctx = {}
    for _r in (_c02.collect_sets, _c02.u0_u4_piece_updates, _c02.u1_rook_relocation, _c02.u2_rights, _c02.u3_u5_state_fields):
        ck.run_rule(_r, _ctx)
    # the terminal test relies on the legal move list being complete and filtered (shared rule of C01)
    from .c01 import g4_legality_filter
    ck.run_rule(g4_legality_filter)
    # mate is told from stalemate by State::is_check: its wiring (C10 B5) is necessary here
    from .c10 import b5_is_check, b6_from_occupancy, b7_dispatch
    ck.run_rule(b5_is_check)
    # "in check" and the legality filter read the attack map; "no legal move" is the emptiness of the generated list: the map's
    # construction (C10 B6/B7) and the generators' coverage and pawn rules (C01 G1-G3, G7-G9)
    ck.run_rule(b6_from_occupancy)
    ck.run_rule(b7_dispatch)
    from .c01 import g1_coverage, g2_g3_generators, g7_g8_g9_pawns
    ck.run_rule(g1_coverage)
    ck.run_rule(g2_g3_generators)
    ck.run_rule(g7_g8_g9_pawns)


def names_of(b):
    return {b.local_name(i): i for i in range(1, b.arg_count + 1)}


def v1_bypass(ck):
    prog = ck.prog
    b = ck.body(EV + "Evaluator::evaluate", "V1")
    tb = TermBuilder(prog, b)
    n = names_of(b)
    sp = n.get("state")
    if sp is None:
        ck.missing("V1", "parameter `state` of Evaluator::evaluate")
        return
    S = ("param", sp)
    # heuristic region: indirect calls through the evaluator's function table
    heur = [bb for bb, blk in enumerate(b.blocks) if blk["term"]["k"] == "call" and "indirect" in blk["term"] and not blk.get("cleanup")]
    ck.floor("V1", len(heur), 2, "heuristic term calls (through self.fns)")
    ok_edges = []
    bypass_edges = []
    shortcut_terms = []
    for bb, blk in enumerate(b.blocks):
        t = blk["term"]
        if t["k"] != "switch":
            continue
        c = tb.operand(t["discr"])
        zero = [x[1] for x in t["cases"] if x[0] == 0]
        if is_call(c, "MoveSet::is_empty") and is_call(c[2][0], "MoveGenerator::compute_legal_moves") and c[2][0][2][0] == S:
            ok_edges += [(bb, z) for z in zero]
        if is_call(c, STATE + "is_check") and c[2][0] == S:
            g = guards_of(prog, b, bb, tb)
            sc = [gc for gc, tk in g if tk is True and is_call(gc, "BitBoard::any")]
            if sc:
                shortcut_terms.append((bb, sc[0]))
                bypass_edges += [(bb, z) for z in zero]
        # the same shortcut nested the other way round: `if !in_check { if free_squares.any() { .. } }`
        if is_call(c, "BitBoard::any"):
            g = guards_of(prog, b, bb, tb)
            if any(tk is False and is_call(gc, STATE + "is_check") and gc[2][0] == S for gc, tk in g):
                shortcut_terms.append((bb, c))
                true_edges = [x[1] for x in t["cases"] if x[0] == 1] or ([t["otherwise"]] if zero else [])
                bypass_edges += [(bb, e) for e in true_edges]
    ck.floor("V1", len(ok_edges), 1, "`compute_legal_moves(state).is_empty()` decisions")
    # no value at all may be returned without that decision (or the accepted shortcut) having been taken: an early return
    # under any other condition would score terminal positions satisfying it as ordinary ones
    decided = list(ok_edges) + list(bypass_edges)
    for bb, blk in enumerate(b.blocks):
        t = blk["term"]
        if t["k"] == "switch":
            c = tb.operand(t["discr"])
            if is_call(c, "MoveSet::is_empty") and is_call(c[2][0], "MoveGenerator::compute_legal_moves") and c[2][0][2][0] == S:
                decided += [(bb, x[1]) for x in t["cases"]] + [(bb, t["otherwise"])]
    early = cfg.must_pass(b, [0], cfg.exits(b), [], through_edges=decided)
    ck.req(early, "V1.no_early_return", "Evaluator::evaluate", b.where(),
           "Evaluator::evaluate can return a value before deciding whether the side to move has a legal move (and not through the `king has a free square "
           "and is not in check` shortcut): a checkmate or stalemate satisfying that early condition is not scored as mate / draw")
    good = cfg.must_pass(b, [0], heur, [], through_edges=ok_edges + bypass_edges)
    ck.req(good, "V1.bypass", "Evaluator::evaluate", b.where(),
           "the heuristic part can be reached without generating the legal moves and without the `not in check` edge: a checkmated side with a seemingly free "
           "king square is scored as an ordinary position", "every path: legal moves exist, or (king_has_move and not in check)")
    # the shortcut square set
    for bb, sc in shortcut_terms:
        cj = conjuncts(sc[2][0])
        king = occ = att = False
        extra = []
        for c in cj:
            if is_call(c, "AttackGenerator::compute_king_attacks"):
                sqr = c[2][0]
                ks = [x for x in walk(sqr) if is_call(x, BOARD + "piece_occupancy")]
                if ks:
                    pi = ks[0][2][1]
                    king = is_call(pi, "PieceIndex::new") and is_call(pi[2][0], STATE + "turn_to_move") and pi[2][0][2][0] == S and variant_name(pi[2][1]) == "King" \
                        and is_call(ks[0][2][0], STATE + "board") and ks[0][2][0][2][0] == S
            elif is_call(c, "Not>::not") and is_call(c[2][0], BOARD + "occupancy") and is_call(c[2][0][2][0], STATE + "board") and c[2][0][2][0][2][0] == S:
                occ = True
            elif is_call(c, "Not>::not") and is_call(c[2][0], BOARD + "colored_attacks"):
                col = c[2][0][2][1]
                other = (is_call(col, "Color as core::ops::bit::Not>::not") or is_call(col, "Color::opposing_color")) and is_call(col[2][0], STATE + "turn_to_move") and col[2][0][2][0] == S
                att = other and is_call(c[2][0][2][0], STATE + "board") and c[2][0][2][0][2][0] == S
            else:
                extra.append(show(c)[:80])
        ck.req(king, "V1.shortcut_king", "king_has_move", b.where(), "the shortcut does not start from the king pattern of the side to move's king")
        ck.req(occ, "V1.shortcut_empty", "king_has_move", b.where(),
               "the shortcut does not require the neighbour square to be EMPTY (`& !board.occupancy()`): a square holding a protected enemy piece is outside the "
               "attack map but is not a legal king move (conjuncts: %s)" % [show(c)[:60] for c in cj])
        ck.req(att, "V1.shortcut_safe", "king_has_move", b.where(), "the shortcut does not exclude squares attacked by the other colour")
        ck.req(not extra and len(cj) == 3, "V1.shortcut_form", "king_has_move", b.where(), "unrecognised conjuncts in the shortcut's square set: %s" % extra)
        ck.sample({"rule": "V1", "shortcut": show(sc)[:300]})
    # `!color` is the opposing colour
    nb = prog.body("<weechess_core::color::Color as core::ops::bit::Not>::not")
    if nb is not None:
        rt = return_term(prog, nb)
        ck.req(rt is not None and is_call(rt, "Color::opposing_color") and rt[2][0] == ("param", 1), "V1.color_not", "!Color", nb.where(), "`!color` is not color.opposing_color()")


def v2_terminal_values(ck):
    prog = ck.prog
    b = ck.body(EV + "Evaluator::evaluate", "V2")
    tb = TermBuilder(prog, b)
    n = names_of(b)
    S = ("param", n.get("state"))
    P = ("param", n.get("perspective"))
    Dp = ("param", n.get("depth"))
    MATE = EV + "Evaluation::mate_in_ply"
    found = {"neg": 0, "pos": 0, "draw": 0}
    by_block = {}
    for v_, bb_, line_ in return_sources(b, tb):
        by_block.setdefault(bb_, []).append((v_, line_))
    for bb in sorted(by_block):
        rets = by_block[bb]
        for v, line in rets:
            g = guards_of(prog, b, bb, tb)
            if rets and any(is_call(x, MATE) for v_, _l in rets for x in walk(v_)) or any(const_value(v_) is not None for v_, _l in rets):
                g = g + [x for x in path_guards(prog, b, bb) if x not in g]

            def has(pred, truth):
                return any(pred(c) and tk is truth for c, tk in g)
            empty = has(lambda c: is_call(c, "MoveSet::is_empty") and is_call(c[2][0], "MoveGenerator::compute_legal_moves") and c[2][0][2][0] == S, True)
            check = has(lambda c: is_call(c, STATE + "is_check") and c[2][0] == S, True)

            def is_persp(c):
                return c[0] == "call" and c[1].endswith("::eq") and set(c[2]) == {("call", STATE + "turn_to_move", (S,)), P}
            mate_t = [x for x in walk(v) if is_call(x, MATE)]
            if mate_t:
                neg = is_call(v, "Neg>::neg")
                ck.req(mate_t[0][2][0] == Dp, "V2.ply", "mate@L%d" % line, b.where(line), "mate score is computed for %s, not for the depth parameter" % show(mate_t[0][2][0]))
                ck.req(empty and check, "V2.only_when_mated", "mate@L%d" % line, b.where(line),
                       "a mate score is returned without the guards `no legal move` and `in check` (guards: %s)" % [(show(c)[:50], tk) for c, tk in g])
                if neg:
                    found["neg"] += 1
                    ck.req(has(is_persp, True), "V2.sign", "mate@L%d" % line, b.where(line), "the negative mate score is not returned exactly when the side to move is the perspective")
                else:
                    found["pos"] += 1
                    ck.req(has(is_persp, False), "V2.sign", "mate@L%d" % line, b.where(line), "the positive mate score is not returned exactly when the side to move is NOT the perspective")
            elif empty and const_value(v) is not None:
                found["draw"] += 1
                ck.req(const_value(v) == 0, "V2.stalemate", "draw@L%d" % line, b.where(line), "a position without legal moves that is not mate returns %s, not 0" % show(v))
    ck.req(found["neg"] == 1 and found["pos"] == 1, "V2.both_signs", "Evaluator::evaluate", b.where(), "expected one negative and one positive mate return, found %s" % found)
    ck.req(found["draw"] >= 1, "V2.stalemate_present", "Evaluator::evaluate", b.where(), "no constant-zero return for stalemate found")
    # callers evaluate the node from the side to move with the node's ply
    rec = ck.body("weechess_engine::searcher::Searcher::analyze_recursive", "V2")
    rtb = TermBuilder(prog, rec)
    for bb, t in live_calls(rec, names=(EV + "Evaluator::evaluate",)):
        a = [rtb.operand(x) for x in t["args"]]
        rn = names_of(rec)
        good = a[1] == ("param", rn["game_state"]) and is_call(a[2], STATE + "turn_to_move") and a[2][2][0] == a[1] and a[3] == ("param", rn["current_depth"])
        ck.req(good, "V2.caller", "analyze_recursive", rec.where(t["line"]), "analyze_recursive evaluates (%s) instead of (game_state, game_state.turn_to_move(), current_depth)" % ", ".join(show(x)[:50] for x in a[1:]))


def monotonicity(t, var):
    """'const' | 'inc' | 'dec' | None of term t in parameter var (integer arithmetic without overflow)."""
    def comb(a, b):
        if a is None or b is None:
            return None
        if a == "const":
            return b
        if b == "const":
            return a
        return a if a == b else None

    def flip(a):
        return {"inc": "dec", "dec": "inc"}.get(a, a)
    k = t[0]
    if t == var:
        return "inc"
    if k in ("const", "param"):
        return "const"
    if k == "cast":
        return monotonicity(t[2], var)
    if k == "field" or (k == "agg" and len(t[2]) == 1):
        return monotonicity(t[1] if k == "field" else t[2][0], var)
    if k == "bin":
        a, b = monotonicity(t[2], var), monotonicity(t[3], var)
        if t[1] in ("Add", "AddWithOverflow"):
            return comb(a, b)
        if t[1] in ("Sub", "SubWithOverflow"):
            return comb(a, flip(b))
        if t[1] in ("Mul", "MulWithOverflow"):
            def cv(x):
                try:
                    return fold(x, {})
                except CannotFold:
                    return None
            ca, cb = cv(t[2]), cv(t[3])
            if a == "const" and isinstance(ca, int):
                return b if ca >= 0 else flip(b)
            if b == "const" and isinstance(cb, int):
                return a if cb >= 0 else flip(a)
            if a == "const" and b == "const":
                return "const"
            return None
        return None
    if k == "call" and (t[1].endswith("Ord::max") or t[1].endswith("Ord::min") or t[1].endswith("::max") or t[1].endswith("::min")):
        return comb(monotonicity(t[2][0], var), monotonicity(t[2][1], var))
    return None


def v3_mate_score(ck):
    prog = ck.prog
    b = ck.body(EV + "Evaluation::mate_in_ply", "V3")
    tb = TermBuilder(prog, b, inline_depth=2)
    rt = tb.local(0)
    pos = ck.const(EV + "Evaluation::POS_INF", "V3")
    neg = ck.const(EV + "Evaluation::NEG_INF", "V3")
    from terms import scalar
    POS, NEG = scalar(pos), scalar(neg)
    ck.req(POS is not None and NEG == -POS and POS > 0, "V3.thresholds", "POS_INF/NEG_INF", "", "thresholds are %s / %s (NEG_INF must be -POS_INF)" % (POS, NEG))
    m = monotonicity(rt, ("param", 1))
    ck.req(m in ("dec", "const"), "V3.monotone", "mate_in_ply", b.where(), "the mate score %s is not non-increasing in ply (analysis result: %s)" % (show(rt)[:200], m), "non-increasing in ply")

    def res(name):
        if name.endswith("Ord::max"):
            return max
        if name.endswith("Ord::min"):
            return min
        return None
    vals = []
    try:
        for ply in list(range(0, 41)) + [100, 1000, 2 ** 31 - 1]:
            vals.append((ply, fold(rt, {1: ply}, res)))
    except CannotFold as e:
        ck.fail("V3.fold", "mate_in_ply", b.where(), "cannot fold the mate score term: %s" % e)
        return
    ck.req(all(v >= POS for _, v in vals), "V3.at_least_threshold", "mate_in_ply", b.where(), "mate score falls below the terminal threshold: %s" % [x for x in vals if x[1] < POS][:3], ">= %d on %d plies" % (POS, len(vals)))
    ck.req(all(vals[i][1] >= vals[i + 1][1] for i in range(len(vals) - 1)), "V3.non_increasing", "mate_in_ply", b.where(), "mate score increases with ply: %s" % vals[:12])
    ck.req(vals[0][1] > vals[5][1], "V3.prefers_faster", "mate_in_ply", b.where(), "faster mates are not preferred (ply 0: %s, ply 5: %s)" % (vals[0][1], vals[5][1]))
    ck.sample({"rule": "V3", "term": show(rt), "values": vals[:12]})
    it = ck.body(EV + "Evaluation::is_terminal", "V3")
    itb = TermBuilder(prog, it)
    consts = sorted(const_value(x) for bb, t in live_calls(it) for a in t["args"] for x in [itb.operand(a)] if const_value(x) is not None)
    ck.req(consts == [NEG, POS], "V3.is_terminal", "is_terminal", it.where(), "is_terminal compares with %s, thresholds are %s/%s" % (consts, NEG, POS))
    # the search's mate cut-off uses the same threshold
    iti = ck.body("weechess_engine::searcher::Searcher::analyze_iterative", "V3")
    ttb = TermBuilder(prog, iti)
    cut = [t for bb, t in live_calls(iti) if callee_name(t).endswith("PartialOrd::ge") and any(const_value(ttb.operand(a)) == POS for a in t["args"])]
    ck.req(len(cut) >= 1, "V3.search_cutoff", "analyze_iterative", iti.where(), "the iterative deepening loop does not stop on best_eval >= POS_INF")


def v4_no_mate_score_outside_the_terminal_test(ck):
    """The search scores its leaves and move-less nodes by calling the evaluator, which decides mate / draw itself from the legal move list.
    A mate score produced inside the search functions (directly or by a spliced helper that skips that decision) must sit under the same
    guards as in the evaluator - the position has no legal move and its side is in check - otherwise a node the search merely believes to
    be move-less (e.g. by its node counter) is scored as mate although it has moves."""
    prog = ck.prog
    n = 0
    for fn in ("weechess_engine::searcher::Searcher::analyze_recursive", "weechess_engine::searcher::Searcher::quiescence_search"):
        b = ck.body(fn, "V4")
        tb = TermBuilder(prog, b)
        names = names_of(b)
        sp = [i for i in range(1, b.arg_count + 1) if b.local_ty(i).endswith("state::State") or b.local_ty(i).endswith("&weechess_core::state::State")]
        S = ("param", sp[0]) if sp else None
        for bb, t in live_calls(b, names=(EV + "Evaluation::mate_in_ply",)):
            n += 1
            g = guards_of(prog, b, bb, tb)
            g = g + [x for x in path_guards(prog, b, bb) if x not in g]
            empty = any(tk is True and is_call(c, "is_empty") and any(is_call(x, "MoveGenerator::compute_legal_moves") for x in walk(c)) for c, tk in g)
            check = any(tk is True and is_call(c, STATE + "is_check") for c, tk in g)
            # the search's own move-less test - its node counter did not move over the move loop - is as good as the empty list when every
            # visited node counts itself before anything can return (C04's X3, run just before this rule)
            cnt = [i for i in range(1, b.arg_count + 1) if b.local_name(i) == "nodes_searched"]
            counter_eq = bool(cnt) and any(tk is True and c[0] == "bin" and c[1] == "Eq" and any(x == ("param", cnt[0]) for x in walk(c)) for c, tk in g)
            x3_ok = not any(o.rule.startswith("X3.") and o.status != "ok" for o in ck.obs)
            empty = empty or (counter_eq and x3_ok)
            ck.req(empty and check, "V4.search_mate_guard", "%s@L%s" % (fn.split("::")[-1], t.get("line")), b.where(t.get("line")),
                   "a mate score is produced inside the search without the guards `no legal move` (the generated legal move list is empty) and `in check`: "
                   "guards are %s" % [(show(c)[:50], tk) for c, tk in g][-3:])
    ck.ok("V4.search_mate_guard", "search functions", "", "%d mate-score construction(s) inside analyze_recursive / quiescence_search, each under the terminal guards" % n)



def v5_threshold_scale(ck):
    """A position with a legal move must score strictly inside the mate thresholds.  The heuristic terms work in pawn units (hundreds);
    only the terminal branch of Evaluator::evaluate and the search itself deal in the threshold scale.  A term function that reaches for
    POS_INF / NEG_INF / mate_in_ply builds a "known win" bonus on that scale and can lift an ordinary position over the threshold."""
    prog = ck.prog
    from callgraph import CallGraph
    table = ck.const(EV + "EVALUATORS", "V5")
    fns = [x["$fn"] for row in table for x in row if isinstance(x, dict) and "$fn" in x]
    cg = CallGraph(prog)
    seen, _e, _i = cg.reachable(fns, fn_values=[])
    scope = sorted(n for n in seen if n.startswith(EV) or n.startswith("<" + EV))
    n = 0
    import json as _json
    for name in scope:
        b = prog.raw_body(name)
        if b is None:
            continue
        n += 1
        txt = _json.dumps(b.j["blocks"])
        hits = [k for k in ("Evaluation::POS_INF", "Evaluation::NEG_INF", "Evaluation::mate_in_ply") if (EV + k) in txt]
        ck.req(not hits, "V5.threshold_scale", name.split("::")[-2] if "{closure" not in name else name.split("::")[-1], b.where(),
               "a heuristic term uses %s: a bonus on the scale of the mate threshold can make a position with legal moves score as terminal" % hits)
    ck.floor("V5", n, 4, "functions in the heuristic terms' scope")
    # the same on the level of numbers: with full material the heuristic sum already comes within a tenth of the threshold, so no single
    # constant bonus / penalty of a term may reach POS_INF / 10 (the terms' constants are pawn fractions and small distances)
    pv = ck.const(EV + "Evaluation::POS_INF", "V5")
    pos_inf = pv.get("0") if isinstance(pv, dict) else pv
    from terms import thaw
    for name in scope:
        b = prog.raw_body(name)
        if b is None:
            continue
        tb = TermBuilder(prog, b)
        big = []
        for blk in b.blocks:
            if blk.get("cleanup"):
                continue
            terms_ = [tb.rvalue(s_["rv"]) for s_ in blk["stmts"] if s_["k"] == "assign"]
            if blk["term"]["k"] == "call":
                terms_ += [tb.operand(a) for a in blk["term"]["args"]]
            for t_ in terms_:
                for x in walk(t_):
                    v = None
                    if x[0] == "const":
                        raw = thaw(x[2])
                        while isinstance(raw, dict) and "$ref" in raw and len(raw) == 1:
                            raw = raw["$ref"]
                        if isinstance(raw, dict) and str(raw.get("$ty", "")).endswith("eval::Evaluation") and isinstance(raw.get("0"), int):
                            v = raw["0"]
                    elif x[0] == "agg" and str(x[1]).endswith("eval::Evaluation::Evaluation") and len(x[2]) == 1 and isinstance(const_value(x[2][0]), int):
                        v = const_value(x[2][0])
                    if v is not None and isinstance(pos_inf, int) and abs(v) * 10 >= pos_inf:
                        big.append(v)
        ck.req(not big, "V5.bonus_magnitude", name.split("::")[-2] if "{closure" not in name else name.split("::")[-1], b.where(),
               "a heuristic term uses a constant score of %s (mate threshold %s): with enough material on the board the sum crosses the threshold and a "
               "position with legal moves is scored as terminal" % (sorted(set(big)), pos_inf))
