"""C01 - Legal move generation (structural clauses G1-G10; set equality with FIDE rules is NOT decided).

Each rule is a necessary condition whose breakage changes the generated move set for some position."""
from facts import callee_name
from terms import TermBuilder, return_term, show, walk, fold, CannotFold, const_value, thaw, scalar
from symex import decision_table
from evalfn import FnModel
import cfg
import geometry as G
from .common import live_calls, is_iter_next, impl_fn, ws_bodies, closure_upvar_terms, is_upvar

LEVEL = "other"
MG = "weechess_core::movegen::MoveGenerator::"
HELPER = "weechess_core::movegen::GameStateHelper::<'_>::"
PLM = "weechess_core::movegen::PseudoLegalMove"
MOVE = "weechess_core::moves::Move::"
STATE = "weechess_core::state::State::"
BOARD = "weechess_core::board::Board::"
BB = "weechess_core::board::BitBoard"
AG = "weechess_core::attacks::AttackGenerator::"


def run(ck):
    ck.explanation = (
        "Decides the tables and wiring of move generation, each a necessary condition of the property: G1 all six per-kind generators run once into a "
        "cleared buffer; G2 in each non-pawn generator the selected piece kind, the attack function and the kind given to the move builder agree; "
        "G3 destination sets have the required conjuncts (sliders & !own; leapers & (opponent | vacancy); king & !opponent attacks); G4 every candidate "
        "goes through try_as_legal_move and only its Some payload is emitted, and Some is returned only when the mover's king is outside the attack set "
        "of the side to move after the move; G5 castle path/check masks, king origins/destinations evaluated for the 4 (side, colour) pairs equal "
        "geometry and are wired to occupancy resp. opponent attacks under the matching right; G6 colour-direction tables; G7 promotion set; "
        "G8 pawn capture offset pairs; G9 en passant candidates; G10 perft wiring. NOT decided: equality of the generated set with the FIDE rules over "
        "all positions, perft counts.")
    ck.trusted = ["rustc front end and MIR construction", "extractor decoding", "C09 (attack tables) and C20 (move encoding) hold"]
    ck.not_decided = ["set equality of generated moves with FIDE rules over all positions", "perft node counts"]
    ck.run_rule(g1_coverage)
    ck.run_rule(g2_g3_generators)
    ck.run_rule(g4_legality_filter)
    ck.run_rule(g5_castling)
    ck.run_rule(g6_colour_tables)
    ck.run_rule(g7_g8_g9_pawns)
    ck.run_rule(g10_perft)
    ck.run_rule(g11_list_handover)
    # the king, knight and pawn move lists are read off C09's leaper tables and offsets: their geometry (C09's M7, M8, leaper tables)
    from . import c09 as _c09
    _c9 = {}
    ck.run_rule(_c09.m7_offsets_and_masks, _c9)
    ck.run_rule(_c09.m8_no_wrap)
    ck.run_rule(_c09.leaper_tables, _c9)
    # perft counts and castling availability along a line of play also rest on the successor function: the rights / board updates of C02
    from . import c02 as _c02
    _ctx = {}
    for _r in (_c02.collect_sets, _c02.u0_u4_piece_updates, _c02.u1_rook_relocation, _c02.u2_rights, _c02.u3_u5_state_fields):
        ck.run_rule(_r, _ctx)
    # king safety, castling through attack and the legality filter read the opponent's attack map: its construction (C10's B6, B7)
    from . import c10 as _c10
    ck.run_rule(_c10.b6_from_occupancy)
    ck.run_rule(_c10.b7_dispatch)


def is_call(t, suffix):
    return isinstance(t, tuple) and t and t[0] == "call" and t[1].endswith(suffix)


def variant_name(t):
    if t[0] == "agg" and "::" in t[1]:
        return t[1].split("::")[-1]
    if t[0] == "const":
        v = thaw(t[2])
        while isinstance(v, dict) and "$ref" in v and len(v) == 1:
            v = v["$ref"]
        if isinstance(v, dict) and "$variant" in v:
            return v["$variant"]
    return None


# ------------------------------------------------------------------------------------------------ G1


GENERATORS = ["compute_pawn_moves", "compute_knight_moves", "compute_king_moves", "compute_bishop_moves", "compute_rook_moves", "compute_queen_moves"]


def g1_coverage(ck):
    prog = ck.prog
    b = ck.body(MG + "compute_psuedo_legal_moves_into", "G1")
    paths = decision_table(prog, b)
    ck.req(len(paths) == 1, "G1.single_path", "compute_psuedo_legal_moves_into", b.where(), "pseudo-legal generation has %d paths: some generators may be skipped" % len(paths))
    for p in paths:
        calls = p.calls()
        names = [c[1] for c in calls]
        first = names[0] if names else ""
        ck.req(first.endswith("Vec::<T, A>::clear") and calls[0][2][0] == ("param", 2), "G1.clear", "compute_psuedo_legal_moves_into", b.where(),
               "the result buffer is not cleared first (first call: %s)" % first)
        for g in GENERATORS:
            n = sum(1 for c in calls if c[1] == MG + g and c[2][1] == ("param", 2))
            ck.req(n == 1, "G1.generator", g, b.where(), "%s is called %d time(s) with the result buffer on a generation path (expected exactly once)" % (g, n))
        extra = [n for n in names if n.startswith(MG) and n[len(MG):] not in GENERATORS]
        ck.req(not extra, "G1.unknown_generator", "compute_psuedo_legal_moves_into", b.where(), "unrecognised generator(s) %s: not covered by the per-kind rules" % extra)
        # helper wraps the same state
        for c in calls:
            if c[1].startswith(MG + "compute_") and c[1][len(MG):] in GENERATORS:
                h = c[2][0]
                ck.req(h == ("agg", "weechess_core::movegen::GameStateHelper::GameStateHelper", (("param", 1),)), "G1.same_state", c[1].split("::")[-1], b.where(),
                       "generator receives %s instead of a helper around the state parameter" % show(h))


# ------------------------------------------------------------------------------------------------ G2 / G3


KINDS = {"compute_knight_moves": ("Knight", "compute_knight_attacks"), "compute_king_moves": ("King", "compute_king_attacks"),
         "compute_bishop_moves": ("Bishop", "compute_bishop_attacks"), "compute_rook_moves": ("Rook", "compute_rook_attacks"),
         "compute_queen_moves": ("Queen", "compute_queen_attacks")}


def conjuncts(t):
    """Flatten nested BitBoard `&` into a list of operands."""
    if is_call(t, "BitAnd>::bitand"):
        return conjuncts(t[2][0]) + conjuncts(t[2][1])
    return [t]


def g2_g3_generators(ck):
    prog = ck.prog
    for gen, (kind, attack_fn) in sorted(KINDS.items()):
        b = ck.body(MG + gen, "G2")
        tb = TermBuilder(prog, b)
        ex = live_calls(b, names=(HELPER + "expand_moves",))
        if len(ex) != 1:
            ck.fail("G2", gen, b.where(), "expected exactly one expand_moves call, found %d" % len(ex))
            continue
        t = ex[0][1]
        a = [tb.operand(x) for x in t["args"]]
        origin, dests, pk = a[1], a[2], a[3]
        k3 = variant_name(pk)
        # movers: own_piece(Piece::K1)
        own = [x for x in walk(origin) if is_call(x, HELPER + "own_piece")]
        k1 = variant_name(own[0][2][1]) if own else None
        # attack function
        atk = [x for x in walk(dests) if x[0] == "call" and x[1].startswith(AG + "compute_") and x[1].endswith("_attacks")]
        k2 = atk[0][1].split("::")[-1] if atk else None
        ck.req(k1 == kind and k3 == kind and k2 == attack_fn, "G2.kind", gen, b.where(t["line"]),
               "%s selects %s pieces, computes %s and labels the moves %s (all three must be %s)" % (gen, k1, k2, k3, kind), "%s / %s / %s" % (k1, k2, k3))
        # origin of the attack = origin of the moves = a square of the mover bitboard
        ck.req(bool(atk) and atk[0][2][0] == origin and any(is_call(x, "BitBoard::iter_ones") for x in walk(origin)), "G2.origin", gen, b.where(t["line"]),
               "attack origin and move origin differ, or the origin is not a set bit of the movers' bitboard")
        cj = conjuncts(dests)
        shown = [show(c)[:80] for c in cj]
        if kind in ("Bishop", "Rook", "Queen"):
            occ_ok = bool(atk) and is_call(atk[0][2][1], BOARD + "occupancy")
            not_own = any(is_call(c, "Not>::not") and is_call(c[2][0], HELPER + "own_pieces") for c in cj)
            ck.req(occ_ok, "G3.slider_blockers", gen, b.where(t["line"]), "slider attacks are not computed against the full board occupancy: %s" % (show(atk[0][2][1]) if atk else "?"))
            ck.req(not_own and len(cj) == 2, "G3.slider_dests", gen, b.where(t["line"]), "slider destinations are not `attacks & !own_pieces` (conjuncts: %s)" % shown)
        else:
            tgt = any(is_call(c, "BitOr>::bitor") and {x[1].split("::")[-1] for x in c[2] if x[0] == "call"} == {"opposing_pieces", "vacancy"} for c in cj)
            ck.req(tgt, "G3.leaper_dests", gen, b.where(t["line"]), "destinations are not `pattern & (opposing_pieces | vacancy)` (conjuncts: %s)" % shown)
            if kind == "King":
                safe = any(is_call(c, "Not>::not") and is_call(c[2][0], HELPER + "opposing_attacks") for c in cj)
                ck.req(safe and len(cj) == 3, "G3.king_safety", gen, b.where(t["line"]), "king destinations lack `& !opposing_attacks` (conjuncts: %s)" % shown)
            else:
                ck.req(len(cj) == 2, "G3.leaper_dests_extra", gen, b.where(t["line"]), "unexpected extra conjunct in knight destinations: %s" % shown)
        ck.sample({"rule": "G2/G3", "generator": gen, "kind": [k1, k2, k3], "dest_conjuncts": shown})
    # helper definitions
    defs = {
        "own_pieces": lambda rt: is_call(rt, BOARD + "colored_occupancy") and is_call(rt[2][1], STATE + "turn_to_move"),
        "opposing_pieces": lambda rt: is_call(rt, BOARD + "colored_occupancy") and is_call(rt[2][1], "Color::opposing_color") and is_call(rt[2][1][2][0], STATE + "turn_to_move"),
        "opposing_attacks": lambda rt: is_call(rt, BOARD + "colored_attacks") and is_call(rt[2][1], "Color::opposing_color") and is_call(rt[2][1][2][0], STATE + "turn_to_move"),
        "own_piece": lambda rt: is_call(rt, BOARD + "piece_occupancy") and is_call(rt[2][1], HELPER + "to_own_piece") and rt[2][1][2][1] == ("param", 2),
        "to_own_piece": lambda rt: is_call(rt, "PieceIndex::new") and is_call(rt[2][0], STATE + "turn_to_move") and rt[2][1] == ("param", 2),
        "own_castle_rights": lambda rt: is_call(rt, STATE + "castle_rights") and is_call(rt[2][1], STATE + "turn_to_move"),
    }
    for nm, pred in sorted(defs.items()):
        hb = ck.body(HELPER + nm, "G3")
        rt = return_term(prog, hb)
        ck.req(rt is not None and pred(rt), "G3.helper", nm, hb.where(), "GameStateHelper::%s is %s" % (nm, show(rt) if rt else "?"))
    # expand_moves: capture iff piece_at(target) is Some; mover piece = to_own_piece(kind); origin/target forwarded
    em = ck.body(HELPER + "expand_moves", "G3")
    etb = TermBuilder(prog, em)
    caps = live_calls(em, names=(MOVE + "by_capturing",))
    movs = live_calls(em, names=(MOVE + "by_moving",))
    good = len(caps) == 1 and len(movs) == 1
    if good:
        ca = [etb.operand(x) for x in caps[0][1]["args"]]
        ma = [etb.operand(x) for x in movs[0][1]["args"]]
        good = ca[0] == ma[0] and is_call(ca[0], HELPER + "to_own_piece") and ca[1] == ma[1] == ("param", 2) and ca[2] == ma[2] \
            and any(x == ("param", 3) for x in walk(ca[2])) and is_call(ca[3], "PieceIndex::piece") and any(is_call(x, BOARD + "piece_at") and x[2][1] == ca[2] for x in walk(ca[3]))
    ck.req(good, "G3.expand", "expand_moves", em.where(), "expand_moves does not build by_capturing(piece, origin, target, piece_at(target)) / by_moving(piece, origin, target)")


# ------------------------------------------------------------------------------------------------ G4


def g4_legality_filter(ck):
    prog = ck.prog
    b = ck.body(MG + "compute_legal_moves_into", "G4")
    tb = TermBuilder(prog, b)
    TRY = PLM + "::try_as_legal_move"
    # (a) pushes into legal_moves carry the Some payload of try_as_legal_move(candidate, state)
    pushes = []
    for bb, t in live_calls(b):
        if callee_name(t).endswith("Vec::<T, A>::push"):
            a = [tb.operand(x) for x in t["args"]]
            if a[0] == ("field", ("param", 2), "legal_moves"):
                pushes.append((bb, t, a))
    # second accepted form: buffer.legal_moves.extend(candidates.iter().filter_map(|m| m.try_as_legal_move(state)))
    ext_form = False
    if not pushes:
        exts = []
        for bb, t in live_calls(b):
            if callee_name(t).endswith("::extend") and len(t["args"]) == 2:
                a = [tb.operand(x) for x in t["args"]]
                if a[0] == ("field", ("param", 2), "legal_moves"):
                    exts.append((bb, t, a))
        if len(exts) == 1:
            bb, t, a = exts[0]
            src = a[1]
            fm = src if is_call(src, "Iterator::filter_map") else None
            good = fm is not None and any(x == ("field", ("param", 2), "psuedo_legal_moves") for x in walk(fm[2][0])) \
                and not any(x[0] == "call" and x[1].split("::")[-1] in ("skip", "take", "step_by", "filter", "skip_while", "take_while") for x in walk(fm[2][0]))
            cl_ok = False
            if good and fm[2][1][0] == "agg" and str(fm[2][1][1]).startswith("closure:"):
                cname = fm[2][1][1][len("closure:"):]
                cb = prog.body(cname)
                crt = return_term(prog, cb) if cb is not None else None
                ups = closure_upvar_terms(prog, b, cname, tb) or []
                st_up = [i for i, u in enumerate(ups) if u == ("param", 1)]
                cl_ok = crt is not None and is_call(crt, TRY) and crt[2][0] == ("param", 2) and any(is_upvar(crt[2][1], i) for i in st_up)
            ck.req(good and cl_ok, "G4.emit_only_legal", "compute_legal_moves_into", b.where(t["line"]),
                   "the legal buffer is not extended with exactly filter_map(|m| m.try_as_legal_move(state)) over all of buffer.psuedo_legal_moves")
            gen = live_calls(b, names=(MG + "compute_psuedo_legal_moves_into",))
            goodg = len(gen) == 1
            if goodg:
                ga = [tb.operand(x) for x in gen[0][1]["args"]]
                goodg = ga[0] == ("param", 1) and ga[1] == ("field", ("param", 2), "psuedo_legal_moves") and gen[0][0] in cfg.dominators(b).get(bb, ())
            ck.req(goodg, "G4.generated_for_state", "compute_legal_moves_into", b.where(), "candidates are not generated for the same state into the iterated buffer")
            ext_form = True
    if not ext_form:
        ck.floor("G4", len(pushes), 1, "pushes into the legal move buffer")
    for bb, t, a in pushes:
        v = a[1]
        good = v[0] == "field" and v[1][0] == "variant" and v[1][2] == "Some" and is_call(v[1][1], TRY) and v[1][1][2][1] == ("param", 1)
        ck.req(good, "G4.emit_only_legal", "compute_legal_moves_into", b.where(t["line"]),
               "a move is pushed into the legal buffer that is not the Some payload of try_as_legal_move(candidate, state): %s" % show(v)[:200])
    # (b) every candidate of the loop reaches try_as_legal_move
    heads = [(bb, t) for bb, t in live_calls(b) if is_iter_next(callee_name(t))]
    tries = [bb for bb, t in live_calls(b, names=(TRY,))]
    ck.req(ext_form or (len(heads) == 1 and len(tries) == 1), "G4.loop", "compute_legal_moves_into", b.where(), "expected one candidate loop and one try_as_legal_move call (%d / %d)" % (len(heads), len(tries)))
    if not ext_form and len(heads) == 1 and len(tries) == 1:
        hb = heads[0][0]
        sw = b.term(heads[0][1]["target"])
        some_target = [c[1] for c in sw["cases"] if c[0] == 1]
        ok = bool(some_target) and cfg.must_pass(b, some_target, [hb], tries)
        ck.req(ok, "G4.every_candidate", "compute_legal_moves_into", b.where(),
               "a pseudo-legal candidate can be skipped without being tested by try_as_legal_move: legal moves can go missing")
        # the iterated collection is the pseudo-legal buffer that compute_psuedo_legal_moves_into(state, ..) filled
        src = tb.operand(heads[0][1]["args"][0])
        ck.req(any(x == ("field", ("param", 2), "psuedo_legal_moves") for x in walk(src)), "G4.candidates", "compute_legal_moves_into", b.where(), "the loop does not iterate buffer.psuedo_legal_moves")
        gen = live_calls(b, names=(MG + "compute_psuedo_legal_moves_into",))
        good = len(gen) == 1
        if good:
            ga = [tb.operand(x) for x in gen[0][1]["args"]]
            good = ga[0] == ("param", 1) and ga[1] == ("field", ("param", 2), "psuedo_legal_moves")
        ck.req(good, "G4.generated_for_state", "compute_legal_moves_into", b.where(), "candidates are not generated for the same state into the iterated buffer")
    # (c) try_as_legal_move
    tr = ck.body(TRY, "G4")
    somes = 0
    for p in decision_table(prog, tr):
        r = p.ret
        if not (r[0] == "agg" and r[1].endswith("Option::Some")):
            continue
        somes += 1
        mr = r[2][0]
        nxt = None
        good_payload = mr[0] == "agg" and mr[1].endswith("MoveResult::MoveResult") and mr[2][0] == ("field", ("param", 1), "0")
        if good_payload:
            nxt = mr[2][1]
            good_payload = (is_call(nxt, "Result::<T, E>::unwrap") or is_call(nxt, "Result::<T, E>::expect")) and is_call(nxt[2][0], STATE + "by_performing_move") and nxt[2][0][2] == (("param", 2), ("field", ("param", 1), "0"))
        ck.req(good_payload, "G4.payload", "try_as_legal_move", tr.where(), "the legal result is not MoveResult(self.0, by_performing_move(state, self.0)): %s" % show(mr)[:200])
        guard = None
        for c, taken in p.conds:
            if is_call(c, "BitBoard::none") and taken != 0:
                guard = c[2][0]
        good = False
        if guard is not None and nxt is not None and is_call(guard, "BitAnd>::bitand"):
            ops = list(guard[2])
            kp = [o for o in ops if is_call(o, BOARD + "piece_occupancy")]
            at = [o for o in ops if is_call(o, BOARD + "colored_attacks")]
            if kp and at:
                k = kp[0]
                a_ = at[0]
                king_ok = is_call(k[2][0], STATE + "board") and k[2][0][2][0] == nxt and is_call(k[2][1], "PieceIndex::new") \
                    and is_call(k[2][1][2][0], STATE + "turn_to_move") and k[2][1][2][0][2][0] == ("param", 2) and variant_name(k[2][1][2][1]) == "King"
                att_ok = is_call(a_[2][0], STATE + "board") and a_[2][0][2][0] == nxt and is_call(a_[2][1], STATE + "turn_to_move") and a_[2][1][2][0] == nxt
                good = king_ok and att_ok
        ck.req(good, "G4.king_not_attacked", "try_as_legal_move", tr.where(),
               "a path returns Some without the guard `(mover's king in the successor & attacks of the side to move in the successor).none()` (guard: %s)"
               % (show(guard)[:200] if guard is not None else "none"), "Some only if the mover's king is not attacked after the move")
    ck.floor("G4", somes, 1, "Some-returning paths of try_as_legal_move")
    # (d) compute_legal_moves = buffer of compute_legal_moves_into
    cl = ck.body(MG + "compute_legal_moves", "G4")
    ctb = TermBuilder(prog, cl)
    into = live_calls(cl, names=(MG + "compute_legal_moves_into",))
    ck.req(len(into) == 1 and ctb.operand(into[0][1]["args"][0]) == ("param", 1), "G4.wrapper", "compute_legal_moves", cl.where(), "compute_legal_moves does not delegate to compute_legal_moves_into(state, ..)")


# ------------------------------------------------------------------------------------------------ G5


def index_models(ck):
    """{type name: function value -> index} for ArrayKey types used in castle tables, from their Index::from impls."""
    prog = ck.prog
    out = {}
    side = impl_fn(prog, "weechess_core::utils::Index", "From<weechess_core::board::Side>", "from")
    sb = ck.body(side or "Index::from(Side)", "G5")
    adt = ck.adt("weechess_core::board::Side", "G5")
    names = {v["discr"]: v["name"] for v in adt["variants"]}
    smap = {}
    for p in decision_table(prog, sb):
        if len(p.conds) == 1 and p.conds[0][0] == ("discr", ("param", 1)) and not isinstance(p.conds[0][1], tuple):
            v = p.ret
            val = const_value(v[2][0]) if v[0] == "agg" else None
            smap[names[p.conds[0][1]]] = val
    out["Side"] = smap
    cadt = ck.adt("weechess_core::color::Color", "G5")
    out["Color"] = {v["name"]: v["discr"] for v in cadt["variants"]}
    return out


def table_value(t):
    """Decoded nested ArrayMap constant (python lists) of a const term."""
    v = thaw(t[2])
    while isinstance(v, dict) and "$ref" in v and len(v) == 1:
        v = v["$ref"]

    def strip(x):
        if isinstance(x, dict) and "array" in x:
            return [strip(y) for y in x["array"]]
        sx = scalar(x)
        return sx if sx is not None else x
    return strip(v)


def g5_castling(ck):
    prog = ck.prog
    idx = index_models(ck)
    ck.req(sorted(idx["Side"].items()) == [("King", 0), ("Queen", 1)] or set(idx["Side"].values()) == {0, 1}, "G5.side_index", "Index::from(Side)", "",
           "Side -> index map is %s" % idx["Side"])
    km = ck.body(MG + "compute_king_moves", "G5")
    tb = TermBuilder(prog, km)
    cast = live_calls(km, names=(MOVE + "by_castling",))
    if len(cast) != 1:
        ck.fail("G5", "compute_king_moves", km.where(), "expected one by_castling call, found %d" % len(cast))
        return
    cbb, ct = cast[0]
    ca = [tb.operand(x) for x in ct["args"]]
    color_t, side_t = ca
    ck.req(is_call(color_t, STATE + "turn_to_move"), "G5.color", "by_castling", km.where(ct["line"]), "castling is generated for %s, not for the side to move" % show(color_t))
    side_src = any(x[0] == "const" and x[1] == "weechess_core::board::Side::ALL" for x in walk(side_t))
    ck.req(side_src, "G5.sides", "by_castling", km.where(ct["line"]), "castling side does not range over Side::ALL")
    sall = ck.const("weechess_core::board::Side::ALL", "G5")
    ck.req(sorted(x["$variant"] for x in sall) == ["King", "Queen"], "G5.sides_all", "Side::ALL", "", "Side::ALL = %s" % sall)
    # guards dominating the push: collected from the switch conditions on the paths to the by_castling block
    dom = cfg.dominators(km)
    bes = cfg.back_edges(km)
    guards = []
    for bb in sorted(dom[cbb]):
        t = km.term(bb)
        if t["k"] != "switch":
            continue
        d = tb.operand(t["discr"])
        # which edge leads towards the castle block
        succ_true = t["otherwise"]
        succ_false = [c[1] for c in t["cases"] if c[0] == 0]
        reach_true = cbb in cfg.reachable(km, [succ_true], avoid_edges=bes)
        reach_false = bool(succ_false) and cbb in cfg.reachable(km, succ_false, avoid_edges=bes)
        if reach_true and not reach_false:
            guards.append((d, True))
        elif reach_false and not reach_true:
            guards.append((d, False))

    def fold_mask(mt, side, color):
        def rep(x):
            if x == side_t:
                return ("param", 90)
            if x == color_t:
                return ("param", 91)
            if not isinstance(x, tuple) or not x or x[0] == "const":
                return x
            return tuple(rep(y) if isinstance(y, tuple) else y for y in x)

        def res(name):
            if name.endswith("Index<I>>::index"):
                def ix(tab, i):
                    while isinstance(tab, dict) and "$ref" in tab and len(tab) == 1:
                        tab = tab["$ref"]
                    if isinstance(tab, dict) and "array" in tab:
                        tab = tab["array"]
                    x = tab[i]
                    sx = scalar(x)
                    return sx if sx is not None else x
                return ix
            if name.endswith("BitOr>::bitor"):
                return lambda a, b: a | b
            if name.endswith("BitAnd>::bitand"):
                return lambda a, b: a & b
            if name.endswith("BitBoard::just"):
                return lambda s: 1 << s
            if name.endswith("BitBoard::new") or name.endswith("From<u64>>::from"):
                return lambda a: a
            return None
        return fold(rep(mt), {90: idx["Side"][side], 91: idx["Color"][color]}, res)

    rights_guard = occ_guard = att_guard = None
    for d, truth in guards:
        if is_call(d, "CastleRights::for_side") and truth:
            rights_guard = d
        if is_call(d, "BitBoard::none") and truth and is_call(d[2][0], "BitAnd>::bitand"):
            ops = d[2][0][2]
            dyn = [o for o in ops if is_call(o, BOARD + "occupancy") or is_call(o, HELPER + "opposing_attacks")]
            mask = [o for o in ops if o not in dyn]
            if len(dyn) == 1 and len(mask) == 1:
                if is_call(dyn[0], BOARD + "occupancy"):
                    occ_guard = mask[0]
                else:
                    att_guard = mask[0]
    ck.req(rights_guard is not None and is_call(rights_guard[2][0], HELPER + "own_castle_rights") and rights_guard[2][1] == side_t, "G5.rights", "compute_king_moves", km.where(ct["line"]),
           "castling is not guarded by own_castle_rights().for_side(side) for the same side")
    ck.req(occ_guard is not None, "G5.path_guard", "compute_king_moves", km.where(ct["line"]), "no guard `(occupancy & <path mask>).none()` dominates the castling move")
    ck.req(att_guard is not None, "G5.check_guard", "compute_king_moves", km.where(ct["line"]), "no guard `(opposing_attacks & <check mask>).none()` dominates the castling move")
    # for_side maps King -> kingside, Queen -> queenside
    fs = ck.body("weechess_core::state::CastleRights::for_side", "G5")
    sadt = ck.adt("weechess_core::board::Side", "G5")
    sn = {v["discr"]: v["name"] for v in sadt["variants"]}
    fmap = {}
    for p in decision_table(prog, fs):
        if len(p.conds) == 1 and not isinstance(p.conds[0][1], tuple) and p.ret[0] == "field":
            fmap[sn[p.conds[0][1]]] = p.ret[2]
    ck.req(fmap == {"King": "kingside", "Queen": "queenside"}, "G5.for_side", "CastleRights::for_side", fs.where(), "for_side maps %s" % fmap)
    # king origins / destinations from Move::by_castling
    bc = ck.body(MOVE + "by_castling", "G5")
    btb = TermBuilder(prog, bc)
    bm = live_calls(bc, names=(MOVE + "by_moving",))
    origin_t = dest_t = None
    if len(bm) == 1:
        a = [btb.operand(x) for x in bm[0][1]["args"]]
        origin_t, dest_t = a[1], a[2]
        pk = a[0]
        ck.req(is_call(pk, "PieceIndex::new") and pk[2][0] == ("param", 1) and variant_name(pk[2][1]) == "King", "G5.king_moves", "by_castling", bc.where(), "castling does not move the king of the given colour")
    n = 0
    for side in ("King", "Queen"):
        for color in ("White", "Black"):
            rank = 0 if color == "White" else 7
            korig = G.sq(4, rank)
            kdest = G.sq(6 if side == "King" else 2, rank)
            corner = G.sq(7 if side == "King" else 0, rank)
            want_path = G.mask_of(G.between(korig, corner))
            want_check = G.mask_of(G.between(korig, kdest) + [korig, kdest])
            key = "%s/%s" % (side, color)
            try:
                if occ_guard is not None:
                    n += 1
                    got = fold_mask(occ_guard, side, color)
                    ck.req(got == want_path, "G5.path_mask", key, km.where(ct["line"]),
                           "squares that must be empty for %s castling are %#x, geometry says %#x (strictly between king and rook)" % (key, got, want_path), hex(want_path))
                if att_guard is not None:
                    n += 1
                    got = fold_mask(att_guard, side, color)
                    ck.req(got == want_check, "G5.check_mask", key, km.where(ct["line"]),
                           "squares that must not be attacked for %s castling are %#x, geometry says %#x (king origin through king destination)" % (key, got, want_check), hex(want_check))
                if origin_t is not None:
                    def rep2(x):
                        if x == ("param", 1):
                            return ("param", 91)
                        if x == ("param", 2):
                            return ("param", 90)
                        if not isinstance(x, tuple) or not x or x[0] == "const":
                            return x
                        return tuple(rep2(y) if isinstance(y, tuple) else y for y in x)

                    def res2(name):
                        if name.endswith("Index<I>>::index"):
                            def ix(tab, i):
                                while isinstance(tab, dict) and "$ref" in tab and len(tab) == 1:
                                    tab = tab["$ref"]
                                if isinstance(tab, dict) and "array" in tab:
                                    tab = tab["array"]
                                x = tab[i]
                                sx = scalar(x)
                                return sx if sx is not None else x
                            return ix
                        return None
                    env = {90: idx["Side"][side], 91: idx["Color"][color]}
                    n += 2
                    go = fold(rep2(origin_t), env, res2)
                    gd = fold(rep2(dest_t), env, res2)
                    ck.req(go == korig, "G5.king_origin", key, bc.where(), "king origin for %s is %s, expected %s" % (key, G.name(go) if isinstance(go, int) else go, G.name(korig)))
                    ck.req(gd == kdest, "G5.king_dest", key, bc.where(), "king destination for %s is %s, expected %s" % (key, G.name(gd) if isinstance(gd, int) else gd, G.name(kdest)))
            except (CannotFold, KeyError, IndexError, TypeError) as e:
                ck.fail("G5.fold", key, km.where(ct["line"]), "the castling masks/squares for %s are not constants of (side, colour) that can be compared with geometry "
                        "(they depend on run-time state or an unknown helper): %s" % (key, e))
    ck.floor("G5", n, 16, "castle table evaluations (4 pairs x path, check, origin, destination)")
    # the named tables agree with what the generator uses (sample for the evidence)
    ck.sample({"rule": "G5", "path_mask_term": show(occ_guard)[:160] if occ_guard else None, "check_mask_term": show(att_guard)[:160] if att_guard else None})


# ------------------------------------------------------------------------------------------------ G6


def g6_colour_tables(ck):
    prog = ck.prog
    cadt = ck.adt("weechess_core::color::Color", "G6")
    cn = {v["discr"]: v["name"] for v in cadt["variants"]}

    def table(body):
        out = {}
        for p in decision_table(prog, body):
            if len(p.conds) == 1 and not isinstance(p.conds[0][1], tuple):
                out[cn[p.conds[0][1]]] = p.ret
        return out

    def off(t):
        if t[0] == "const":
            v = thaw(t[2])
            if isinstance(v, dict) and "file" in v:
                return (v["file"], v["rank"])
        if t[0] == "agg" and t[1].endswith("Offset::Offset"):
            return (const_value(t[2][0]), const_value(t[2][1]))
        return None
    fw = ck.body("weechess_core::color::Color::forward", "G6")
    bw = ck.body("weechess_core::color::Color::backward", "G6")
    f = {k: off(v) for k, v in table(fw).items()}
    b = {k: off(v) for k, v in table(bw).items()}
    ck.req(f == {"White": (0, 1), "Black": (0, -1)}, "G6.forward", "Color::forward", fw.where(), "forward offsets are %s" % f)
    ck.req(b == {"White": (0, -1), "Black": (0, 1)}, "G6.backward", "Color::backward", bw.where(), "backward offsets are %s" % b)
    op = ck.body("weechess_core::color::Color::opposing_color", "G6")
    o = {k: (v[1].split("::")[-1] if v[0] == "agg" else None) for k, v in table(op).items()}
    ck.req(o == {"White": "Black", "Black": "White"}, "G6.opposing", "Color::opposing_color", op.where(), "opposing_color maps %s" % o)
    rm = [scalar(x) for x in ck.const("weechess_core::common::RANK_MASKS", "G6")["array"]]

    def rank_of(t):
        # RANK_MASKS[Rank::X] -> rank index
        for x in walk(t):
            if x[0] == "const" and x[1] and x[1].startswith("weechess_core::board::Rank::"):
                return const_value(x)
        return None
    br = ck.body(HELPER + "own_backrank_mask", "G6")
    hr = ck.body(HELPER + "own_pawn_home_rank_mask", "G6")
    for body, want, rule in ((br, {"White": 7, "Black": 0}, "G6.promotion_rank"), (hr, {"White": 1, "Black": 6}, "G6.home_rank")):
        got = {}
        for p in decision_table(prog, body):
            cs = [c for c in p.conds if c[0][0] == "discr" and not isinstance(c[1], tuple)]
            if len(cs) == 1 and is_call(cs[0][0][1], STATE + "turn_to_move"):
                got[cn[cs[0][1]]] = rank_of(p.ret)
                uses_rank_masks = any(x[0] == "const" and x[1] in ("weechess_core::common::RANK_MASKS",) or (x[0] == "const" and isinstance(thaw(x[2]), dict)) for x in walk(p.ret))
        ck.req(got == want, rule, body.name.split("::")[-1], body.where(), "%s selects ranks %s (0-based), expected %s" % (body.name.split("::")[-1], got, want), str(want))
    for i in range(8):
        ck.req(rm[i] == G.rank_mask(i), "G6.rank_masks", "RANK_MASKS[%d]" % i, "", "RANK_MASKS[%d] wrong" % i)


# ------------------------------------------------------------------------------------------------ G7-G9


def g7_g8_g9_pawns(ck):
    prog = ck.prog
    pm = ck.body(MG + "compute_pawn_moves", "G7")
    tb = TermBuilder(prog, pm)
    pt = ck.const(MG + "compute_pawn_moves::PROMOTION_TYPES", "G7")
    kinds = [x["$variant"] for x in pt]
    ck.req(sorted(kinds) == ["Bishop", "Knight", "Queen", "Rook"] and len(kinds) == 4, "G7.set", "PROMOTION_TYPES", "", "promotion pieces are %s" % kinds, str(kinds))
    uses = 0
    for fn, idx in ((MOVE + "by_promoting", 3), (MOVE + "by_capture_promoting", 4)):
        for bb, t in live_calls(pm, names=(fn,)):
            a = tb.operand(t["args"][idx])
            src = any(x[0] == "const" and (x[1] == MG + "compute_pawn_moves::PROMOTION_TYPES" or [y.get("$variant") for y in (table_value(x) if isinstance(table_value(x), list) else []) if isinstance(y, dict)] == kinds)
                      for x in walk(a))
            uses += 1
            ck.req(src and cfg.in_cycle(pm, bb), "G7.loop", fn.split("::")[-1], pm.where(t["line"]), "%s is not called for each element of PROMOTION_TYPES" % fn.split("::")[-1])
    ck.floor("G7", uses, 2, "promotion constructor sites fed from PROMOTION_TYPES")
    # mover is the own pawn everywhere
    for fn in ("by_moving", "by_promoting", "by_capturing", "by_capture_promoting", "by_en_passant"):
        for bb, t in live_calls(pm, names=(MOVE + fn,)):
            a = tb.operand(t["args"][0])
            ck.req(is_call(a, HELPER + "to_own_piece") and variant_name(a[2][1]) == "Pawn", "G7.mover", fn, pm.where(t["line"]), "pawn generator builds a move for %s" % show(a))
    # G8 capture offsets
    offs = ck.const(MG + "compute_pawn_moves::OFFSETS", "G8")
    pairs = [((p[0]["file"], p[0]["rank"]), (p[1]["file"], p[1]["rank"])) for p in offs]
    ck.req(sorted(pairs) == [((-1, 0), (1, 0)), ((1, 0), (-1, 0))], "G8.pairs", "OFFSETS", "", "pawn capture offset pairs are %s (each second element must be the inverse of the first; both sides present)" % pairs, str(pairs))
    # attacks = pawns.shift(forward).shift(pair.0); origin = target.offset(backward + pair.1)
    shifts = [(bb, t) for bb, t in live_calls(pm, names=(BB + "::shift",))]
    cap_shift = None
    for bb, t in shifts:
        a = [tb.operand(x) for x in t["args"]]
        if is_call(a[0], BB + "::shift"):
            cap_shift = (a, t)
    good = cap_shift is not None
    if good:
        a, t = cap_shift
        inner = a[0]
        good = is_call(inner[2][1], "Color::forward") and is_call(inner[2][0], HELPER + "own_piece") and a[1][0] == "field" and a[1][2] == "0"
    ck.req(good, "G8.attacks", "compute_pawn_moves", pm.where(), "pawn capture squares are not own_pawns.shift(forward()).shift(pair.0)")
    adds = [(bb, t) for bb, t in live_calls(pm) if callee_name(t).endswith("Offset as core::ops::arith::Add>::add")]
    good = False
    for bb, t in adds:
        a = [tb.operand(x) for x in t["args"]]
        if is_call(a[0], "Color::backward") and a[1][0] == "field" and a[1][2] == "1":
            good = True
    ck.req(good, "G8.origin", "compute_pawn_moves", pm.where(), "capture origin offset is not backward() + pair.1")
    # captures need an opposing piece on the target, promotions split by the own back rank
    cap = live_calls(pm, names=(MOVE + "by_capturing",))
    for bb, t in cap:
        tgt = tb.operand(t["args"][2])
        cj = [c for x in walk(tgt) if is_call(x, BB + "::iter_ones") for c in conjuncts(x[2][0])]
        names = sorted(show(c).split("(")[0].split("::")[-1] for c in cj)
        good = any(is_call(c, HELPER + "opposing_pieces") for c in cj) and any(is_call(c, "Not>::not") and is_call(c[2][0], HELPER + "own_backrank_mask") for c in cj)
        ck.req(good, "G8.capture_targets", "by_capturing", pm.where(t["line"]), "non-promotion capture targets are not `attacks & !own_backrank & opposing_pieces` (%s)" % names)
    for bb, t in live_calls(pm, names=(MOVE + "by_capture_promoting",)):
        tgt = tb.operand(t["args"][2])
        cj = [c for x in walk(tgt) if is_call(x, BB + "::iter_ones") for c in conjuncts(x[2][0])]
        good = any(is_call(c, HELPER + "opposing_pieces") for c in cj) and any(is_call(c, HELPER + "own_backrank_mask") for c in cj)
        ck.req(good, "G8.promo_capture_targets", "by_capture_promoting", pm.where(t["line"]), "promotion capture targets are not `attacks & own_backrank & opposing_pieces`")
    # pushes: single = pawns.shift(forward) & vacancy ; double from the home rank through two vacant steps
    for fn in ("by_moving",):
        sites = live_calls(pm, names=(MOVE + fn,))
        ck.floor("G8", len(sites), 2, "quiet pawn push sites (single, double)")
    # G9 en passant
    ep = live_calls(pm, names=(MOVE + "by_en_passant",))
    ck.floor("G9", len(ep), 1, "en passant constructor sites")
    for bb, t in ep:
        tgt = tb.operand(t["args"][2])
        good = any(is_call(x, STATE + "en_passant_target") or is_call(x, HELPER + "en_passant_target") for x in walk(tgt)) and any(is_call(x, BB + "::shift") for x in walk(tgt))
        ck.req(good, "G9.target", "by_en_passant", pm.where(t["line"]), "en passant target is not `attacks & {en_passant_target}`: %s" % show(tgt)[:200])


# ------------------------------------------------------------------------------------------------ G10


def _adds_borrowed_counter(pr, tb, bb, s):
    """`*count = (*count + c).0` where c is (a copy of) a local that was mutably lent to the recursive call."""
    from dataflow import operand_locals
    # find the AddWithOverflow feeding this store
    src = s["rv"].get("use", {})
    p = src.get("move") or src.get("copy")
    cands = []
    if "binop" in s["rv"] and s["rv"]["binop"].startswith("Add"):
        cands.append(("assign", None, None, s["rv"]))   # unchecked form (overflow checks off): *count = Add(*count, c)
    elif p:
        cands = tb.d.defs.get(p["l"], [])
    for d in cands:
        if d[0] == "assign" and "binop" in d[3] and d[3]["binop"].startswith("Add"):
            for k in ("a", "b"):
                for l in operand_locals(d[3][k]):
                    seen = set()
                    work = [l]
                    while work:
                        x = work.pop()
                        if x in seen:
                            continue
                        seen.add(x)
                        if x in tb.d.borrowed_mut:
                            return True
                        for dd in tb.d.defs.get(x, []):
                            if dd[0] == "assign" and "use" in dd[3]:
                                work.extend(operand_locals(dd[3]["use"]))
    return False


HANDOVER_NEUTRAL = ("::shrink_to_fit", "::reserve", "::reserve_exact")


def g11_list_handover(ck):
    """G11: between the generator loop and the caller the list is only handed over. Following compute_legal_moves' returned value through the
    calls that carry it (Into::into, MoveSet::new) down to the MoveSet aggregate, no function of that chain calls anything else: nothing
    is removed from, merged in or reordered in the generated list on the way out."""
    prog = ck.prog
    root = ck.body(MG + "compute_legal_moves", "G11")
    allowed_root = {MG + "compute_legal_moves_into", "weechess_core::movegen::MoveGenerationBuffer::new"}
    cur, chain, done = root, [], False
    for depth in range(5):
        paths = decision_table(prog, cur)
        rets = {p.ret for p in paths}
        nxt = None
        ok_shape = len(rets) == 1
        r = list(rets)[0] if ok_shape else None
        if ok_shape and r is not None and r[0] == "call" and prog.body(r[1]) is not None:
            nxt = r[1]
        elif ok_shape and r is not None and r[0] == "agg" and r[1].startswith("weechess_core::moves::MoveSet"):
            done = True
        else:
            ok_shape = False
        ck.req(ok_shape, "G11.shape", cur.name.split("::")[-1], cur.where(),
               "%s does not return the list through one call or the MoveSet aggregate (%s)" % (cur.name, sorted(show(x) if x else "?" for x in rets)))
        if not ok_shape:
            return
        extra = set()
        for p in paths:
            for e in p.calls():
                if e[1] == nxt or (cur is root and e[1] in allowed_root) or e[1].endswith(HANDOVER_NEUTRAL):
                    continue
                extra.add(e[1])
        chain.append(cur.name)
        ck.req(not extra, "G11.handover", cur.name.split("::")[-1], cur.where(),
               "%s calls %s on the way from the generator to the caller: the generated list must be handed over untouched" % (
                   cur.name, ", ".join(sorted(x.split("::")[-1] for x in extra))), "only hands the list over")
        if done:
            break
        cur = ck.body(nxt, "G11")
    ck.req(done, "G11.shape", "chain", root.where(), "no MoveSet aggregate found within 5 calls of compute_legal_moves' return value")
    ck.floor("G11", len(chain), 2, "functions handing the generated list over")
    ck.extra["handover_chain"] = chain


def g10_perft(ck):
    prog = ck.prog
    pr = ck.body("weechess_engine::searcher::Searcher::perft_recursive", "G10")
    tb = TermBuilder(prog, pr)
    gen = live_calls(pr, names=(MG + "compute_legal_moves_into",))
    ck.req(len(gen) == 1 and tb.operand(gen[0][1]["args"][0]) == ("param", 1), "G10.generation", "perft_recursive", pr.where(), "perft does not generate the legal moves of its state")
    rec = live_calls(pr, names=(pr.name,))
    ck.req(len(rec) == 1, "G10.recursion", "perft_recursive", pr.where(), "expected one recursive call, found %d" % len(rec))
    # leaf: *count += legal_moves.len()
    leaf = False
    inner = False
    for bb, blk in enumerate(pr.blocks):
        for s in blk["stmts"]:
            if s["k"] == "assign" and s["place"]["p"] == ["*"] and s["place"]["l"] == 4:
                v = tb.rvalue(s["rv"])
                if v[0] == "bin" and v[1] == "Add":
                    other = [x for x in (v[2], v[3]) if x != ("param", 4)]
                    if other and is_call(other[0], "Vec::<T, A>::len") and other[0][2][0][0] == "field" and other[0][2][0][2] == "legal_moves":
                        leaf = True
                    if other and other[0][0] in ("var", "const"):
                        # the added value is a local counter whose address was handed to the recursive call
                        for k in ("a", "b"):
                            o = s["rv"].get(k) if "binop" in s["rv"] else None
                        root = None
                        for d in tb.d.defs.get(s["rv"]["use"]["move"]["l"], []) if "use" in s["rv"] and "move" in s["rv"]["use"] else []:
                            pass
                        inner = inner or _adds_borrowed_counter(pr, tb, bb, s)
    ck.req(leaf, "G10.leaf", "perft_recursive", pr.where(), "leaf nodes do not add legal_moves.len() to the count")
    ck.req(inner, "G10.inner", "perft_recursive", pr.where(), "inner nodes do not add the sub-count to the count")
    if rec:
        a = [tb.operand(x) for x in rec[0][1]["args"]]
        good = a[0][0] == "field" and a[0][2] == "1" and any(x[0] == "field" and x[2] == "legal_moves" for x in walk(a[0]))
        ck.req(good, "G10.successor", "perft_recursive", pr.where(), "the recursive call is not made on the successor state of each legal move")
