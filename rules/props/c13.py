"""C13 - Evaluation is colour-symmetric (negation clause by swap-parity reasoning; mirror clause: piece-square index (T1), colour-parametric
terms (M1), square geometry folded over all squares (M2), colour-symmetric position summary (M3)).

NOT decided: rank-dependent geometry expressed on bitboards, squares handed to functions that cannot be folded."""
from facts import callee_name
from terms import TermBuilder, return_term, show, walk, const_value, fold, CannotFold
from symex import decision_table
import cfg
from .common import live_calls, guards_of, is_iter_next
from .c01 import is_call, variant_name

LEVEL = "other"
EV = "weechess_engine::eval::"
EVAL = EV + "Evaluator::evaluate"


def run(ck):
    ck.explanation = (
        "Swap-parity reasoning over Evaluator::evaluate, with abstract values Z (zero), E (unchanged when `perspective` is swapped), O (negated): the result "
        "starts at the constant 0 (Z); in every iteration the same term function is called twice with the same position data, once with `perspective` and once "
        "with `!perspective`, each into a fresh zero accumulator; the iteration's contribution is (accumulator of perspective) - (accumulator of !perspective), "
        "which swaps sign under the swap (O); it is scaled by a weight that does not depend on perspective (O*E = O, both scalings are odd functions, checked by "
        "folding) and added to the result (Z/O + O = O); the early-stop flag is shared by both calls and tested only after both; terminal returns are +/- the mate "
        "score decided by `turn == perspective` (O) or the constant 0 (Z). Hence evaluate(s, White) = -evaluate(s, Black) for every position. Mirror clause T1: "
        "the piece-square table index of a white piece on s equals that of a black piece on the rank-mirrored square for all 64 squares (folded). "
        "M1: the term functions are colour-parametric: apart from the piece-square orientation decided by T1 they mention no colour constant, do not branch on "
        "which colour `perspective` is, and use no colour-direction helper (forward/backward); they are all registered with perspective-independent weights. "
        "M2: rank geometry: for every function in the terms' scope the sub-expressions built from position squares, constants and pure board helpers "
        "(rank, file, distances, min/max, local closures and helpers) are folded for all assignments of squares (64 or 64x64) and the function's "
        "behaviour must equal its behaviour on the rank-flipped squares. M3: the position summary (piece counts, colour counts, end-game weight) is "
        "built by functions whose symbolic behaviour is unchanged when the two colour constants are exchanged. "
        "NOT decided: rank-dependent geometry expressed on bitboards (rank masks, shifts) rather than on squares; squares handed to functions the "
        "rules cannot fold (listed per function as opaque uses).")
    ck.trusted = ["rustc front end and MIR construction", "extractor decoding", "bitboard-level rank geometry inside the terms is mirror-neutral (today: file masks only)"]
    ck.not_decided = ["mirror symmetry of rank-dependent geometry expressed on bitboards (rank masks, shifts) or behind functions that cannot be folded"]
    ck.run_rule(a1_loop_structure)
    ck.run_rule(a2_operator_parity)
    ck.run_rule(a3_terminal_parity)
    ck.run_rule(t1_piece_square_mirror)
    ck.run_rule(m1_terms_colour_parametric)
    ck.run_rule(m2_geometry_mirror)
    ck.run_rule(m3_summary_colour_symmetric)
    ck.run_rule(m4_no_evaluation_state)


def a1_loop_structure(ck):
    prog = ck.prog
    b = ck.body(EVAL, "A1")
    tb = TermBuilder(prog, b)
    names = {b.local_name(i): i for i in range(1, b.arg_count + 1)}
    P = ("param", names.get("perspective"))
    ind = [(bb, blk["term"]) for bb, blk in enumerate(b.blocks) if blk["term"]["k"] == "call" and "indirect" in blk["term"] and not blk.get("cleanup")]
    ck.req(len(ind) == 2, "A1.two_calls", "Evaluator::evaluate", b.where(), "expected exactly two calls of the term function per iteration, found %d" % len(ind))
    if len(ind) != 2:
        return
    calls = []
    for bb, t in ind:
        f = tb.operand(t["indirect"])
        a = [tb.operand(x) for x in t["args"]]
        calls.append((bb, t, f, a))
    (bb1, t1, f1, a1), (bb2, t2, f2, a2) = calls
    ck.req(f1 == f2 and any(x[0] == "call" and is_iter_next(x[1]) for x in walk(f1)), "A1.same_term", "term function", b.where(t1["line"]),
           "the two calls do not invoke the same term function of the current list element (%s / %s)" % (show(f1)[:80], show(f2)[:80]))
    ck.req(a1[0] == a2[0], "A1.same_data", "position data", b.where(t1["line"]), "the two calls receive different position data")
    sides = []
    for a in (a1, a2):
        if a[1] == P:
            sides.append("p")
        elif (is_call(a[1], "Color as core::ops::bit::Not>::not") or is_call(a[1], "Color::opposing_color")) and a[1][2][0] == P:
            sides.append("not_p")
        else:
            sides.append("?:" + show(a[1])[:60])
    ck.req(sorted(sides) == ["not_p", "p"], "A1.both_sides", "sides", b.where(t1["line"]),
           "the term is not evaluated once for `perspective` and once for `!perspective` (sides: %s)" % sides, "p and !p")
    # accumulators: distinct locals, each set to the constant 0 in the loop body before its call
    accs = []
    for (bb, t, f, a) in calls:
        p = t["args"][2].get("move") or t["args"][2].get("copy")
        # follow &mut reborrows to the accumulator local
        l = p["l"]
        for _ in range(4):
            ds = tb.d.defs.get(l, [])
            if len(ds) == 1 and ds[0][0] == "assign" and "ref" in ds[0][3]:
                l = ds[0][3]["ref"]["l"]
            else:
                break
        accs.append(l)
    ck.req(len(set(accs)) == 2, "A1.fresh_accumulators", "accumulators", b.where(), "both calls accumulate into the same variable")
    loop_blocks = set()
    for be in cfg.back_edges(b):
        lp = cfg.natural_loop(b, be)
        if bb1 in lp:
            loop_blocks |= lp
    for l in accs:
        ds = tb.d.defs.get(l, [])
        zero_in_loop = len(ds) == 1 and ds[0][0] == "assign" and const_value(tb.rvalue(ds[0][3])) == 0 and ds[0][1] in loop_blocks
        ck.req(zero_in_loop, "A1.zero_start", b.local_name(l) or "_%d" % l, b.where(), "an accumulator is not reset to the constant 0 in every iteration")
    # stop flag shared
    ck.req(a1[3] == a2[3] or _root(tb, t1["args"][3]) == _root(tb, t2["args"][3]), "A1.shared_stop", "stop", b.where(), "the two calls do not share the early-stop flag")
    # combination: e = sub(acc_p, acc_not_p)
    subs = [(bb, t) for bb, t in live_calls(b) if callee_name(t).endswith("Evaluation as core::ops::arith::Sub>::sub")]
    ck.req(len(subs) == 1, "A1.difference", "e1 - e2", b.where(), "expected one subtraction combining the two accumulators, found %d" % len(subs))
    if len(subs) == 1:
        sa = [_root(tb, x) for x in subs[0][1]["args"]]
        acc_p = accs[sides.index("p")] if "p" in sides else None
        acc_n = accs[sides.index("not_p")] if "not_p" in sides else None
        ck.req(sa == [acc_p, acc_n], "A1.minuend", "e1 - e2", b.where(subs[0][1]["line"]),
               "the contribution is not (accumulator of perspective) - (accumulator of !perspective): operands %s" % [b.local_name(x) for x in sa if x is not None],
               "perspective's accumulator is the minuend")
        # scaled by the element's weight and added to the result
        e_local = subs[0][1]["dest"]["l"]
        muls = [(bb, t) for bb, t in live_calls(b) if callee_name(t).endswith("Evaluation as core::ops::arith::Mul<f32>>::mul") or callee_name(t).endswith("Evaluation as core::ops::arith::Mul<i32>>::mul")]
        adds = [(bb, t) for bb, t in live_calls(b) if callee_name(t).endswith("Evaluation as core::ops::arith::AddAssign>::add_assign")]
        good = len(muls) == 1 and len(adds) == 1
        if good:
            ma = muls[0][1]["args"]
            w = tb.operand(ma[1])
            good = _root(tb, ma[0]) == e_local and any(x[0] == "call" and is_iter_next(x[1]) for x in walk(w)) and not any(x == P for x in walk(w))
            aa = adds[0][1]["args"]
            res_local = _root(tb, aa[0])
            good = good and _root(tb, aa[1]) == muls[0][1]["dest"]["l"]
            # the result variable: starts at 0 before the loop, only changed by that add_assign, and is what is returned
            ds = tb.d.defs.get(res_local, [])
            init0 = len(ds) == 1 and const_value(tb.rvalue(ds[0][3])) == 0 and ds[0][1] not in loop_blocks
            returned = any(s["k"] == "assign" and s["place"] == {"l": 0, "p": []} and "use" in s["rv"] and _root(tb, s["rv"]["use"]) == res_local for blk in b.blocks for s in blk["stmts"])
            other_writers = [t for bb, t in live_calls(b) if t not in (adds[0][1],) and any(_root(tb, x) == res_local and b.local_ty((x.get("move") or x.get("copy"))["l"]).startswith("&mut") for x in t["args"] if (x.get("move") or x.get("copy")))]
            good = good and init0 and returned and not other_writers
        ck.req(good, "A1.accumulate", "eval += e * w", b.where(), "the result is not `0 + sum of (e1 - e2) * weight` with a perspective-independent weight")
    # the stop test comes after both calls
    dom = cfg.dominators(b)
    stop_root = _root(tb, t1["args"][3])
    for bb, blk in enumerate(b.blocks):
        t = blk["term"]
        if t["k"] == "switch":
            p = t["discr"].get("copy") or t["discr"].get("move")
            if p is not None and _root(tb, t["discr"]) == stop_root and bb in loop_blocks:
                ck.req(bb1 in dom[bb] and bb2 in dom[bb], "A1.stop_after_both", "stop", b.where(t["line"]), "the early-stop flag is tested before both sides were evaluated")
    # A1.exit_parity: the term loop is left only when the term list is exhausted or on the shared stop flag - both unchanged when
    # `perspective` is swapped.  An exit that looks at the running result, an accumulator or the perspective stops the two
    # perspectives after different numbers of terms.
    succ = b.successors()
    n_exit_fail = 0
    res_root = None
    if len(subs) == 1 and 'res_local' in dir():
        res_root = res_local
    for x in sorted(loop_blocks):
        t = b.term(x)
        outs = [s_ for s_ in succ[x] if s_ not in loop_blocks and not b.is_cleanup(s_)]
        if not outs or t["k"] != "switch":
            continue
        c = tb.operand(t["discr"])
        if c[0] == "discr" and any(x_[0] == "call" and is_iter_next(x_[1]) for x_ in walk(c)):
            continue      # iterator exhausted
        if _root(tb, t["discr"]) == stop_root:
            continue      # shared stop flag
        touched = [show(x_)[:40] for x_ in walk(c) if x_ == P or (x_[0] == "var" and x_[1] in set(accs) | ({res_root} if res_root is not None else set()))]
        n_exit_fail += 1
        ck.fail("A1.exit_parity", "loop exit@bb%d" % x, b.where(t.get("line")),
                "the term loop can be left on %s, which is neither the end of the term list nor the shared stop flag%s: the two perspectives may sum a "
                "different number of terms" % (show(c)[:100], (" (it reads %s)" % touched[:2]) if touched else ""))
    if not n_exit_fail:
        ck.ok("A1.exit_parity", "term loop", b.where(), "left only at the end of the term list or on the shared stop flag")
    ck.sample({"rule": "A1", "sides": sides, "term_fn": show(f1)[:120]})


def _root(tb, op):
    p = op.get("move") or op.get("copy")
    if p is None:
        return None
    l = p["l"]
    for _ in range(6):
        ds = tb.d.defs.get(l, [])
        if len(ds) == 1 and ds[0][0] == "assign":
            rv = ds[0][3]
            if "ref" in rv and not [e for e in rv["ref"]["p"] if e != "*"]:
                l = rv["ref"]["l"]
                continue
            if "use" in rv:
                q = rv["use"].get("move") or rv["use"].get("copy")
                if q is not None and not [e for e in q["p"] if e != "*"]:
                    l = q["l"]
                    continue
        break
    return l


def a2_operator_parity(ck):
    """The operators used on the way are odd / linear in the way the parity argument needs."""
    prog = ck.prog

    def res(name):
        return None
    pfx = "<weechess_engine::eval::Evaluation as core::ops::arith::"
    cases = [(-300, 7), (0, 5), (123, -45), (9999, 10000), (-1, -1)]
    sub = ck.body(pfx + "Sub>::sub", "A2")
    rt = return_term(prog, sub)
    try:
        ok = rt is not None and all(fold(rt, {1: a, 2: b}) == a - b for a, b in cases)
    except CannotFold:
        ok = False
    ck.req(ok, "A2.sub", "Evaluation - Evaluation", sub.where(), "Sub is not a - b: %s" % (show(rt) if rt else "?"))
    neg = ck.body(pfx + "Neg>::neg", "A2")
    rt = return_term(prog, neg)
    try:
        ok = rt is not None and all(fold(rt, {1: a}) == -a for a, _ in cases)
    except CannotFold:
        ok = False
    ck.req(ok, "A2.neg", "-Evaluation", neg.where(), "Neg is not -a")
    mf = ck.body(pfx + "Mul<f32>>::mul", "A2")
    rt = return_term(prog, mf)
    bad = []
    try:
        for x in list(range(-250, 251, 7)) + [1, -1, 3, -3, 4999]:
            for w in (0.2, 0.8, 1.0, 0.5):
                if fold(rt, {1: -x, 2: w}) != -fold(rt, {1: x, 2: w}):
                    bad.append((x, w))
    except (CannotFold, TypeError) as e:
        bad.append(("fold", str(e)))
    ck.req(rt is not None and not bad, "A2.mul_f32_odd", "Evaluation * f32", mf.where(), "scaling by a weight is not an odd function (mul(-x, w) != -mul(x, w)) for %s" % bad[:4],
           "odd on %d samples" % (len(range(-250, 251, 7)) * 4))
    aa = ck.body(pfx + "AddAssign>::add_assign", "A2")
    from symex import decision_table as dt
    paths = dt(prog, aa)
    ok = len(paths) == 1 and any(e[0] == "store" and e[2][0] == "bin" and e[2][1] == "Add" for e in paths[0].effects)
    ck.req(ok, "A2.add_assign", "Evaluation += Evaluation", aa.where(), "AddAssign is not self.0 += rhs.0")
    # !Color is the other colour
    nb = ck.body("<weechess_core::color::Color as core::ops::bit::Not>::not", "A2")
    rt = return_term(prog, nb)
    ck.req(rt is not None and is_call(rt, "Color::opposing_color") and rt[2][0] == ("param", 1), "A2.color_not", "!Color", nb.where(), "!color is not opposing_color()")


def a3_terminal_parity(ck):
    """terminal returns are O or Z (shared with C05 V2)."""
    from .c05 import v2_terminal_values, v1_bypass
    v2_terminal_values(ck)
    # the terminal test must be about the side to move whatever the perspective is: the shortcut's king (V1)
    v1_bypass(ck)
    # mate / stalemate detection reads the attack map of either colour: its construction treats the colours alike (C10's B5-B7)
    from .c10 import b5_is_check, b6_from_occupancy, b7_dispatch
    b5_is_check(ck)
    b6_from_occupancy(ck)
    b7_dispatch(ck)
    # ... from the leaper tables, whose two colours of pawn attacks must mirror each other (C09's M7, M8, leaper tables)
    from . import c09 as _c09
    _c9 = {}
    _c09.m7_offsets_and_masks(ck, _c9)
    _c09.m8_no_wrap(ck)
    _c09.leaper_tables(ck, _c9)
    # ... and the legal move list, which is decided on successor positions: the successor function treats the colours alike (C02's U rules)
    from . import c02 as _c02
    _ctx = {}
    for _r in (_c02.collect_sets, _c02.u0_u4_piece_updates, _c02.u1_rook_relocation, _c02.u2_rights, _c02.u3_u5_state_fields):
        _r(ck, _ctx)


def _is_square_term(prog, body, t):
    """Does the key of a table lookup denote a Square (a Square-typed parameter, or the result of a Square-returning board function)?"""
    if t[0] == "param":
        return body.local_ty(t[1]).endswith("board::Square")
    if t[0] == "agg":
        return str(t[1]).endswith("board::Square::Square")
    if t[0] == "call":
        cb = prog.bodies.get(t[1])
        if cb is not None:
            return cb.local_ty(0).endswith("board::Square")
        return t[1].endswith("From<T>>::from") or t[1] == "core::convert::Into::into"
    return False


def t1_piece_square_mirror(ck):
    prog = ck.prog
    b = ck.body(EV + "evaluate_piece_squares::evaluate_piece_square", "T1")
    cadt = ck.adt("weechess_core::color::Color", "T1")
    cd = {v["name"]: v["discr"] for v in cadt["variants"]}

    def res(name):
        if name.endswith("Color as core::cmp::PartialEq>::eq"):
            return lambda a, b_: a == b_
        if name.endswith("From<T>>::from") or name == "core::convert::Into::into":
            return lambda a: a
        return None
    from symex import SymEx
    paths = SymEx(prog, b, inline_depth=4).run()
    idx_by_colour = {}
    for p in paths:
        # which colour does this path stand for?
        colour = None
        for c, tk in p.conds:
            is_eq = (c[0] == "call" and c[1].endswith("PartialEq>::eq")) or (c[0] == "bin" and c[1] == "Eq")
            if is_eq and any(x == ("param", 3) for x in walk(c)):
                consts = [variant_name(x) for x in walk(c) if x[0] in ("const", "agg") and variant_name(x) in cd]
                if consts:
                    colour = consts[0] if tk != 0 else ("Black" if consts[0] == "White" else "White")
            # `match perspective { White => .., Black => .. }`: a switch over the discriminant
            if c[0] == "discr" and any(x == ("param", 3) for x in walk(c)) and isinstance(tk, int) and not isinstance(tk, bool):
                byd = {v: k for k, v in cd.items()}
                if tk in byd:
                    colour = byd[tk]
            if c[0] == "discr" and any(x == ("param", 3) for x in walk(c)) and isinstance(tk, tuple) and tk and tk[0] == "else":
                rest = [k for k, v in cd.items() if v not in tk[1]]
                if len(rest) == 1:
                    colour = rest[0]
        idxs = [e[2][1] for e in p.effects if e[0] == "call" and e[1] == "weechess_core::utils::ArrayMap::<I, T>::index"]
        # tables keyed by Square (`table[square]`): the slot is the square's own index
        idxs += [e[2][1] for e in p.effects if e[0] == "call" and e[1] == "<weechess_core::utils::ArrayMap<I, T> as core::ops::index::Index<I>>::index" and
                 len(e[2]) == 2 and _is_square_term(prog, b, e[2][1])]
        if colour and idxs:
            idx_by_colour.setdefault(colour, []).extend(idxs)
    ck.req(set(idx_by_colour) == {"White", "Black"}, "T1.paths", "evaluate_piece_square", b.where(), "cannot separate the White and Black paths of the piece-square lookup (%s)" % sorted(idx_by_colour))
    if set(idx_by_colour) != {"White", "Black"}:
        return
    bad = []
    n = 0
    try:
        for s in range(64):
            mirror = s ^ 56
            for tw in idx_by_colour["White"]:
                for tbk in idx_by_colour["Black"]:
                    n += 1
                    iw = fold(tw, {2: s}, res)
                    ib = fold(tbk, {2: mirror}, res)
                    if iw != ib:
                        bad.append((s, iw, ib))
    except CannotFold as e:
        ck.fail("T1.fold", "evaluate_piece_square", b.where(), "cannot fold the table index term: %s" % e)
        return
    ck.req(not bad, "T1.mirror_index", "evaluate_piece_square", b.where(),
           "a white piece on square s and a black piece on the rank-mirrored square use different table entries, e.g. (s, white index, black index) = %s" % bad[:3],
           "%d (square, term) pairs folded" % n)
    ck.extra["mirror_index_evaluations"] = n
    # both lookups of a path use the same index (middle-game and end-game tables)
    for col, ts in idx_by_colour.items():
        ck.req(len(set(ts)) == 1, "T1.same_index", col, b.where(), "the two table lookups of the %s path use different indices" % col)


def m1_terms_colour_parametric(ck):
    """Mirror clause, necessary condition: a term f(position, colour) can only satisfy f(p, White) = f(mirror(p), Black) for all p if it
    treats the two colours alike - it may select pieces and counts by `perspective` / `!perspective`, but a colour constant, a branch on the
    colour's discriminant or a direction helper gives one colour a treatment the other does not get (unless paired with a rank flip, which
    only the piece-square lookup does and T1 decides)."""
    prog = ck.prog
    table = ck.const(EV + "EVALUATORS", "M1")
    terms = []
    for row in table:
        fnv = [x for x in row if isinstance(x, dict) and "$fn" in x]
        if fnv:
            terms.append((row[0], fnv[0]["$fn"]))
    ck.floor("M1", len(terms), 4, "term functions registered in EVALUATORS")
    cadt = ck.adt("weechess_core::color::Color", "M1")
    colour_names = {v["name"] for v in cadt["variants"]}
    from callgraph import CallGraph
    cg = CallGraph(prog)
    ORIENTED = EV + "evaluate_piece_squares::evaluate_piece_square"   # the one place where colour selects an orientation (T1)
    for w, fn in terms:
        b = ck.body(fn, "M1")
        seen, _ext, _ind = cg.reachable([fn])
        scope = [n for n in seen if n.startswith(EV) and n != ORIENTED and not n.startswith(ORIENTED + "::")]
        bad = []
        for n in sorted(scope):
            body = prog.body(n)
            tb = TermBuilder(prog, body)
            for bb, blk in enumerate(body.blocks):
                if blk.get("cleanup"):
                    continue
                for s_ in blk["stmts"]:
                    if s_["k"] != "assign":
                        continue
                    v = tb.rvalue(s_["rv"])
                    for x in walk(v):
                        if x[0] in ("const", "agg") and variant_name(x) in colour_names and ("Color" in str(x[1]) or x[0] == "const"):
                            ty = None
                            if x[0] == "const":
                                from terms import thaw
                                raw = thaw(x[2])
                                while isinstance(raw, dict) and "$ref" in raw and len(raw) == 1:
                                    raw = raw["$ref"]
                                ty = raw.get("$ty") if isinstance(raw, dict) else None
                            if x[0] == "agg" or (ty or "").endswith("color::Color"):
                                bad.append((n, s_.get("line"), "colour constant %s" % variant_name(x)))
                t = blk["term"]
                if t["k"] == "switch":
                    c = tb.operand(t["discr"])
                    if c[0] == "discr" and c[1][0] == "param" and body.local_ty(c[1][1]).endswith("color::Color"):
                        bad.append((n, t.get("line"), "branch on which colour `perspective` is"))
                    if c[0] == "call" and c[1].endswith("Color as core::cmp::PartialEq>::eq"):
                        bad.append((n, t.get("line"), "comparison of a colour with another"))
                if t["k"] == "call":
                    cn = callee_name(t)
                    if cn.split("::")[-1] in ("forward", "backward") and "color::Color" in cn:
                        bad.append((n, t.get("line"), "colour-direction helper %s" % cn.split("::")[-1]))
                    # an order-sensitive choice among the colours (ties go to the first / last of Color::ALL)
                    if cn.split("::")[-1] in ("max_by_key", "min_by_key", "max_by", "min_by", "find", "find_map", "position", "last", "nth", "rposition") and \
                            any(x[0] == "const" and x[1] == "weechess_core::color::Color::ALL" for a in t["args"] for x in walk(tb.operand(a))):
                        bad.append((n, t.get("line"), "order-sensitive choice (%s) over Color::ALL: a tie is decided by which colour comes first" % cn.split("::")[-1]))
        ck.req(not bad, "M1.colour_parametric", fn.split("::")[-2], b.where(bad[0][1] if bad else None),
               "the term treats the colours differently (%s in %s): a position and its colour-swapped rank mirror are scored differently" % (bad[0][2] if bad else "", bad[0][0].split("::")[-1] if bad else ""),
               "%d function(s) in scope, no colour constant / branch / direction helper" % len(scope))
        ck.req(isinstance(w, (int, float)), "M1.weight", fn.split("::")[-2], b.where(), "the term's weight is not a plain number")
    ck.sample({"rule": "M1", "terms": [t[1].split("::")[-2] for t in terms]})


# ---------------------------------------------------------------------------------------------------------------
# M2: rank geometry of the terms is mirror-invariant
# ---------------------------------------------------------------------------------------------------------------
BOARD = "weechess_core::board::"
_SRC0 = 9000


class _Ws:
    """Resolver for fold(): pure workspace functions of the board module are folded through their own decision tables."""

    def __init__(self, prog):
        self.prog = prog
        self.models = {}

    def __call__(self, name):
        last = name.split("::")[-1]
        if name.startswith("core::cmp::") and last in ("min", "max"):
            return (lambda a, b: min(a, b)) if last == "min" else (lambda a, b: max(a, b))
        if name.endswith("From<T>>::from") or name == "core::convert::Into::into":
            return lambda a: a
        b = self.prog.bodies.get(name)
        if b is None or not _pure_fn(self.prog, name):
            return None
        is_closure = "{closure" in name.split("::")[-1]

        def run(*args):
            from evalfn import FnModel
            if is_closure and len(args) == 2:      # rust-call ABI: (closure, (args,)) ; a 1-tuple folds to its element
                args = (args[0],) + (tuple(args[1]) if isinstance(args[1], list) and b.arg_count != 2 else (args[1],))
            if name not in self.models:
                try:
                    self.models[name] = FnModel(self.prog, self.prog.raw_body(name), inline_depth=0, calls=self)
                except Exception as e:       # too many paths, ...
                    self.models[name] = e
            m = self.models[name]
            if isinstance(m, Exception):
                raise CannotFold("no model of %s: %s" % (name, m))
            return m(*args)
        return run


def _pure_board_fn(name):
    return name.startswith(BOARD) or (name.startswith("<" + BOARD) and "fmt::" not in name)


_PURE = {}


def _pure_fn(prog, name):
    """Board-module functions, and helpers / closures of the evaluation module that take no `&mut` and return a value (their bodies are folded through
    their own decision tables; anything they call that cannot be folded makes the enclosing sub-term stay symbolic)."""
    if _pure_board_fn(name):
        return True
    if name not in _PURE:
        b = prog.bodies.get(name)
        ok = b is not None and name.startswith(EV) and b.local_ty(0) != "()" and \
            not any("&mut" in b.local_ty(i) for i in range(1, b.arg_count + 1)) and \
            not any("Evaluation" in b.local_ty(i) or "StateVariation" in b.local_ty(i) or "State" in b.local_ty(i).split("::")[-1] for i in range(0, b.arg_count + 1))
        _PURE[name] = ok
    return _PURE[name]


def _transparent(name):
    """Operators of the score type: their arguments are observed (a different operand is a different score)."""
    return "eval::Evaluation as core::ops::" in name


def _sq_sources(prog, terms):
    """Non-constant terms handed to a Square-typed parameter of a board-module function and not produced by one."""
    out = []
    for t in terms:
        for x in walk(t):
            if x[0] != "call" or not _pure_fn(prog, x[1]):
                continue
            b = prog.bodies.get(x[1])
            if b is None:
                continue
            for i, a in enumerate(x[2]):
                if i >= b.arg_count or not b.local_ty(i + 1).endswith("board::Square"):
                    continue
                if a[0] == "const" or (a[0] == "call" and _pure_fn(prog, a[1])):
                    continue
                if a not in out:
                    out.append(a)
    return out


def _replace(t, mapping):
    if not isinstance(t, tuple) or not t:
        return t
    if t in mapping:
        return mapping[t]
    if t[0] == "const":
        return t
    return tuple(_replace(x, mapping) if isinstance(x, tuple) else x for x in t)


def _closed(t, prog=None):
    """(closed, has_source): every leaf is a constant or a square source and every call is a pure board / core::num / core::cmp helper."""
    k = t[0]
    if k == "param":
        return (t[1] >= _SRC0, t[1] >= _SRC0)
    if k == "const":
        return (True, False)
    if k in ("undef", "var", "opaque", "fn", "icall", "upd", "setdiscr", "repeat", "proj"):
        return (False, False)
    if k == "call":
        pure = (_pure_fn(prog, t[1]) if prog is not None else _pure_board_fn(t[1])) or t[1].startswith("core::num::") or (t[1].startswith("core::cmp::") and t[1].split("::")[-1] in ("min", "max")) \
            or t[1].endswith("From<T>>::from") or t[1] == "core::convert::Into::into"
        if not pure:
            return (False, False)
        kids = t[2]
    else:
        kids = [x for x in t[1:] if isinstance(x, tuple) and x and isinstance(x[0], str)]
        if k == "agg":
            kids = list(t[2])
    has = False
    for x in kids:
        c, h = _closed(x, prog)
        if not c:
            return (False, False)
        has = has or h
    return (True, has)


def _residual(t, env, ws, cache, stats):
    """Term with every maximal closed sub-term that mentions a square source replaced by its folded value."""
    if not isinstance(t, tuple) or not t or t[0] == "const":
        return t
    if not isinstance(t[0], str):      # an argument list
        return tuple(_residual(x, env, ws, cache, stats) if isinstance(x, tuple) else x for x in t)
    c, h = _closed(t, ws.prog)
    if c and h:
        key = (t, tuple(sorted(env.items())))
        if key not in cache:
            try:
                v = fold(t, env, ws)
                cache[key] = ("val", repr(v))
                stats["folded"].add(t)
            except CannotFold as e:
                cache[key] = None
                stats["unfolded"][t] = str(e)
        if cache[key] is not None:
            return cache[key]
        return t
    if c:
        return t
    if t[0] in ("call", "icall") and not (t[0] == "call" and _transparent(t[1])):
        # an opaque call: what it does with a square is unknown, its arguments stay symbolic (same on both sides of the comparison)
        if any(_closed(a, ws.prog) == (True, True) or _mentions_source(a) for a in (t[2] if isinstance(t[2], tuple) else ())):
            stats["opaque"].add(t[1] if t[0] == "call" else "indirect call")
        return t
    return tuple(_residual(x, env, ws, cache, stats) if isinstance(x, tuple) else x for x in t)


def _mentions_source(t):
    return any(x[0] == "param" and x[1] >= _SRC0 for x in walk(t))


def m2_geometry_mirror(ck):
    """Mirror clause, rank geometry: the squares a term reads come from the position (king squares, pieces), so in the mirrored position with the
    colours swapped every such square is the rank-flipped one.  For every function in the terms' scope (except the piece-square lookup, T1) the symbolic
    paths are enumerated; every sub-expression built only from those squares, constants and pure board helpers (rank, file, distances, min/max, ...)
    is folded for all assignments of squares, and the function's behaviour (which paths are feasible, what they add to the score) must be the same
    for an assignment and for its rank-flipped image.  Everything else (counts, weights, occupancy) stays symbolic and is covered by M1."""
    prog = ck.prog
    from symex import SymEx, TooManyPaths
    from callgraph import CallGraph
    table = ck.const(EV + "EVALUATORS", "M2")
    fns = [x["$fn"] for row in table for x in row if isinstance(x, dict) and "$fn" in x]
    cg = CallGraph(prog)
    ORIENTED = EV + "evaluate_piece_squares::evaluate_piece_square"
    seen, _e, _i = cg.reachable(fns)
    scope = sorted(n for n in seen if n.startswith(EV) and n != ORIENTED and not n.startswith(ORIENTED + "::"))
    ws = _Ws(prog)
    # the flip, from the repo's own rank()/file()
    try:
        rk, fl = ws(BOARD + "Square::rank"), ws(BOARD + "Square::file")
        coords = {s: (rk(s), fl(s)) for s in range(64)}
    except (CannotFold, TypeError) as e:
        ck.fail("M2.coords", "Square::rank/file", "", "cannot fold Square::rank / Square::file: %s" % e)
        return
    inv = {v: k for k, v in coords.items()}
    flip = {s: inv.get((7 - coords[s][0], coords[s][1])) for s in range(64)}
    if len(inv) != 64 or any(v is None for v in flip.values()):
        ck.fail("M2.coords", "Square::rank/file", "", "rank()/file() do not give 64 distinct coordinates")
        return
    n_folded = 0
    n_assign = 0
    judged = []
    for n in scope:
        body = prog.raw_body(n)
        try:
            paths = SymEx(prog, body, inline_depth=0, max_paths=3000).run()
        except TooManyPaths:
            ck.note("M2: %s has too many paths, geometry not judged" % n) if hasattr(ck, "note") else None
            continue
        allterms = []
        for p in paths:
            allterms += [c for c, _ in p.conds] + [p.ret]
            for e in p.effects:
                if e[0] in ("call", "icall"):
                    allterms += list(e[2])
                elif e[0] == "store":
                    allterms += [e[1], e[2]]
        srcs = _sq_sources(prog, allterms)
        if not srcs:
            continue
        mapping = {s: ("param", _SRC0 + i) for i, s in enumerate(srcs)}
        # observables per path with sources replaced
        obs = []
        for p in paths:
            conds = [(_replace(c, mapping), tk) for c, tk in p.conds]
            effs = []
            for e in p.effects:
                if e[0] == "call":
                    t = _replace(("call", e[1], e[2]), mapping)
                    if _closed(t, prog)[0]:
                        continue          # pure geometry step: only its uses matter
                    effs.append(t)
                elif e[0] == "icall":
                    effs.append(_replace(("icall", e[1], e[2]), mapping))
                elif e[0] == "store":
                    effs.append(("store", _replace(e[1], mapping), _replace(e[2], mapping)))
            obs.append((conds, effs, _replace(p.ret, mapping)))
        k = len(srcs)
        where = body.where()
        short = "::".join(n.split("::")[-2:])
        if k > 2:
            ck.fail("M2.sources", short, where, "%d different squares feed the geometry of this function; the exhaustive comparison handles at most 2" % k)
            continue
        cache = {}
        stats = {"folded": set(), "unfolded": {}, "opaque": set()}

        def behaviour(sigma):
            env = {_SRC0 + i: v for i, v in enumerate(sigma)}
            out = set()
            for conds, effs, ret in obs:
                rc = []
                feasible = True
                for c, tk in conds:
                    r = _residual(c, env, ws, cache, stats)
                    if r[0] == "val":
                        v = eval(r[1], {"__builtins__": {}}, {})
                        if isinstance(v, bool):
                            v = int(v)
                        if v is None:
                            v = 0
                        elif isinstance(v, tuple) and v and v[0] == "Some":
                            v = 1
                        if isinstance(tk, tuple):
                            if v in tk[1]:
                                feasible = False
                                break
                        elif v != tk:
                            feasible = False
                            break
                    else:
                        rc.append((r, tk))
                if not feasible:
                    continue
                out.add((tuple(rc), tuple(_residual(e, env, ws, cache, stats) for e in effs), _residual(ret, env, ws, cache, stats)))
            return frozenset(out)
        import itertools
        bad = None
        for sigma in itertools.product(range(64), repeat=k):
            n_assign += 1
            a = behaviour(sigma)
            b_ = behaviour(tuple(flip[s] for s in sigma))
            if a != b_:
                diff = sorted(a ^ b_, key=repr)
                bad = (sigma, diff[0])
                break
        n_folded += len(stats["folded"])
        judged.append({"function": short, "squares": k, "paths": len(paths), "folded_subterms": len(stats["folded"]), "unfolded_subterms": len(stats["unfolded"]),
                       "opaque_uses_of_squares": sorted(stats["opaque"])})
        for t, why in sorted(stats["unfolded"].items(), key=repr)[:3]:
            ck.extra.setdefault("M2_unfolded", []).append({"function": short, "term": show(t)[:120], "why": why[:120]})
        names = "abcdefgh"
        sqn = lambda s: "%s%d" % (names[coords[s][1]], coords[s][0] + 1)
        ck.req(bad is None, "M2.geometry_mirror", short, where,
               "the term's geometry is not invariant under the rank flip: with its square(s) on %s it behaves differently than with them on %s (%s)" % (
                   [sqn(s) for s in bad[0]] if bad else "", [sqn(flip[s]) for s in bad[0]] if bad else "", show(bad[1][1][-1] if bad and bad[1][1] else ("const", None, None))[:140] if bad else ""),
               "%d square assignment(s) x %d path(s); %d geometric sub-term(s) folded" % (64 ** k, len(paths), len(stats["folded"])))
    ck.floor("M2", n_folded, 1, "geometric sub-terms folded in the terms' scope")
    ck.extra["M2_judged"] = judged
    ck.extra["M2_assignments"] = n_assign


# ---------------------------------------------------------------------------------------------------------------
# M3: the position summary the terms read is colour-symmetric
# ---------------------------------------------------------------------------------------------------------------
_COMM = ("Add", "Mul", "BitAnd", "BitOr", "BitXor", "Eq", "Ne", "AddUnchecked", "MulUnchecked")
_COMM_TRAITS = ("arith::Add>::add", "arith::Mul>::mul", "bit::BitOr>::bitor", "bit::BitAnd>::bitand", "bit::BitXor>::bitxor")


def _colour_token(x, colour_names):
    if x[0] == "agg" and "color::Color::" in str(x[1]) and x[1].split("::")[-1] in colour_names and not x[2]:
        return x[1].split("::")[-1]
    if x[0] == "const":
        from terms import thaw
        raw = thaw(x[2])
        while isinstance(raw, dict) and "$ref" in raw and len(raw) == 1:
            raw = raw["$ref"]
        if isinstance(raw, dict) and str(raw.get("$ty", "")).endswith("color::Color") and variant_name(x) in colour_names:
            return variant_name(x)
    return None


def _swap_norm(t, colour_names, swap):
    """Term with colour constants replaced by tokens (swapped if asked) and operands of commutative operators sorted."""
    if not isinstance(t, tuple) or not t:
        return t
    if not isinstance(t[0], str):
        return tuple(_swap_norm(x, colour_names, swap) for x in t)
    tok = _colour_token(t, colour_names)
    if tok is not None:
        if swap:
            others = sorted(colour_names - {tok})
            tok = others[0] if len(others) == 1 else tok
        return ("colour", tok)
    if t[0] == "const":
        return t
    out = tuple(_swap_norm(x, colour_names, swap) if isinstance(x, tuple) else x for x in t)
    if out[0] == "bin" and out[1] in _COMM:
        a, b = sorted([out[2], out[3]], key=repr)
        out = out[:2] + (a, b) + out[4:]
    if out[0] == "call" and any(out[1].endswith(k) for k in _COMM_TRAITS) and len(out[2]) == 2:
        out = out[:2] + (tuple(sorted(out[2], key=repr)),) + out[3:]
    return out


def m3_summary_colour_symmetric(ck):
    """Mirror clause, position summary: the data every term reads besides the board (piece counts, colour counts, end-game weight) is computed
    once per position, without a perspective.  Swapping the colours of a position must leave the colour-independent parts unchanged, so a function of
    the summary's construction that names a colour constant must name the other one in the same role: its symbolic behaviour (path conditions, stores,
    calls and result) is required to be the same after exchanging the two constants, up to the order of operands of commutative operators."""
    prog = ck.prog
    from symex import SymEx, TooManyPaths
    from callgraph import CallGraph
    cadt = ck.adt("weechess_core::color::Color", "M3")
    colour_names = {v["name"] for v in cadt["variants"]}
    root = [n for n in prog.bodies if n.startswith("<" + EV + "StateVariation<") and "convert::From<" in n and n.endswith(">::from")]
    if len(root) != 1:
        ck.missing("M3", "the constructor of the position summary (From<&State> for StateVariation), found %d" % len(root))
        return
    cg = CallGraph(prog)
    seen, _e, _i = cg.reachable(root)
    scope = sorted(n for n in seen if n.startswith(EV) or n.startswith("<" + EV))
    n_named = 0
    for n in scope:
        body = prog.raw_body(n)
        try:
            paths = SymEx(prog, body, inline_depth=0, max_paths=3000).run()
        except TooManyPaths:
            continue

        def sig(swap):
            out = set()
            for p in paths:
                effs = []
                for e in p.effects:
                    if e[0] == "call":
                        effs.append(("call", e[1], e[2]))
                    elif e[0] == "icall":
                        effs.append(("icall", e[1], e[2]))
                    elif e[0] == "store":
                        effs.append(("store", e[1], e[2]))
                out.add((_swap_norm(tuple(p.conds), colour_names, swap), tuple(sorted((_swap_norm(e, colour_names, swap) for e in effs), key=repr)),
                         _swap_norm(p.ret, colour_names, swap)))
            return out
        a = sig(False)
        names = any(x[0] == "colour" for s_ in a for x in walk(s_) if isinstance(x, tuple) and x)
        if not names:
            continue
        n_named += 1
        b_ = sig(True)
        diff = sorted(a ^ b_, key=repr)
        short = n.split("::")[-1] if "{closure" in n else "StateVariation::from"
        ck.req(not diff, "M3.summary_symmetric", short, body.where(),
               "the position summary treats the colours differently: exchanging White and Black changes what this function computes (%s)" % (
                   show(diff[0][2])[:160] if diff else ""), "%d path(s) compared with their colour-exchanged image" % len(paths))
    # per-colour data assembled positionally (`ArrayMap::<Color, _>::new([a, b])` with computed a, b): slot 0 is White's and slot 1 Black's
    # only by the enumeration order; the two elements must be each other's image under the colour exchange, otherwise the symmetric
    # treatment of the colours is not established (raw index ranges such as counts[..8] / counts[8..14] cannot be compared)
    for n in scope:
        body = prog.body(n)
        tb2 = TermBuilder(prog, body)
        for bb, t in live_calls(body):
            cn = callee_name(t)
            if not (cn.startswith("weechess_core::utils::ArrayMap") and cn.split("::")[-1] in ("new", "from")):
                continue
            dty = body.local_ty(t["dest"]["l"]) if not t["dest"]["p"] else ""
            if "ArrayMap<weechess_core::color::Color" not in dty:
                continue
            a = tb2.operand(t["args"][0]) if t["args"] else ("none",)
            if a[0] == "agg" and a[1] == "array" and len(a[2]) == len(colour_names):
                elems = list(a[2])
                if all(e[0] == "const" for e in elems):
                    continue
                ok = len(elems) == 2 and _swap_norm(elems[0], colour_names, True) == _swap_norm(elems[1], colour_names, False) and \
                    any(x[0] == "colour" for x in walk(_swap_norm(elems[0], colour_names, False)) if isinstance(x, tuple) and x)
                ck.req(ok, "M3.positional", n.split("::")[-1] if "{closure" in n else "StateVariation::from", body.where(t.get("line")),
                       "per-colour data is assembled positionally from two computed values that are not each other's image under the colour exchange "
                       "(%s / %s): that both colours are counted alike is not established" % (show(elems[0])[:70], show(elems[1])[:70]))
    ck.extra["M3_scope"] = [n.split("::")[-1] for n in scope]
    ck.extra["M3_functions_naming_a_colour"] = n_named


# ---------------------------------------------------------------------------------------------------------------
# M4: the score is a function of the position and the perspective only
# ---------------------------------------------------------------------------------------------------------------
def m4_no_evaluation_state(ck):
    """Both clauses compare two evaluations; they can only agree for all positions if an evaluation does not depend on what was evaluated
    before.  No function reachable from Evaluator::evaluate may read thread-local state or a static with interior mutability (write-once
    tables excepted): a cache keyed by anything less than the whole input makes a position and its mirror (or the two perspectives) see
    different histories."""
    prog = ck.prog
    import json as _json
    import re as _re
    from callgraph import CallGraph
    from .c19 import INTERIOR_MUT
    from .common import write_once_static
    cg = CallGraph(prog)
    # the indirect calls of Evaluator::evaluate go through the EVALUATORS table: its entries are the possible targets
    table = ck.const(EV + "EVALUATORS", "M4")
    terms = [x["$fn"] for row in table for x in row if isinstance(x, dict) and "$fn" in x]
    seen, _e, _i = cg.reachable([EVAL], fn_values=terms)
    # other functions with indirect calls must carry their own table of targets (function values referenced in their body, which
    # reachable() follows); one that does not gets its targets from somewhere this rule does not see
    others = sorted(n for n in seen if n in cg.indirect and n != EVAL and not cg.refs.get(n))
    if others:
        # an indirect call somewhere else: fall back to every address-taken function (over-approximation)
        seen, _e, _i = cg.reachable([EVAL])
    n_fn = 0
    for n in sorted(seen):
        b = prog.raw_body(n)
        if b is None or b.crate not in ("weechess_core", "weechess_engine"):
            continue
        n_fn += 1
        for blk in b.blocks:
            for s_ in blk["stmts"]:
                if s_["k"] == "assign" and "thread_local" in s_["rv"]:
                    ck.fail("M4.thread_local", n.split("::")[-1], b.where(s_.get("line")), "the evaluation reads thread-local state: the score of a position depends on what this thread evaluated before")
        for name in sorted(set(_re.findall(r'"\\$static": "([^"]+)"', _json.dumps(b.j)))):
            st = prog.statics.get(name)
            if st is None:
                continue
            ty = st["ty"]
            if ty.startswith("lazy_static::lazy::Lazy<") or ty == name:
                continue
            if any(m in ty for m in INTERIOR_MUT) or "static mut" in ty:
                once, why = write_once_static(prog, name, st)
                ck.req(once, "M4.static", name.split("::")[-1], b.where(), "the evaluation reads the mutable static `%s: %s`: the score of a position depends on earlier evaluations" % (name, ty[:80]))
    ck.floor("M4", n_fn, 20, "workspace functions reachable from Evaluator::evaluate")
    ck.ok("M4.pure", "Evaluator::evaluate", "", "%d reachable workspace function(s): no thread-local access, no mutable static" % n_fn)
