"""C11 - FEN text and positions round-trip (reader/writer agreement F1-F8).

NOT decided: equality after round trip for all positions / strings; canonical run-length merging (a loop, read only)."""
import re

from facts import callee_name
from terms import TermBuilder, return_term, show, walk, const_value, thaw, scalar, fold, CannotFold
from symex import decision_table
from evalfn import FnModel
import cfg
from .common import live_calls, guards_of, printed_texts, fmt_text, is_iter_next
from .c01 import is_call, variant_name
from discharge import regex_groups

LEVEL = "other"
N = "weechess_core::notation::"
READER = "<weechess_core::notation::fen::Fen as weechess_core::notation::TryFromNotation<weechess_core::state::State>>::try_from_notation"
WRITER = "<weechess_core::notation::fen::Fen as weechess_core::notation::IntoNotation<weechess_core::state::State>>::into_notation"
PIECE_PARSE = N + "fen::<impl weechess_core::piece::PieceIndex>::try_parse"
CASTLE_PARSE = N + "fen::<impl weechess_core::utils::ArrayMap<weechess_core::color::Color, weechess_core::state::CastleRights>>::try_parse"
BOARD_PARSE = N + "fen::<impl weechess_core::board::Board>::try_parse"
PIECES = "<weechess_core::piece::Piece as core::convert::Into<char>>::into::PIECES"
STATE = "weechess_core::state::State::"


def run(ck):
    ck.explanation = (
        "Reader/writer agreement, all necessary for the round trip: F1 the 12 piece letters of the reader's token table map back to the (colour, piece) whose "
        "written letter they are; F2 side letters; F3 castling letters K,Q,k,q with the same (colour, side) on both sides, written in that order, '-' iff no right; "
        "F4 squares: file letter then rank digit on both sides, from_char inverse to the Display tables; F5 field order: regex capture groups 1,3,4,6,7,8 are "
        "board, side, castling, en passant, halfmove, fullmove and feed exactly those State components unchanged; writer emits the same order; F6 orientation: "
        "writer walks ranks 8->1 and files a->h, the reader's cursor i lands on (file i mod 8, rank 7 - i div 8); F7 both counters are usize end to end; "
        "F8 the readers reject only on the recognised failure points (no additional validation that could refuse a FEN the writer produced). "
        "NOT decided: equality after the round trip over all positions/strings, run-length merging.")
    ck.trusted = ["rustc front end and MIR construction", "extractor decoding", "regex crate semantics of the constant pattern", "usize Display/parse are inverse"]
    ck.not_decided = ["equality after the round trip for all positions and all canonical strings", "canonical merging of empty-square runs (a loop, read only)"]
    ck.run_rule(f1_piece_letters)
    ck.run_rule(f2_f3_side_and_castling)
    ck.run_rule(f4_squares)
    ck.run_rule(f5_field_order)
    ck.run_rule(f6_orientation)
    ck.run_rule(f7_f8_counters_and_rejections)
    ck.run_rule(f9_writer_total)
    # equality of a re-read position with the original also needs the board's derived fields to be functions of the placement
    from .c10 import b1_b2_frozen_board
    ck.run_rule(b1_b2_frozen_board)


def piece_letters(ck):
    v = ck.const(PIECES, "F1")
    padt = ck.adt("weechess_core::piece::Piece", "F1")
    return {x["name"]: chr(v[x["discr"]]) for x in padt["variants"] if x["discr"] < len(v)}


def f1_piece_letters(ck):
    prog = ck.prog
    letters = piece_letters(ck)
    rd = ck.body(PIECE_PARSE, "F1")
    table = {}
    for p in decision_table(prog, rd):
        if len(p.conds) == 1 and p.conds[0][0] == ("param", 1) and not isinstance(p.conds[0][1], tuple) and p.ret[0] == "agg" and p.ret[1].endswith("Result::Ok"):
            v = p.ret[2][0]
            if is_call(v, "PieceIndex::new"):
                table[chr(p.conds[0][1])] = (variant_name(v[2][0]), variant_name(v[2][1]))
    ck.floor("F1", len(table), 12, "reader piece tokens")
    # writer: Display for PieceIndex = letter of piece, upper-case iff White
    wd = ck.body("<weechess_core::piece::PieceIndex as core::fmt::Display>::fmt", "F1")
    tb = TermBuilder(prog, wd)
    up = lo = None
    for bb, t in live_calls(wd):
        n = callee_name(t)
        if n.endswith("to_ascii_uppercase") or n.endswith("to_ascii_lowercase"):
            g = guards_of(prog, wd, bb, tb)
            cond = [(c, tk) for c, tk in g if c[0] == "call" and c[1].endswith("::eq")]
            src = tb.operand(t["args"][0])
            from_piece = any(is_call(x, "Into<char>>::into") and is_call(x[2][0], "PieceIndex::piece") for x in walk(src))
            if cond and from_piece:
                c, tk = cond[0]
                col = [variant_name(x) for x in c[2] if variant_name(x)]
                is_color_of_self = any(is_call(x, "PieceIndex::color") for x in c[2])
                if col and is_color_of_self:
                    colour = col[0] if tk is True else ("Black" if col[0] == "White" else "White")
                    if n.endswith("uppercase"):
                        up = colour
                    else:
                        lo = colour
    ck.req(up == "White" and lo == "Black", "F1.case", "Display for PieceIndex", wd.where(), "writer prints upper case for %s and lower case for %s" % (up, lo), "White upper, Black lower")
    for ch, (col, pc) in sorted(table.items()):
        want = letters.get(pc, "?")
        want = want.upper() if col == "White" else want.lower()
        ck.req(want == ch, "F1.letter", "'%s'" % ch, rd.where(), "reader maps '%s' to (%s, %s) but the writer prints that piece as '%s'" % (ch, col, pc, want), "'%s' <-> %s %s" % (ch, col, pc))
    ck.req(len(set(table.values())) == 12, "F1.bijective", "piece tokens", rd.where(), "the 12 tokens do not cover 12 distinct (colour, piece) pairs")
    # Piece::into<char> reads PIECES[self as usize]
    ic = ck.body("<weechess_core::piece::Piece as core::convert::Into<char>>::into", "F1")
    rt = return_term(prog, ic)
    ok = rt is not None and any(x[0] == "index" and any(y == ("discr", ("param", 1)) for y in walk(x[2])) for x in walk(rt))
    ck.req(ok, "F1.table_lookup", "Piece::into<char>", ic.where(), "Piece -> char is not PIECES[self as usize]: %s" % (show(rt) if rt else "?"))


def str_const(t):
    if t[0] == "const":
        v = thaw(t[2])
        while isinstance(v, dict) and "$ref" in v and len(v) == 1:
            v = v["$ref"]
        if isinstance(v, dict) and "$str" in v:
            return v["$str"]
    return None


def writes_with_guards(prog, body, tb):
    """[(text, guards, bb)] for write!(f, "<literal>") calls (Formatter::write_str / write_fmt of a literal)."""
    out = []
    for bb, t in live_calls(body):
        n = callee_name(t)
        if n.endswith("Formatter::<'a>::write_str") or n.endswith("Formatter::<'_>::write_str") or n.endswith("Formatter::write_str") or n.endswith("Write::write_str"):
            txt = str_const(tb.operand(t["args"][1]))
            out.append((txt, guards_of(prog, body, bb, tb), bb))
        elif n.endswith("write_fmt"):
            a = tb.operand(t["args"][1])
            txt = None
            for x in walk(a):
                if x[0] == "const":
                    tt = fmt_text({"const": {"val": thaw(x[2])}})
                    if tt is not None and (txt is None or len(tt) > len(txt)):
                        txt = tt
            out.append((txt, guards_of(prog, body, bb, tb), bb))
    return out


def f2_f3_side_and_castling(ck):
    prog = ck.prog
    rd = ck.body(READER, "F2")
    rtb = TermBuilder(prog, rd)
    wr = ck.body(WRITER, "F2")
    wtb = TermBuilder(prog, wr)
    # reader side letters
    rside = {}
    for bb, blk in enumerate(rd.blocks):
        for s in blk["stmts"]:
            if s["k"] == "assign" and "agg" in s["rv"] and s["rv"]["agg"].get("adt") == "weechess_core::color::Color":
                for c, tk in guards_of(prog, rd, bb, rtb):
                    if tk is True and c[0] == "call" and c[1].endswith("PartialEq for str>::eq"):
                        lit = [str_const(x) for x in c[2] if str_const(x)]
                        if lit:
                            rside[lit[0]] = s["rv"]["agg"]["variant"]
    wside = {}
    wcastle = []
    wdash = None
    cadt = ck.adt("weechess_core::color::Color", "F2")
    cn = {v["discr"]: v["name"] for v in cadt["variants"]}
    for txt, g, bb in writes_with_guards(prog, wr, wtb):
        if txt in ("w", "b"):
            for c, tk in g:
                if c[0] == "discr" and is_call(c[1], STATE + "turn_to_move") and not isinstance(tk, (tuple, bool)):
                    wside[txt] = cn.get(tk)
        if txt in ("K", "Q", "k", "q"):
            for c, tk in g:
                if tk is True and c[0] == "field" and c[2] in ("kingside", "queenside") and is_call(c[1], STATE + "castle_rights"):
                    wcastle.append((txt, variant_name(c[1][2][1]), c[2], bb))
        if txt == "-" and any(is_call(c, "Iterator::all") or is_call(c, "Iterator>::all") for c, tk in g if tk is True):
            wdash = bb
        if txt == "-":
            # explicit form: `rights(White).none() && rights(Black).none()`
            cols = {variant_name(c[2][0][2][1]) for c, tk in g if tk is True and is_call(c, "CastleRights::none") and is_call(c[2][0], STATE + "castle_rights")}
            if cols == set(cn.values()):
                wdash = bb
    ck.req(rside == {"w": "White", "b": "Black"}, "F2.reader", "side letters", rd.where(), "reader maps side letters %s" % rside)
    ck.req(wside == {"w": "White", "b": "Black"}, "F2.writer", "side letters", wr.where(), "writer prints side letters %s" % wside)
    # castling reader
    cr = ck.body(CASTLE_PARSE, "F3")
    ctb = TermBuilder(prog, cr)
    rcastle = {}
    for bb, blk in enumerate(cr.blocks):
        for s in blk["stmts"]:
            if s["k"] == "assign" and s["place"]["p"]:
                fld = [e for e in s["place"]["p"] if isinstance(e, dict) and e.get("f") in ("kingside", "queenside")]
                if not fld:
                    continue
                val = const_value(ctb.rvalue(s["rv"]))
                dest = ctb.local(s["place"]["l"])
                colour = variant_name(dest[2][1]) if is_call(dest, "IndexMut<I>>::index_mut") else None
                for c, tk in guards_of(prog, cr, bb, ctb):
                    if isinstance(tk, int) and not isinstance(tk, bool) and 32 <= tk < 127:
                        rcastle[chr(tk)] = (colour, fld[0]["f"], val)
    want = {"K": ("White", "kingside", True), "Q": ("White", "queenside", True), "k": ("Black", "kingside", True), "q": ("Black", "queenside", True)}
    ck.floor("F3", len(rcastle), 4, "castling letters in the reader")
    for ch, w in sorted(want.items()):
        ck.req(rcastle.get(ch) == w, "F3.reader", "'%s'" % ch, cr.where(), "reader maps castling letter '%s' to %s, expected %s" % (ch, rcastle.get(ch), w), str(w))
    got = {t: (col, side) for t, col, side, bb in wcastle}
    for ch, w in sorted(want.items()):
        ck.req(got.get(ch) == (w[0], w[1]), "F3.writer", "'%s'" % ch, wr.where(), "writer prints '%s' for %s, expected %s" % (ch, got.get(ch), (w[0], w[1])), str((w[0], w[1])))
    # order K Q k q: each later letter's block is reachable from the earlier one's, never backwards
    order = [bb for ch in "KQkq" for t, col, side, bb in wcastle if t == ch]
    good = len(order) == 4
    for a, c in zip(order, order[1:]):
        good = good and c in cfg.reachable(wr, [a]) and a not in cfg.reachable(wr, [c])
    ck.req(good, "F3.order", "KQkq", wr.where(), "castling letters are not written in the order K, Q, k, q")
    ck.req(wdash is not None, "F3.dash", "'-'", wr.where(), "the writer does not print '-' exactly when no colour has a right (Color::ALL.iter().all(none))")
    # reader: '-' => no rights
    dash = False
    for bb, t in live_calls(rd):
        if callee_name(t).endswith("ArrayMap::<I, T>::filled") and const_value(rtb.operand(t["args"][0])) is None:
            a = rtb.operand(t["args"][0])
            if a[0] == "const" and a[1] == "weechess_core::state::CastleRights::NONE":
                g = guards_of(prog, rd, bb, rtb)
                dash = any(tk is True and c[0] == "call" and c[1].endswith("PartialEq for str>::eq") and "-" in [str_const(x) for x in c[2]] for c, tk in g)
    ck.req(dash, "F3.reader_dash", "'-'", rd.where(), "the reader does not map '-' to no castling rights")


def f4_squares(ck):
    prog = ck.prog
    files = ck.const("<weechess_core::board::File as core::fmt::Display>::fmt::FILES", "F4")
    ranks = ck.const("<weechess_core::board::Rank as core::fmt::Display>::fmt::RANKS", "F4")
    ck.req(bytes(files).decode() == "abcdefgh" and bytes(ranks).decode() == "12345678", "F4.tables", "FILES/RANKS", "", "writer tables are %r / %r" % (bytes(files), bytes(ranks)))

    def res(name):
        if name.endswith("to_ascii_uppercase"):
            return lambda c: ord(chr(c).upper()) if c < 128 else c
        return None
    for nm, table in (("File", files), ("Rank", ranks)):
        b = ck.body("weechess_core::board::%s::from_char" % nm, "F4")
        m = FnModel(prog, b, inline_depth=1, calls=res)
        bad = []
        try:
            for i, ch in enumerate(table):
                if m(ch) != ("Some", i):
                    bad.append((chr(ch), m(ch)))
            for ch in (ord("0"), ord("9"), ord("i"), ord("`"), ord("@"), 0x263A):
                r = m(ch)
                if nm == "Rank" and r is not None:
                    bad.append((chr(ch), r))
                if nm == "File" and r is not None and chr(ch).upper() not in "ABCDEFGH":
                    bad.append((chr(ch), r))
        except CannotFold as e:
            bad.append(("fold", str(e)))
        ck.req(not bad, "F4.from_char", nm, b.where(), "%s::from_char is not inverse to the writer's table: %s" % (nm, bad[:4]), "8 letters + out-of-range samples folded")
        d = ck.body("<weechess_core::board::%s as core::fmt::Display>::fmt" % nm, "F4")
        dtb = TermBuilder(prog, d)
        ok = any(x[0] == "index" and x[2] == ("cast", "usize", ("field", ("param", 1), "0")) for blk in d.blocks for s in blk["stmts"] if s["k"] == "assign" for x in walk(dtb.rvalue(s["rv"])))
        ck.req(ok, "F4.display", nm, d.where(), "Display for %s does not print TABLE[self.0]" % nm)
    # Square: text = file then rank on both sides
    sd = ck.body("<weechess_core::board::Square as core::fmt::Display>::fmt", "F4")
    stb = TermBuilder(prog, sd)
    argorder = []
    for bb, t in sorted(live_calls(sd), key=lambda x: x[0]):
        n = callee_name(t)
        if "Argument" in n and "new_display" in n:
            a = stb.operand(t["args"][0])
            if is_call(a, "Square::file"):
                argorder.append("file")
            elif is_call(a, "Square::rank"):
                argorder.append("rank")
    ck.req(argorder == ["file", "rank"], "F4.square_writer", "Display for Square", sd.where(), "Square is written as %s" % argorder, "file then rank")
    st = ck.body("<weechess_core::board::Square as core::convert::TryFrom<&str>>::try_from", "F4")
    ttb = TermBuilder(prog, st)
    got = {}
    for bb, t in live_calls(st):
        n = callee_name(t)
        if n.endswith("File::from_char") or n.endswith("Rank::from_char"):
            a = ttb.operand(t["args"][0])
            nth = [x for x in walk(a) if is_call(x, "Iterator::nth") or is_call(x, "Iterator>::nth")]
            if nth:
                got[n.split("::")[-2]] = const_value(nth[0][2][1])
    ck.req(got == {"File": 0, "Rank": 1}, "F4.square_reader", "Square::try_from(&str)", st.where(), "reader takes characters %s" % got, "char 0 = file, char 1 = rank")
    rt = [ttb.call_term(t) for bb, t in live_calls(st) if "From<(weechess_core::board::File, weechess_core::board::Rank)>" in callee_name(t) or callee_name(t).endswith("Rank)>>::from")]
    ck.req(len(rt) == 1, "F4.square_build", "Square::try_from(&str)", st.where(), "reader does not build the square from (file, rank)")


def f5_field_order(ck):
    prog = ck.prog
    rd = ck.body(READER, "F5")
    tb = TermBuilder(prog, rd)
    pat = ck.const(N + "fen::FEN_REGEX", "F5")["$str"]
    groups = regex_groups(pat)
    ck.req(groups is not None and len(groups) == 8, "F5.regex_groups", "FEN_REGEX", "", "FEN_REGEX does not have 8 capture groups: %s" % groups)
    # what each group can contain: find the text of group k
    spans = _group_texts(pat)
    kinds = {}
    for k, txt in spans.items():
        if "rnbqkp" in txt and "/" in txt and k == 1:
            kinds[k] = "board"
        elif txt in ("[b|w]", "[w|b]", "[bw]", "[wb]"):
            kinds[k] = "side"
        elif txt.startswith("-|(") and "K" in txt:
            kinds[k] = "castling"
        elif txt.startswith("-|[a-h]"):
            kinds[k] = "ep"
        elif txt == r"\d+":
            kinds.setdefault(k, "counter")
    # State::new argument provenance
    news = live_calls(rd, names=(STATE + "new",))
    ck.req(len(news) == 1, "F5.state_new", "reader", rd.where(), "expected one State::new call in the reader, found %d" % len(news))
    if len(news) != 1:
        return
    a = [tb.operand(x) for x in news[0][1]["args"]]

    def _sep(x):
        from terms import thaw
        v = thaw(x[2]) if x[0] == "const" else None
        while isinstance(v, dict) and "$ref" in v and len(v) == 1:
            v = v["$ref"]
        if isinstance(v, dict):
            v = v.get("$str", v.get("$char"))
        if isinstance(v, int):
            v = chr(v)
        return v

    def group_of(t):
        """Which piece of the input text the value is read from: ('group', k) = regex capture group k,
        ('split', k) = k-th piece of the text split on single spaces (the writer's separator)."""
        gs = set()
        for x in walk(t):
            if is_call(x, "Captures<'h> as core::ops::index::Index<usize>>::index"):
                gs.add(("group", const_value(x[2][1])))
            elif x[0] == "call" and "ops::index::Index<" in x[1] and x[1].endswith("::index") and len(x[2]) == 2:
                src = [y for y in walk(x[2][0]) if y[0] == "call" and y[1] == "core::str::<impl str>::split"]
                if src and src[0][2][0] == ("param", 1) and _sep(src[0][2][1]) == " " and const_value(x[2][1]) is not None:
                    gs.add(("split", const_value(x[2][1])))
        return gs
    # values may be bound to locals with several defs (match arms): collect defs
    def all_terms(op):
        t = tb.operand(op)
        out = [t]
        if t[0] == "var":
            for d in tb.d.defs.get(t[1], []):
                out.append(tb.call_term(d[2]) if d[0] == "call" else tb.rvalue(d[3]))
        return out
    argops = news[0][1]["args"]
    want = [("board", 1, BOARD_PARSE), ("side", 3, None), ("castling", 4, CASTLE_PARSE), ("ep", 6, "TryFrom<&str>>::try_from")]
    split_pos = {"board": 0, "side": 1, "castling": 2, "ep": 3}
    for i, (nm, grp, via) in enumerate(want):
        ts = all_terms(argops[i])
        gs = set()
        for t in ts:
            gs |= group_of(t)
        # side is decided by a match on groups[3]: look at the guards of the Color aggregates
        if nm == "side":
            for bb, blk in enumerate(rd.blocks):
                for s in blk["stmts"]:
                    if s["k"] == "assign" and "agg" in s["rv"] and s["rv"]["agg"].get("adt") == "weechess_core::color::Color":
                        for c, tk in guards_of(prog, rd, bb, tb):
                            if c[0] == "call" and c[1].endswith("PartialEq for str>::eq"):
                                gs |= group_of(c)
        ck.req((gs == {("group", grp)} and kinds.get(grp) == nm) or gs == {("split", split_pos[nm])}, "F5.group", nm, rd.where(),
               "State component `%s` is read from %s of the text (expected capture group %d = `%s` of the pattern, or piece %d of the space-separated text)"
               % (nm, sorted(gs) or "no identifiable piece", grp, kinds.get(grp), split_pos[nm]), "%s" % sorted(gs))
        if via:
            used = any(is_call(x, via) for t in ts for x in walk(t))
            ck.req(used, "F5.parser", nm, rd.where(), "component `%s` does not come from %s" % (nm, via.split("::")[-1]))
        # no post-processing: every definition of the value is a parser result / constant, not a mutated local
        if nm in ("castling", "ep", "board"):
            t0 = tb.operand(argops[i])
            if t0[0] == "var":
                mutated = t0[1] in tb.d.mutated or t0[1] in tb.d.borrowed_mut
                ck.req(not mutated, "F5.unmodified", nm, rd.where(), "the parsed `%s` is modified after parsing before it is stored in the State: what is read back can differ from what was written" % nm)
    clock = a[4]
    ok = clock[0] == "agg" and clock[1].endswith("Clock::Clock")
    if ok:
        g0, g1 = group_of(clock[2][0]), group_of(clock[2][1])
        ck.req((g0 == {("group", 7)} and g1 == {("group", 8)}) or (g0 == {("split", 4)} and g1 == {("split", 5)}), "F5.group", "counters", rd.where(),
               "halfmove/fullmove are read from groups %s/%s, expected 7/8" % (sorted(group_of(clock[2][0])), sorted(group_of(clock[2][1]))))
    else:
        ck.fail("F5.group", "counters", rd.where(), "clock is not built as Clock { halfmove, fullmove } from the parsed groups")
    # State::new stores its arguments in the like-named fields
    sn = ck.body(STATE + "new", "F5")
    rt = return_term(prog, sn)
    adt = ck.adt("weechess_core::state::State", "F5")
    fields = [f["name"] for f in adt["variants"][0]["fields"]]
    good = rt is not None and rt[0] == "agg" and list(rt[2]) == [("param", i + 1) for i in range(5)] and fields == ["board", "turn_to_move", "castle_rights", "en_passant_target", "clock"]
    ck.req(good, "F5.state_new_fields", "State::new", sn.where(), "State::new does not store (board, turn, castling, ep, clock) in that order")
    # writer order
    wr = ck.body(WRITER, "F5")
    wtb = TermBuilder(prog, wr)
    firsts = {}
    for bb, t in sorted(live_calls(wr), key=lambda x: x[0]):
        n = callee_name(t)
        for acc in ("board", "turn_to_move", "castle_rights", "en_passant_target", "clock"):
            if n == STATE + acc and acc not in firsts:
                firsts[acc] = bb
    seq = ["board", "turn_to_move", "castle_rights", "en_passant_target", "clock"]
    good = all(k in firsts for k in seq)
    if good:
        for x, y in zip(seq, seq[1:]):
            good = good and firsts[y] in cfg.reachable(wr, [firsts[x]]) and firsts[x] not in cfg.reachable(wr, [firsts[y]], avoid_edges=cfg.back_edges(wr))
    ck.req(good, "F5.writer_order", "writer", wr.where(), "the writer does not emit board, side, castling, en passant, counters in that order (%s)" % firsts)
    # separators: exactly one space is written between consecutive fields (the reader accepts one whitespace character
    # between groups / splits on single spaces), and nowhere else
    from .common import fmt_text
    lits = []
    for bb, t in live_calls(wr):
        n = callee_name(t)
        if n.startswith("core::fmt::Arguments::") and (n.endswith("::from_str") or n.endswith("::new") or n.endswith("::new_const")):
            txt = fmt_text(t["args"][0]) if "const" in t["args"][0] else None
            if txt is None:
                a0 = wtb.operand(t["args"][0])
                for x in walk(a0):
                    if x[0] == "const":
                        from terms import thaw
                        txt = fmt_text({"const": {"val": thaw(x[2])}})
                        if txt is not None:
                            break
            lits.append((bb, txt))
    ck.floor("F5", len(lits), 10, "literal pieces written by the FEN writer")
    undec = [bb for bb, txt in lits if txt is None]
    ck.req(not undec, "F5.separators", "decoded", wr.where(), "a format template of the FEN writer could not be decoded (bb%s)" % undec[:2])
    ws = [(bb, txt) for bb, txt in lits if txt is not None and any(c.isspace() for c in txt)]
    ck.req(len(ws) == 5 and all(txt == " " for bb, txt in ws), "F5.separators", "five single spaces", wr.where(),
           "the writer emits whitespace as %s: the reader expects exactly one space between the six fields" % [txt for bb, txt in ws])
    ck.req(not any(cfg.in_cycle(wr, bb) for bb, txt in ws), "F5.separators", "not in a loop", wr.where(), "a field separator is written inside a loop")
    if good and len(ws) == 5:
        order = sorted(ws, key=lambda x: len(cfg.reachable(wr, [x[0]])), reverse=True)
        marks = [firsts[k] for k in seq]
        okk = True
        for i in range(4):
            sb = order[i][0]
            okk = okk and sb in cfg.reachable(wr, [marks[i]]) and marks[i + 1] in cfg.reachable(wr, [sb])
        ck.req(okk, "F5.separators", "between fields", wr.where(), "the single spaces are not written between consecutive fields")
    # halfmove before fullmove
    clk = []
    for blk in wr.blocks:
        for s in blk["stmts"]:
            if s["k"] == "assign":
                t = wtb.rvalue(s["rv"])
                if t[0] == "field" and t[2] in ("halfmove_clock", "fullmove_number") and is_call(t[1], STATE + "clock"):
                    clk.append(t[2])
    dd = []
    for x in clk:
        if x not in dd:
            dd.append(x)
    ck.req(dd == ["halfmove_clock", "fullmove_number"], "F5.counter_order", "writer", wr.where(), "counters are written as %s" % dd)


def _group_texts(pat):
    """capture group index -> inner text"""
    out = {}
    stack = []
    idx = 0
    i = 0
    while i < len(pat):
        c = pat[i]
        if c == "\\":
            i += 2
            continue
        if c == "[":
            j = i + 1
            while j < len(pat) and pat[j] != "]":
                if pat[j] == "\\":
                    j += 1
                j += 1
            i = j + 1
            continue
        if c == "(":
            cap = pat[i + 1:i + 2] != "?"
            if cap:
                idx += 1
            stack.append((idx if cap else None, i))
        elif c == ")":
            g, st = stack.pop()
            if g is not None:
                inner = pat[st + 1:i]
                out[g] = inner
        i += 1
    return out


def f6_orientation(ck):
    prog = ck.prog
    wr = ck.body(WRITER, "F6")
    wtb = TermBuilder(prog, wr)
    sq = [wtb.call_term(t) for bb, t in live_calls(wr) if callee_name(t).endswith("Rank)>>::from") and "File" in callee_name(t)]
    good = len(sq) == 1
    if good:
        tup = sq[0][2][0]
        f, r = tup[2] if tup[0] == "agg" and tup[1] == "tuple" else (None, None)
        good = f is not None and any(x[0] == "const" and x[1] == "weechess_core::board::File::ALL" for x in walk(f)) and any(x[0] == "const" and x[1] == "weechess_core::board::Rank::ALL" for x in walk(r)) \
            and any(is_call(x, "Iterator::rev") for x in walk(r)) and not any(is_call(x, "Iterator::rev") for x in walk(f))
    ck.req(good, "F6.writer", "writer", wr.where(), "the writer does not walk Rank::ALL reversed (8 -> 1) and File::ALL forward (a -> h)")
    # F6.all_squares: the writer's loops over the ranks and the files run to the end: they are left only when the iterator is exhausted
    # or a write failed (`?`).  A shortcut exit ("nothing left to write") changes the number of ranks / squares written.
    succ_w = wr.successors()
    n_loops = 0
    for be in cfg.back_edges(wr):
        loop = cfg.natural_loop(wr, be)
        heads = [x for x in loop if wr.term(x)["k"] == "call" and is_iter_next(callee_name(wr.term(x)))]
        if not heads:
            continue
        src = wtb.operand(wr.term(heads[0])["args"][0])
        over = [x[1].split("::")[-2] for x in walk(src) if x[0] == "const" and x[1] in ("weechess_core::board::Rank::ALL", "weechess_core::board::File::ALL")]
        if not over:
            continue
        n_loops += 1
        for x in sorted(loop):
            for s_ in succ_w[x]:
                if s_ in loop or wr.is_cleanup(s_):
                    continue
                t = wr.term(x)
                c = wtb.operand(t["discr"]) if t["k"] == "switch" else None
                exhausted = c is not None and c[0] == "discr" and any(y[0] == "call" and is_iter_next(y[1]) for y in walk(c)) and x in cfg.dominators(wr).get(heads[0], set()) | {heads[0]} or \
                    (c is not None and c[0] == "discr" and c[1][0] == "call" and is_iter_next(c[1][1]))
                write_failed = c is not None and c[0] == "discr" and c[1][0] == "call" and c[1][1].endswith("Try>::branch")
                ck.req(exhausted or write_failed, "F6.all_squares", "%s loop@bb%d" % (over[0], x), wr.where(t.get("line")),
                       "the writer can leave its loop over %s::ALL early (on %s): some ranks / squares are not written" % (over[0], show(c)[:80] if c else t["k"]))
    ck.floor("F6", n_loops, 2, "writer loops over Rank::ALL and File::ALL")
    bp = ck.body(BOARD_PARSE, "F6")
    btb = TermBuilder(prog, bp)
    # map[square] = piece with square = Square::from((file(sq0), opposing_rank(rank(sq0)))), sq0 = Square::try_from(location_index)
    idx = [t for bb, t in live_calls(bp) if callee_name(t).endswith("IndexMut<I>>::index_mut")]
    good = len(idx) == 1
    cursor_local = None      # the scan cursor: the (multiply assigned) local whose value Square::try_from turns into the square
    if good:
        sq_t = btb.operand(idx[0]["args"][1])
        good = is_call(sq_t, "Rank)>>::from")
        if good:
            tup = sq_t[2][0]
            f, r = tup[2]
            src = [x for x in walk(sq_t) if is_call(x, "TryFrom<u8>>::try_from")]
            good = bool(src) and src[0][2][0][0] == "var"
            if good:
                cursor_local = src[0][2][0][1]
            good = good and is_call(r, "Rank::opposing_rank") and f[0] == "field" and f[2] == "1" and r[2][0][0] == "field" and r[2][0][2] == "0" and is_call(f[1], "Square::rank_file")
    ck.req(good, "F6.reader", "Board::try_parse", bp.where(), "the reader does not place cursor i on (file of i, opposing rank of i)")
    rf = ck.body("weechess_core::board::Square::rank_file", "F6")
    rt = return_term(prog, rf)
    ck.req(rt == ("agg", "tuple", (("call", "weechess_core::board::Square::rank", (("param", 1),)), ("call", "weechess_core::board::Square::file", (("param", 1),)))), "F6.rank_file", "Square::rank_file", rf.where(),
           "rank_file is not (rank(), file())")
    orr = ck.body("weechess_core::board::Rank::opposing_rank", "F6")
    m = FnModel(prog, orr, inline_depth=1)
    try:
        ok = all(m(i) == 7 - i for i in range(8))
    except CannotFold:
        ok = False
    ck.req(ok, "F6.opposing_rank", "Rank::opposing_rank", orr.where(), "opposing_rank is not 7 - rank")
    # cursor advances: +1 per piece, +digit per digit, '/' ignored
    adds = []
    for blk in bp.blocks:
        for s in blk["stmts"]:
            if s["k"] == "assign" and not s["place"]["p"] and cursor_local is not None and s["place"]["l"] == cursor_local:
                adds.append(btb.rvalue(s["rv"]))
    kinds = set()
    for t in adds:
        if const_value(t) == 0:
            kinds.add("init")
        elif t[0] == "bin" and t[1] == "Add" and 1 in (const_value(t[2]), const_value(t[3])):
            kinds.add("piece")
        elif any(is_call(x, "checked_add") for x in walk(t)) and (any(is_call(x, "to_digit") for x in walk(t)) or
                                                                   any(x[0] == "bin" and x[1] in ("Sub", "SubUnchecked") and const_value(x[3]) == 48 for x in walk(t))):
            kinds.add("digit")       # run length = digit value of the character: to_digit(10) or `c as u8 - b'0'`
        else:
            kinds.add("other:" + show(t)[:60])
    ck.req(kinds == {"init", "piece", "digit"}, "F6.cursor", "Board::try_parse", bp.where(), "cursor updates are %s" % sorted(kinds))


def f7_counter_types(ck):
    """F7.types / F7.parse on their own (shared with C02: a narrower counter stops counting in long games)."""
    clock = ck.adt("weechess_core::state::Clock", "F7")
    tys = {f["name"]: f["ty"] for f in clock["variants"][0]["fields"]}
    ck.req(tys == {"halfmove_clock": "usize", "fullmove_number": "usize"}, "F7.types", "Clock", "", "Clock fields are %s" % tys)
    rd = ck.body(READER, "F7")
    parses = [t for bb, t in live_calls(rd) if callee_name(t).endswith("<impl str>::parse")]
    ck.req(len(parses) == 2 and all(t.get("generics", [""])[0] == "usize" for t in parses), "F7.parse", "reader", rd.where(), "counters are parsed as %s" % [t.get("generics") for t in parses])


def f7_f8_counters_and_rejections(ck):
    prog = ck.prog
    clock = ck.adt("weechess_core::state::Clock", "F7")
    tys = {f["name"]: f["ty"] for f in clock["variants"][0]["fields"]}
    ck.req(tys == {"halfmove_clock": "usize", "fullmove_number": "usize"}, "F7.types", "Clock", "", "Clock fields are %s" % tys)
    rd = ck.body(READER, "F7")
    parses = [t for bb, t in live_calls(rd) if callee_name(t).endswith("<impl str>::parse")]
    ck.req(len(parses) == 2 and all(t.get("generics", [""])[0] == "usize" for t in parses), "F7.parse", "reader", rd.where(), "counters are parsed as %s" % [t.get("generics") for t in parses])
    # F8: rejection points
    expected = {
        READER: 7,       # captures, board, castle, ep square, 2 counters via `?` + the `_ => return Err(())` of the side match
        BOARD_PARSE: 4,  # to_digit, checked_add, piece token, square
        CASTLE_PARSE: 1,  # unknown letter
        PIECE_PARSE: 1,   # unknown token
    }
    for name, want in expected.items():
        b = ck.body(name, "F8")
        n = 0
        for bb, t in live_calls(b):
            if "from_residual" in callee_name(t):
                n += 1
        for bb, blk in enumerate(b.blocks):
            if blk.get("cleanup"):
                continue
            for s in blk["stmts"]:
                if s["k"] == "assign" and s["place"] == {"l": 0, "p": []} and "agg" in s["rv"] and s["rv"]["agg"].get("variant") == "Err":
                    n += 1
        # only an ADDED rejection can break the round trip (refuse text the writer produces); a removed one accepts more text, which is not
        # this property's business (C14 decides that no accepted text panics)
        ck.req(n <= want, "F8.rejections", name.split("::")[-2] + "::" + name.split("::")[-1], b.where(),
               "the reader has %d rejection points, %d were reviewed: an added validation can refuse text the writer itself produces (review it and update the rule)"
               % (n, want), "%d rejection points (%d reviewed)" % (n, want))


def f9_writer_total(ck):
    """The round trip starts with writing: every position must be written in full, whatever its counters.  The writer and the workspace
    functions it reaches may fail only when the formatter they write into fails - none of them produces a `fmt::Error` of its own (a
    fixed-capacity staging buffer that reports "full" does).  `write!` reaches a workspace `impl fmt::Write` only through core's vtable, so
    the sinks a reachable function constructs are added by their type."""
    prog = ck.prog
    import json as _json
    from callgraph import CallGraph
    cg = CallGraph(prog)
    seen, _e, _i = cg.reachable([WRITER], fn_values=[])
    seen = set(seen)
    # workspace sinks: impl core::fmt::Write for T, T mentioned by a reachable function
    sinks = []
    for im in prog.impls:
        if (im.get("trait") or "").endswith("fmt::Write") and im["self_ty"].startswith("weechess_"):
            ty = im["self_ty"]
            if any(any(ty in str(l.get("ty", "")) for l in prog.raw_body(n).locals) for n in seen if prog.raw_body(n) is not None):
                sinks.append(ty)
                for n2 in prog.bodies:
                    if n2.startswith("<" + ty + " as ") and "fmt::Write" in n2:
                        more, _e2, _i2 = cg.reachable([n2], fn_values=[])
                        seen |= set(more)
    n = 0
    for name in sorted(seen):
        b = prog.raw_body(name)
        if b is None or b.crate not in ("weechess_core", "weechess_engine"):
            continue
        n += 1
        txt = _json.dumps(b.j["blocks"])
        if '"ty": "core::fmt::Error"' in txt or '"adt": "core::fmt::Error"' in txt:
            ck.fail("F9.writer_total", name.split("::")[-1], b.where(),
                    "a function the FEN writer reaches produces a formatting error of its own (e.g. a full fixed-size buffer): some legal positions - long "
                    "placements with huge counters - cannot be written at all")
    ck.floor("F9", n, 5, "workspace functions reachable from the FEN writer")
    ck.ok("F9.writer_total", "FEN writer", "", "%d reachable workspace function(s), %d workspace fmt::Write sink(s): no fmt::Error of their own" % (n, len(sinks)))
