"""C15 - Transposition table is a faithful bounded map (proof).

Sequential contract as structural invariants (T1-T5) and the reduction of all concurrent
histories to sequential ones (T6-T8): every operation is one critical section under the table's
RwLock in unsafe-free code."""
from facts import callee_name
from terms import TermBuilder, return_term, show, const_value, walk
from symex import decision_table
import cfg
from .common import live_calls, closure_upvar_terms, is_upvar, ws_bodies, INTERIOR_MUT, fn_of

LEVEL = "proof"
S = "weechess_engine::searcher::"
BUCKET = S + "TranspositionBucket"
TABLE = S + "TranspositionTable"
ACCESS = S + "TranspositionTableAccess"
RESULT = S + "TranspositionInsertionResult"
LOCK_CALLS = ("::read", "::write", "::try_read", "::try_write", "::lock", "::try_lock")


def is_lock_call(n):
    return ("rwlock::RwLock" in n or "mutex::Mutex" in n) and n.endswith(LOCK_CALLS)


def run(ck):
    ck.explanation = (
        "T1 a hit is returned only under equality of the slot's stored key with the unmodified 64-bit key parameter; "
        "T2 find and insert route identically at both layers and pass the key down unchanged; T3 slots are only ever written Some((key, entry)) "
        "with the parameters themselves; T4 the evicting indexed write happens only after the in-order scan found neither an empty slot nor the key, "
        "at an index reduced modulo the slot count; T5 used_slots is incremented exactly when insert_or_replace reports the variant that is produced "
        "exactly by filling an empty slot, capacity = buckets x slot-array length; T6 no unsafe; T7 table state is only reachable through its RwLock "
        "with &mut methods under the write guard; T8 each Access operation takes exactly one blocking guard and performs the whole table operation "
        "under it on every path. T6-T8 make every operation atomic, so every concurrent history is equivalent to a sequential one, for which "
        "T1-T5 give the contract.")
    ck.trusted = ["rustc front end and MIR construction", "extractor decoding", "std::sync::RwLock provides mutual exclusion",
                  "slice iter()/iter_mut()/find_map visit elements in index order"]
    ck.not_decided = ["zero buckets / zero tables (excluded by the property; with_tables asserts > 0)"]
    ck.run_rule(t1_key_check)
    ck.run_rule(t2_routing)
    ck.run_rule(t3_never_emptied)
    ck.run_rule(t4_eviction)
    ck.run_rule(t5_accounting)
    ck.run_rule(t6_no_unsafe)
    ck.run_rule(t7_lock_discipline)
    ck.run_rule(t8_one_critical_section)


# -------------------------------------------------------------------------------- T1


def slot_layout(ck, rule):
    """(key component indices, value component index, arity) of a bucket slot `Option<(.., key, .., entry, ..)>`,
    read from the type of TranspositionBucket::entries; the value is the unique TranspositionEntry component."""
    adt = ck.adt(BUCKET, rule)
    tys = [f["ty"] for f in adt["variants"][0]["fields"] if f["name"] == "entries"]
    if not tys:
        ck.missing(rule, "field TranspositionBucket::entries")
        raise AnchorMissingLocal()
    ty = tys[0]
    i = ty.find("Option<(")
    if i < 0:
        ck.missing(rule, "slot type Option<(key, entry)> in %s" % ty)
        raise AnchorMissingLocal()
    j = i + len("Option<(")
    depth, comps, cur = 0, [], ""
    while j < len(ty):
        c = ty[j]
        if c in "(<[":
            depth += 1
        elif c in ")>]":
            if depth == 0:
                break
            depth -= 1
        if c == "," and depth == 0:
            comps.append(cur.strip())
            cur = ""
        else:
            cur += c
        j += 1
    if cur.strip():
        comps.append(cur.strip())
    vals = [k for k, c in enumerate(comps) if c.endswith("TranspositionEntry")]
    keys = [k for k, c in enumerate(comps) if c == "u64"]
    if len(vals) != 1 or not keys:
        ck.missing(rule, "one TranspositionEntry component and a u64 key component in the slot type (%s)" % comps)
        raise AnchorMissingLocal()
    return keys, vals[0], len(comps)


class AnchorMissingLocal(Exception):
    pass


def t1_key_check(ck):
    prog = ck.prog
    try:
        key_idx, val_idx, _n = slot_layout(ck, "T1")
    except AnchorMissingLocal:
        return
    find = ck.body(BUCKET + "::find", "T1")
    bodies = [find] + [prog.body(n) for n in prog.closures_of(find.name)]
    hits = 0
    for b in bodies:
        # how this body refers to find's `hash` parameter
        if b is find:
            def is_key(t):
                return t == ("param", 2)
        else:
            ups = closure_upvar_terms(prog, fn_of(prog, b), b.name)
            if ups is None:
                ck.fail("T1", b.name, b.where(), "cannot relate closure captures to TranspositionBucket::find")
                continue
            key_upvars = [i for i, u in enumerate(ups) if u == ("param", 2)]

            def is_key(t, key_upvars=key_upvars):
                return any(is_upvar(t, i) for i in key_upvars)
        for p in decision_table(prog, b):
            r = p.ret
            if not (r[0] == "agg" and r[1].endswith("Option::Some")):
                continue
            if b is find and r[0] == "call":
                continue
            hits += 1
            val = r[2][0]
            if not (val[0] == "field" and val[2] == str(val_idx)):
                ck.fail("T1", b.name, b.where(), "hit returns %s, which is not the value part (.%d) of a slot" % (show(val), val_idx))
                continue
            slot = val[1]
            wants = [("field", slot, str(k)) for k in key_idx]
            good = False
            seen = []
            for c, taken in p.conds:
                if c[0] == "bin" and c[1] == "Eq" and taken != 0:
                    a, bb_ = c[2], c[3]
                    seen.append(show(c))
                    if (a in wants and is_key(bb_)) or (bb_ in wants and is_key(a)):
                        good = True
                if c[0] == "call" and c[1].endswith("::eq") and taken != 0:
                    a, bb_ = c[2]
                    seen.append(show(c))
                    if (a in wants and is_key(bb_)) or (bb_ in wants and is_key(a)):
                        good = True
            ck.req(good, "T1", b.name, b.where(),
                   "a path returns Some(&slot.1) without the guard `slot.0 == hash` on the full, unmodified key parameter (guards on this path: %s)" % (seen or "none"),
                   "Some(&slot.1) only under slot.0 == hash")
            ck.sample({"rule": "T1", "body": b.name, "guards": seen, "returns": show(r)})
    # second accepted form: entries.iter()[.flatten()].find(|slot| slot.key == hash).map(|slot| &slot.value)
    rt0 = return_term(prog, find)
    if hits == 0 and rt0 is not None and rt0[0] == "call" and rt0[1].endswith("Option::<T>::map") and len(rt0[2]) == 2 \
            and rt0[2][0][0] == "call" and rt0[2][0][1].endswith("Iterator::find"):
        fc = rt0[2][0]
        pred_t, proj_t = fc[2][1], rt0[2][1]
        pred_n = pred_t[1][len("closure:"):] if pred_t[0] == "agg" and str(pred_t[1]).startswith("closure:") else None
        proj_n = proj_t[1][len("closure:"):] if proj_t[0] == "agg" and str(proj_t[1]).startswith("closure:") else None
        pb, jb = (prog.body(pred_n) if pred_n else None), (prog.body(proj_n) if proj_n else None)
        if pb is None or jb is None:
            ck.fail("T1", "find", find.where(), "find(..).map(..) is not given two closures defined in place")
        else:
            ups = closure_upvar_terms(prog, find, pb.name) or []
            key_upvars = [i for i, u in enumerate(ups) if u == ("param", 2)]
            good_pred = False
            seen = []
            for p in decision_table(prog, pb):
                r = p.ret
                conds = [c for c, taken in p.conds if taken != 0] + ([r] if r[0] in ("bin", "call") else [])
                truthy = r[0] in ("bin", "call") or (r[0] == "const" and r[2] not in (0, False))
                if not truthy:
                    continue
                ok = False
                for c in conds:
                    a = b_ = None
                    if c[0] == "bin" and c[1] == "Eq":
                        a, b_ = c[2], c[3]
                    elif c[0] == "call" and c[1].endswith("::eq") and len(c[2]) == 2:
                        a, b_ = c[2]
                    if a is None:
                        continue
                    seen.append(show(c))
                    for k in key_idx:
                        want = ("field", ("param", 2), str(k))
                        if (a == want and any(is_upvar(b_, i) for i in key_upvars)) or (b_ == want and any(is_upvar(a, i) for i in key_upvars)):
                            ok = True
                good_pred = ok
                if not ok:
                    break
            hits += 1
            ck.req(good_pred, "T1", pb.name, pb.where(),
                   "the find predicate can accept a slot without `slot.key == hash` on the full, unmodified key parameter (tests seen: %s)" % (seen or "none"),
                   "predicate = (slot.key == hash)")
            jr = return_term(prog, jb)
            ck.req(jr == ("field", ("param", 2), str(val_idx)), "T1", jb.name, jb.where(),
                   "the projection after find returns %s, which is not the value part (.%d) of the slot found" % (show(jr) if jr else "?", val_idx),
                   "projection = &slot.value")
            ck.sample({"rule": "T1", "form": "find+map", "predicate": seen})
    ck.floor("T1", hits, 1, "paths of TranspositionBucket::find that return a hit")
    # find itself must return what the search over its own slots yields (no other source of hits)
    rt = return_term(prog, find)
    if rt is not None and rt[0] == "call":
        recv = rt[2][0] if rt[2] else None
        good = recv is not None and any(x == ("field", ("param", 1), "entries") for x in walk(recv))
        ck.req(good, "T1.source", "find", find.where(), "find does not search `self.entries` (searches %s)" % (show(recv) if recv else "?"))


# -------------------------------------------------------------------------------- T2


def index_call_arg(prog, body, container_field):
    """Index term used to select an element of self.<container_field> (via Index/IndexMut or a[i])."""
    tb = TermBuilder(prog, body)
    out = []
    for bb, t in live_calls(body):
        n = callee_name(t)
        if n.endswith("::index") or n.endswith("::index_mut") or n.endswith("::get") or n.endswith("::get_mut"):
            a = [tb.operand(x) for x in t["args"]]
            if a and a[0] == ("field", ("param", 1), container_field):
                out.append(a[1])
    return out


def t2_routing(ck):
    prog = ck.prog
    pairs = 0
    for owner, field, inner_find, inner_ins in ((TABLE, "buckets", BUCKET + "::find", BUCKET + "::insert_or_replace"),
                                                (ACCESS, "tables", TABLE + "::find", TABLE + "::insert")):
        f = ck.body(owner + "::find", "T2")
        i = ck.body(owner + "::insert", "T2")
        fi = index_call_arg(prog, f, field)
        ii = index_call_arg(prog, i, field)
        if len(fi) != 1 or len(ii) != 1:
            ck.fail("T2", owner, f.where(), "expected exactly one element selection on self.%s in find and insert (found %d / %d)" % (field, len(fi), len(ii)))
            continue
        pairs += 1
        ck.req(fi[0] == ii[0], "T2.route", owner.split("::")[-1], f.where(),
               "find routes by %s but insert routes by %s: a stored entry can be unreachable" % (show(fi[0]), show(ii[0])),
               "both route by %s" % show(fi[0]))
        dep = any(x == ("param", 2) for x in walk(fi[0]))
        ck.req(dep, "T2.depends", owner.split("::")[-1], f.where(), "routing term %s does not depend on the key" % show(fi[0]))
        # modulo the container length (bounds) -- index is `.. % self.<field>.len()`
        t = fi[0]
        modlen = t[0] == "bin" and t[1] == "Rem" and t[3][0] == "call" and t[3][1].endswith("::len") and t[3][2] and t[3][2][0] == ("field", ("param", 1), field)
        ck.req(modlen, "T2.bounds", owner.split("::")[-1], f.where(), "routing index %s is not reduced modulo self.%s.len()" % (show(t), field))
        ck.sample({"rule": "T2", "owner": owner, "index_term": show(fi[0])})
        # key handed down unchanged
        for body, inner in ((f, inner_find), (i, inner_ins)):
            cs = live_calls(body, names=(inner,))
            if len(cs) != 1:
                ck.fail("T2.passdown", body.name, body.where(), "expected exactly one call to %s, found %d" % (inner.split("::")[-1], len(cs)))
                continue
            tb = TermBuilder(prog, body)
            a = [tb.operand(x) for x in cs[0][1]["args"]]
            ck.req(a[1] == ("param", 2), "T2.passdown", body.name, body.where(cs[0][1]["line"]),
                   "the key handed to %s is %s, not the unmodified key parameter" % (inner.split("::")[-1], show(a[1])))
            if inner in (BUCKET + "::insert_or_replace", TABLE + "::insert"):
                ck.req(a[2] == ("param", 3), "T2.passdown", body.name + ":entry", body.where(cs[0][1]["line"]),
                       "the entry handed down is %s, not the entry parameter" % show(a[2]))
    ck.floor("T2", pairs, 2, "find/insert routing pairs")


# -------------------------------------------------------------------------------- T3


SLOT_TY = "core::option::Option<(u64, weechess_engine::searcher::TranspositionEntry)>"


def t3_never_emptied(ck):
    prog = ck.prog
    ior = ck.body(BUCKET + "::insert_or_replace", "T3")
    try:
        key_idx, val_idx, arity = slot_layout(ck, "T3")
    except AnchorMissingLocal:
        return
    entry_params = [i for i in range(1, ior.arg_count + 1) if ior.local_ty(i).endswith("TranspositionEntry")]
    ck.req(len(entry_params) == 1, "T3.params", "insert_or_replace", ior.where(), "insert_or_replace does not take exactly one TranspositionEntry")
    entry_param = entry_params[0] if entry_params else 3
    # (a) every slot write in insert_or_replace stores Some((hash, entry)) built from the parameters
    writes = 0
    for p in decision_table(prog, ior):
        for e in p.effects:
            if e[0] != "store":
                continue
            place, val = e[1], e[2]
            writes += 1
            good = val[0] == "agg" and val[1] == "core::option::Option::Some" and len(val[2]) == 1 and val[2][0][0] == "agg" and val[2][0][1] == "tuple" \
                and len(val[2][0][2]) == arity and any(val[2][0][2][k] == ("param", 2) for k in key_idx) and val[2][0][2][val_idx] == ("param", entry_param)
            ck.req(good, "T3.write", "insert_or_replace@bb%d" % e[3], ior.where(),
                   "slot written with %s instead of Some((hash, entry)) built from the unmodified parameters" % show(val),
                   "slot = Some((hash, entry))")
    ck.floor("T3", writes, 3, "slot writes in insert_or_replace (empty / same key / evict)")
    # (b) nowhere else in the engine is a slot-typed place written, taken or replaced
    for b in ws_bodies(prog, ("weechess_engine",)):
        if b.name in (BUCKET + "::insert_or_replace", BUCKET + "::empty"):
            continue
        for bb, blk in enumerate(b.blocks):
            for s in blk["stmts"]:
                if s["k"] != "assign":
                    continue
                p = s["place"]
                ty = b.local_ty(p["l"])
                for e in p["p"]:
                    if isinstance(e, dict) and "f" in e:
                        ty = e["ty"]
                if p["p"] and SLOT_TY in ty and "[" not in ty.replace("[" + SLOT_TY, ""):
                    pass
                if "agg" in s["rv"] and s["rv"]["agg"].get("adt") == BUCKET:
                    ck.fail("T3.construct", b.name, b.where(s["line"]), "TranspositionBucket constructed outside TranspositionBucket::empty")
        for bb, t in live_calls(b):
            n = callee_name(t)
            g = " ".join(t.get("generics", []))
            if (n.endswith("Option::<T>::take") or n.startswith("core::mem::")) and "TranspositionEntry" in g:
                ck.fail("T3.take", b.name, b.where(t["line"]), "%s on a table slot: slots must never be emptied" % n)
    # (c) mutable access to `entries` exists only in insert_or_replace
    for b in ws_bodies(prog, ("weechess_engine",)):
        for blk in b.blocks:
            for s in blk["stmts"]:
                if s["k"] == "assign" and "ref" in s["rv"] and s["rv"].get("mutbl"):
                    pl = s["rv"]["ref"]
                    if any(isinstance(e, dict) and e.get("f") == "entries" and BUCKET in e.get("of", "") for e in pl["p"]):
                        ck.req(b.name == BUCKET + "::insert_or_replace", "T3.mut_access", b.name, b.where(s["line"]),
                               "mutable borrow of TranspositionBucket::entries outside insert_or_replace")
    em = ck.body(BUCKET + "::empty", "T3")
    ck.ok("T3.empty", "TranspositionBucket::empty", em.where(), "the only place where None is written")


# -------------------------------------------------------------------------------- T4


def t4_eviction(ck):
    prog = ck.prog
    ior = ck.body(BUCKET + "::insert_or_replace", "T4")
    found = 0
    for p in decision_table(prog, ior):
        for e in p.effects:
            if e[0] == "store" and e[1][0] == "index":
                found += 1
                idx = e[1][2]
                # only after the scan is exhausted: the path took the None edge of the iterator's next()
                exhausted = any(c[0] == "discr" and c[1][0] == "call" and c[1][1].endswith("::next") and "iterator::Iterator" in c[1][1] and taken == 0 for c, taken in p.conds)
                ck.req(exhausted, "T4.after_scan", "insert_or_replace", ior.where(),
                       "the evicting write can happen before the scan over all slots is exhausted")
                modlen = idx[0] == "bin" and idx[1] == "Rem" and idx[3][0] == "call" and idx[3][1].endswith("::len") and any(
                    x == ("field", ("param", 1), "entries") for x in walk(idx[3]))
                # any other form that is within the slot array by construction: gen_range(0..N) / a constant, N = array length
                if not modlen:
                    nslots = None
                    try:
                        nslots = const_value(("const", None, ck.const(BUCKET + "::BUCKET_SIZE", "T4")))
                    except Exception:
                        nslots = None
                    if not isinstance(nslots, int):
                        try:
                            nslots = int(ck.const(BUCKET + "::BUCKET_SIZE", "T4"))
                        except Exception:
                            nslots = None
                    if idx[0] == "call" and idx[1].endswith("::gen_range") and len(idx[2]) == 2 and idx[2][1][0] == "agg" and "Range" in str(idx[2][1][1]):
                        lo, hi = const_value(idx[2][1][2][0]), const_value(idx[2][1][2][1])
                        modlen = isinstance(lo, int) and isinstance(hi, int) and nslots is not None and 0 <= lo < hi <= nslots
                    elif isinstance(const_value(idx), int) and nslots is not None:
                        modlen = 0 <= const_value(idx) < nslots
                    elif idx[0] == "bin" and idx[1] == "Rem" and isinstance(const_value(idx[3]), int) and nslots is not None:
                        # x % N with the constant N = number of slots (e.g. Self::BUCKET_SIZE, the array's declared length)
                        modlen = 0 < const_value(idx[3]) <= nslots
                ck.req(modlen, "T4.index", "insert_or_replace", ior.where(), "eviction index %s is not within the slot array by construction (x %% self.entries.len(), or a range inside 0..BUCKET_SIZE)" % show(idx))
                ck.sample({"rule": "T4", "eviction_index": show(idx)})
    ck.floor("T4", found, 1, "evicting indexed slot writes")
    # scan paths: a slot that is Some with a different key must `continue` (no write)
    for p in decision_table(prog, ior):
        stores = [e for e in p.effects if e[0] == "store"]
        if len(stores) > 1:
            ck.fail("T4.single_write", "insert_or_replace", ior.where(), "a single call can write %d slots" % len(stores))
    # same-key overwrite is guarded by key equality against the parameter
    for p in decision_table(prog, ior):
        if p.ret == ("agg", RESULT + "::Swapped", ()):
            ok = any(c[0] == "bin" and c[1] == "Eq" and taken != 0 and ("param", 2) in (c[2], c[3]) for c, taken in p.conds)
            ck.req(ok, "T4.same_key", "insert_or_replace", ior.where(), "in-place overwrite is not guarded by `stored key == hash`")


# -------------------------------------------------------------------------------- T5


def t5_accounting(ck):
    prog = ck.prog
    ior = ck.body(BUCKET + "::insert_or_replace", "T5")
    res = ck.adt(RESULT, "T5")
    names = [v["name"] for v in res["variants"]]
    # which returned variant corresponds to "wrote into an empty slot"
    fills = set()
    for p in decision_table(prog, ior):
        stores = [e for e in p.effects if e[0] == "store"]
        into_none = False
        for e in stores:
            slot = e[1]
            if any(c == ("discr", slot) and taken == 0 for c, taken in p.conds):
                into_none = True
        v = p.ret[1].split("::")[-1] if p.ret[0] == "agg" else None
        if into_none:
            fills.add(v)
        else:
            ck.req(v not in fills or v is None, "T5.variant", "insert_or_replace:%s" % v, ior.where(),
                   "variant %s is returned both when an empty slot is filled and when it is not" % v)
    ck.req(len(fills) == 1, "T5.variant", "insert_or_replace", ior.where(), "filling an empty slot reports %s (expected exactly one variant)" % sorted(fills))
    fillv = list(fills)[0] if len(fills) == 1 else None
    for p in decision_table(prog, ior):
        v = p.ret[1].split("::")[-1] if p.ret[0] == "agg" else None
        if v == fillv:
            stores = [e for e in p.effects if e[0] == "store"]
            good = len(stores) == 1 and any(c == ("discr", stores[0][1]) and taken == 0 for c, taken in p.conds)
            ck.req(good, "T5.variant_only_on_fill", "insert_or_replace", ior.where(), "variant %s is also returned on a path that does not fill an empty slot" % v)
    # inserted() is true exactly for that variant
    ins = ck.body(RESULT + "::inserted", "T5")
    truth = {}
    for p in decision_table(prog, ins):
        rv = const_value(p.ret)
        for c, taken in p.conds:
            if c == ("discr", ("param", 1)):
                truth[taken if not isinstance(taken, tuple) else "else"] = rv
    idx = names.index(fillv) if fillv in names else None
    good = idx is not None and truth.get(idx) is True and all(v is False for k, v in truth.items() if k != idx)
    ck.req(good, "T5.inserted", "inserted()", ins.where(), "inserted() is not true exactly for variant %s (decision table %s)" % (fillv, truth))
    # used_slots: written only in TranspositionTable::insert, +1, under inserted() of this call's insert_or_replace
    ti = ck.body(TABLE + "::insert", "T5")
    writers = 0
    for b in ws_bodies(prog, ("weechess_engine",)):
        for blk in b.blocks:
            for s in blk["stmts"]:
                if s["k"] == "assign" and any(isinstance(e, dict) and e.get("f") == "used_slots" and TABLE in e.get("of", TABLE) for e in s["place"]["p"]):
                    writers += 1
                    ck.req(b.name == TABLE + "::insert", "T5.writer", b.name, b.where(s["line"]), "used_slots written outside TranspositionTable::insert")
    ck.floor("T5", writers, 1, "writes to used_slots")
    for p in decision_table(prog, ti):
        st = [e for e in p.effects if e[0] == "store" and e[1] == ("field", ("param", 1), "used_slots")]
        guarded = any(c[0] == "call" and c[1] == RESULT + "::inserted" and taken != 0 and c[2][0][0] == "call" and c[2][0][1] == BUCKET + "::insert_or_replace"
                      for c, taken in p.conds)
        if st:
            v = st[0][2]
            plus1 = v[0] == "bin" and v[1] == "Add" and ("field", ("param", 1), "used_slots") in (v[2], v[3]) and 1 in (const_value(v[2]), const_value(v[3]))
            ck.req(guarded and plus1 and len(st) == 1, "T5.increment", "TranspositionTable::insert", ti.where(),
                   "used_slots update %s is not `+= 1` under insert_or_replace(..).inserted()" % show(v), "used_slots += 1 iff inserted()")
        else:
            ck.req(not guarded, "T5.increment_missing", "TranspositionTable::insert", ti.where(), "a path on which inserted() holds does not count the new slot")
    # constructor starts at 0 with empty buckets
    wbc = ck.body(TABLE + "::with_bucket_count", "T5")
    rt = return_term(prog, wbc)
    good = rt is not None and rt[0] == "agg" and rt[1].endswith("::TranspositionTable") and const_value(rt[2][1]) == 0
    ck.req(good, "T5.initial", "with_bucket_count", wbc.where(), "a new table does not start with used_slots == 0 (%s)" % (show(rt) if rt else "?"))
    # entries() / max_entries()
    en = ck.body(TABLE + "::entries", "T5")
    ert = return_term(prog, en)
    while ert is not None and ert[0] == "cast":
        ert = ert[2]      # a widening/narrowing of the counter's integer type
    ck.req(ert == ("field", ("param", 1), "used_slots"), "T5.entries", "entries()", en.where(), "entries() does not return used_slots")
    me = ck.body(TABLE + "::max_entries", "T5")
    rt = return_term(prog, me)
    bsz = ck.const(BUCKET + "::BUCKET_SIZE", "T5")
    em = ck.body(BUCKET + "::empty", "T5")
    slots = None
    for blk in em.blocks:
        for s in blk["stmts"]:
            if s["k"] == "assign" and "repeat" in s["rv"]:
                slots = s["rv"]["count"]
    good = rt is not None and rt[0] == "bin" and rt[1] == "Mul" and bsz in (const_value(rt[2]), const_value(rt[3])) and any(
        x[0] == "call" and x[1].endswith("::len") and x[2] and x[2][0] == ("field", ("param", 1), "buckets") for x in (rt[2], rt[3]))
    ck.req(good, "T5.capacity", "max_entries()", me.where(), "max_entries() is not buckets.len() * BUCKET_SIZE (%s)" % (show(rt) if rt else "?"))
    adt = ck.adt(BUCKET, "T5")
    fty = adt["variants"][0]["fields"][0]["ty"]
    ck.req(fty.endswith("; TranspositionBucket::BUCKET_SIZE]") or fty.endswith("; %d]" % bsz), "T5.slot_count", "TranspositionBucket.entries", "",
           "slot array length is not BUCKET_SIZE: %s" % fty, "[_; BUCKET_SIZE], BUCKET_SIZE=%d, empty() repeats %s" % (bsz, slots))
    # Access-level sums
    for nm, inner in (("entries", TABLE + "::entries"), ("max_entries", TABLE + "::max_entries")):
        b = ck.body(ACCESS + "::" + nm, "T5")
        cl = [prog.body(n) for n in prog.closures_of(b.name)]
        good = any(live_calls(c, names=(inner,)) for c in cl) and any(callee_name(t).endswith("::sum") for _, t in live_calls(b))
        ck.req(good, "T5.access_" + nm, nm, b.where(), "TranspositionTableAccess::%s is not the sum of the tables' %s()" % (nm, nm))


# -------------------------------------------------------------------------------- T6-T8


def t6_no_unsafe(ck):
    prog = ck.prog
    n = 0
    for b in ws_bodies(prog, ("weechess_engine", "weechess_core")):
        n += 1
        if b.j.get("unsafe_blocks") or b.j.get("unsafe_fn"):
            ck.fail("T6", b.name, b.where(), "unsafe code (%s block(s), unsafe fn=%s): the atomicity argument assumes safe Rust" % (b.j.get("unsafe_blocks"), b.j.get("unsafe_fn")))
    for i in prog.impls:
        if i["safety"] != "Safe" and not i["derived"] and i["_crate"] in ("weechess_engine", "weechess_core"):
            ck.fail("T6", "impl %s for %s" % (i["trait"], i["self_ty"]), "", "hand-written unsafe impl")
    ck.ok("T6", "no unsafe in weechess_core / weechess_engine", "", "%d bodies scanned" % n)
    ck.extra["bodies_scanned_for_unsafe"] = n


def t7_lock_discipline(ck):
    prog = ck.prog
    acc = ck.adt(ACCESS, "T7")
    fty = acc["variants"][0]["fields"]
    ck.req(len(fty) == 1 and "RwLock<weechess_engine::searcher::TranspositionTable>" in fty[0]["ty"], "T7.wrapped", "TranspositionTableAccess", "",
           "tables are not stored as RwLock<TranspositionTable>: %s" % [(f["name"], f["ty"]) for f in fty])
    for n in (TABLE, BUCKET, S + "TranspositionEntry"):
        a = ck.adt(n, "T7")
        bad = [f["ty"] for v in a["variants"] for f in v["fields"] if any(m in f["ty"] for m in INTERIOR_MUT)]
        ck.req(not bad, "T7.plain_data", n.split("::")[-1], "", "interior mutability inside the table data (%s): &self methods could mutate outside the write lock" % bad)
    # call sites of the table's methods outside the table itself
    sites = 0
    for b in ws_bodies(prog, ("weechess_engine",)):
        home = fn_of(prog, b)
        if home.name.startswith(TABLE + "::") or (home.j.get("impl_of") or {}).get("self_ty") == TABLE:
            continue     # the table's own methods and trait impls work on a reference that is already guarded
        tb = None
        for bb, t in live_calls(b):
            n = callee_name(t)
            if not n.startswith(TABLE + "::") or n.split("::")[-1] in ("with_bucket_count", "with_memory"):
                continue
            sites += 1
            tb = tb or TermBuilder(prog, b)
            recv = tb.operand(t["args"][0])
            guard = None
            if recv[0] == "call" and recv[1].endswith("Deref>::deref") or recv[0] == "call" and recv[1].endswith("DerefMut>::deref_mut"):
                g = recv[2][0]
                if g[0] == "call" and g[1].endswith("Result::<T, E>::unwrap") and g[2][0][0] == "call" and is_lock_call(g[2][0][1]):
                    guard = g[2][0][1].split("::")[-1]
            needs_write = n.split("::")[-1] == "insert"
            good = guard is not None and (guard == "write" if needs_write else guard in ("read", "write"))
            ck.req(good, "T7.guarded", "%s->%s" % (b.name, n.split("::")[-1]), b.where(t["line"]),
                   "TranspositionTable::%s is called on %s, not on a %s guard obtained by a blocking lock" % (n.split("::")[-1], show(recv), "write" if needs_write else "read/write"))
    ck.floor("T7", sites, 4, "guarded table method call sites (find, insert, entries, max_entries)")


def t8_one_critical_section(ck):
    prog = ck.prog
    for nm, inner in (("insert", TABLE + "::insert"), ("find", TABLE + "::find")):
        b = ck.body(ACCESS + "::" + nm, "T8")
        locks = [(bb, t) for bb, t in live_calls(b) if is_lock_call(callee_name(t))]
        ck.req(len(locks) == 1, "T8.one_guard", nm, b.where(), "%d lock acquisitions in TranspositionTableAccess::%s (expected exactly one)" % (len(locks), nm))
        for bb, t in locks:
            ck.req(callee_name(t).endswith(("::read", "::write")), "T8.blocking", nm, b.where(t["line"]),
                   "non-blocking acquisition %s: the operation can be skipped under contention" % callee_name(t).split("::")[-1])
        inner_blocks = [bb for bb, t in live_calls(b, names=(inner,))]
        ck.req(len(inner_blocks) == 1, "T8.one_op", nm, b.where(), "expected exactly one %s call, found %d" % (inner.split("::")[-1], len(inner_blocks)))
        ok = cfg.must_pass(b, [0], cfg.exits(b), inner_blocks)
        ck.req(ok, "T8.always", nm, b.where(), "a path through TranspositionTableAccess::%s returns without performing the table %s" % (nm, nm))
        # the guard is dropped only after the inner call: inner call dominates the drop of the guard local
        dom = cfg.dominators(b)
        for bb, blk in enumerate(b.blocks):
            t = blk["term"]
            if t["k"] == "drop" and "Guard" in t["ty"] and not blk.get("cleanup") and bb in dom:
                ck.req(any(ib in dom[bb] for ib in inner_blocks), "T8.held", nm, b.where(t["line"]), "the guard can be released before the table operation ran")
    # nobody holds two guards at once: at most one acquisition per body, engine-wide
    for b in ws_bodies(prog, ("weechess_engine",)):
        locks = [(bb, t) for bb, t in live_calls(b) if is_lock_call(callee_name(t)) and "TranspositionTable" in " ".join(t.get("generics", []))]
        if len(locks) > 1:
            ck.fail("T8.nesting", b.name, b.where(), "%d lock acquisitions in one body: possible nested guards / lock order" % len(locks))
    f = ck.body(ACCESS + "::find", "T8")
    rt = return_term(prog, f)
    ck.req(rt is not None and rt[0] == "call" and rt[1].endswith("::copied"), "T8.copy_out", "find", f.where(),
           "TranspositionTableAccess::find does not copy the entry out under its guard (%s)" % (show(rt) if rt else "?"))
