"""C18 - ucinewgame starts from a clean search memory (proof).

K1 carriers, K2 arm region, K3 must-be-empty dataflow at the arm's back-edge, K4 no other channel, K5 go hands exactly the carrier on."""
from facts import callee_name
from terms import TermBuilder, show
import cfg
from dataflow import Deps, operand_locals
from .common import live_calls, ws_bodies, INTERIOR_MUT
from .uci_common import ExecShape, EXEC, type_mentions

LEVEL = "proof"
MEMORY_TYPES = ("SearchArtifact", "TranspositionTableAccess", "StateHistory", "TranspositionTable")
TAKE = "core::option::Option::<T>::take"


def run(ck):
    ck.explanation = (
        "K1: the locals of Client::exec that are initialised before the command loop and whose type (transitively) contains a SearchArtifact are the "
        "only carriers of search memory across commands. K3: a forward must-analysis over the CFG region of the `ucinewgame` arm shows every carrier "
        "is empty (assigned None, taken, moved out or dropped) on all paths reaching the loop's back-edge. K4: no static or thread-local can hold search "
        "memory. K5: `go` passes exactly `previous_artifact.take()` to Search::spawn, which forwards it unchanged to Searcher::analyze. Hence the first "
        "search after ucinewgame receives None, i.e. the arguments a fresh process would pass.")
    ck.trusted = ["rustc front end and MIR construction (drop elaboration)", "extractor decoding"]
    ck.run_rule(k_all)
    ck.run_rule(k4_no_other_channel)
    ck.run_rule(k5_go_plumbing)
    # the arm is of no use if a `ucinewgame` line can be swallowed before it is compared with the word (C07's I1.unconditional)
    from .c07 import i1b_dispatch_unconditional
    ck.run_rule(i1b_dispatch_unconditional)


def k_all(ck):
    prog = ck.prog
    ex = ck.body(EXEC, "K1")
    shape = ExecShape(prog, ex)
    if shape.loop_head is None:
        ck.fail("K2", "loop head", ex.where(), "cannot find the command loop (next() on the stdin lines iterator)")
        return
    arms = shape.first_token_arms()
    if "ucinewgame" not in arms:
        ck.missing("K2", "arm for the literal \"ucinewgame\" in Client::exec")
        return
    entry = arms["ucinewgame"]
    region = shape.arm_blocks(entry)
    # K1 carriers: artifact-bearing locals with a definition outside the loop (before the loop head)
    loop_blocks = set()
    for be in cfg.back_edges(ex):
        if be[1] == shape.loop_head:
            loop_blocks |= cfg.natural_loop(ex, be)
    carriers = []
    for l, loc in enumerate(ex.locals):
        if l == 0 or not type_mentions(prog, loc["ty"], ("SearchArtifact",)):
            continue
        if loc["ty"].startswith("&"):
            continue
        pre = False
        after_head = cfg.reachable(ex, [shape.loop_head])
        for bb, blk in enumerate(ex.blocks):
            if bb in loop_blocks or blk.get("cleanup") or bb in after_head:
                continue
            for s in blk["stmts"]:
                if s["k"] == "assign" and s["place"] == {"l": l, "p": []}:
                    pre = True
        if pre:
            carriers.append(l)
    ck.floor("K1", len(carriers), 2, "loop-carried locals of Client::exec that can hold a SearchArtifact (previous_artifact, current_search)")
    # K1b: loop-carried locals that a search's collection writes into through `&mut` (an answer / line / statistics remembered from the
    # last search is search memory as well): the same must-be-empty obligation applies to them
    deps0 = Deps(ex)
    SEARCH_TY = "weechess_engine::uci::Search"
    derived = []
    for bb, t in live_calls(ex):
        cn = callee_name(t)
        cb = prog.bodies.get(cn)
        if cb is None or not any(cb.local_ty(i) == SEARCH_TY for i in range(1, cb.arg_count + 1)):
            continue
        for a in t["args"]:
            for l in operand_locals(a):
                if ex.local_ty(l).startswith("&mut "):
                    for tgt in deps0.points_to.get(l, ()):
                        if tgt in carriers or tgt in derived or ex.local_ty(tgt).startswith("&"):
                            continue
                        pre = any(s_["k"] == "assign" and s_["place"] == {"l": tgt, "p": []}
                                  for b2, blk2 in enumerate(ex.blocks) if b2 not in loop_blocks and not blk2.get("cleanup") and b2 not in cfg.reachable(ex, [shape.loop_head])
                                  for s_ in blk2["stmts"])
                        if pre:
                            derived.append(tgt)
    carriers = carriers + derived
    ck.extra["search_derived_locals"] = [ex.local_name(l) or "_%d" % l for l in derived]
    names = {l: ex.local_name(l) or "_%d" % l for l in carriers}
    ck.sample({"rule": "K1", "carriers": [{"local": names[l], "type": ex.local_ty(l)} for l in carriers],
               "arm_entry": "bb%d" % entry, "arm_blocks": len(region), "loop_head": "bb%d" % shape.loop_head})
    deps = Deps(ex)
    tb = TermBuilder(prog, ex)

    def is_none_value(op):
        t = tb.operand(op)
        return t == ("agg", "core::option::Option::None", ())

    def transfer(bb, state):
        st = set(state)
        for s in ex.stmts(bb):
            if s["k"] != "assign":
                continue
            dst = s["place"]
            rv = s["rv"]
            # whole-local moves out of a carrier empty it
            for k in ("use",):
                o = rv.get(k)
                if isinstance(o, dict) and "move" in o and not o["move"]["p"] and o["move"]["l"] in st and dst["l"] != o["move"]["l"]:
                    st.discard(o["move"]["l"])
            if not dst["p"] and dst["l"] in carriers:
                if ("agg" in rv and rv["agg"].get("adt") == "core::option::Option" and rv["agg"].get("variant") == "None") or \
                        ("use" in rv and is_none_value(rv["use"])):
                    st.discard(dst["l"])
                else:
                    st.add(dst["l"])
            elif dst["p"] and dst["l"] in carriers and dst["p"][0] != "*":
                st.add(dst["l"])
        t = ex.term(bb)
        if t["k"] == "drop" and not t["place"]["p"] and t["place"]["l"] in st:
            st.discard(t["place"]["l"])
        if t["k"] == "call":
            n = callee_name(t)
            for a in t["args"]:
                if "move" in a and not a["move"]["p"] and a["move"]["l"] in st:
                    st.discard(a["move"]["l"])
                for l in operand_locals(a):
                    if ex.local_ty(l).startswith("&mut "):
                        for tgt in deps.points_to.get(l, ()):
                            if tgt in carriers:
                                if n == TAKE:
                                    st.discard(tgt)
                                else:
                                    st.add(tgt)
            d = t["dest"]
            if not d["p"] and d["l"] in carriers:
                st.add(d["l"])
        return st

    # forward may-hold analysis restricted to the arm region
    inn = {b: None for b in region}
    inn[entry] = set(carriers)
    work = [entry]
    succ = ex.successors()
    out_at_backedge = {}
    while work:
        b = work.pop()
        out = transfer(b, inn[b])
        for s in succ[b]:
            if s == shape.loop_head:
                out_at_backedge[b] = out
                continue
            if s not in region:
                continue
            new = out if inn[s] is None else (inn[s] | out)
            if inn[s] is None or new != inn[s]:
                inn[s] = set(new)
                work.append(s)
    ck.floor("K2", len(out_at_backedge), 1, "back-edges from the ucinewgame arm to the command loop")
    for l in carriers:
        holders = sorted(b for b, st in out_at_backedge.items() if l in st)
        ck.req(not holders, "K3", names[l], ex.where(ex.term(holders[0])["line"] if holders else None),
               "on some path through the `ucinewgame` arm (leaving via bb%s) `%s` may still hold %s when the next command is read: "
               "the next `go` would reuse what the previous game's search left behind" % (holders[:3], names[l], "a SearchArtifact" if l not in derived else "data written by collecting a search"),
               "empty on all %d path end(s)" % len(out_at_backedge))
    # the arm must not leave the function or skip the loop (e.g. by break)
    leaves = [b for b in region if ex.term(b)["k"] == "return"]
    ck.req(not leaves, "K2.stays", "ucinewgame", ex.where(), "the ucinewgame arm can leave the command loop")


def k4_no_other_channel(ck):
    prog = ck.prog
    n = 0
    for name, s in sorted(prog.statics.items()):
        n += 1
        if type_mentions(prog, s["ty"], MEMORY_TYPES):
            ck.fail("K4.static", name, "", "static `%s: %s` can carry search memory across games" % (name, s["ty"]))
        elif any(m in s["ty"] for m in INTERIOR_MUT) and not s["ty"].startswith("lazy_static::lazy::Lazy<") and s["ty"] != name:
            from .common import write_once_static
            once, why = write_once_static(prog, name, s)
            if once:
                ck.ok("K4.static", name, "", "write-once constant table: " + why)
                continue
            ck.fail("K4.static", name, "", "mutable static `%s: %s` in the workspace: may carry state across games" % (name, s["ty"]))
    ck.ok("K4.static", "statics", "", "%d statics inspected" % n)
    for b in ws_bodies(prog):
        for blk in b.blocks:
            for s in blk["stmts"]:
                if s["k"] == "assign" and "thread_local" in s["rv"]:
                    ck.fail("K4.thread_local", b.name, b.where(s["line"]), "thread-local state")
    # Client / Searcher / Evaluator carry no mutable state themselves
    for tname in ("weechess_engine::uci::Client", "weechess_engine::searcher::Searcher"):
        a = ck.adt(tname, "K4")
        fields = [f for v in a["variants"] for f in v["fields"]]
        ck.req(not fields, "K4.stateless", tname.split("::")[-1], "", "%s has fields %s that could carry search memory" % (tname, [(f["name"], f["ty"]) for f in fields]))


def k5_go_plumbing(ck):
    prog = ck.prog
    ex = ck.body(EXEC, "K5")
    tb = TermBuilder(prog, ex)
    spawn = "weechess_engine::uci::Search::spawn"
    sites = live_calls(ex, names=(spawn,))
    ck.floor("K5", len(sites), 1, "Search::spawn call sites in Client::exec")
    for bb, t in sites:
        a = tb.operand(t["args"][4])
        good = a[0] == "call" and a[1] == TAKE and a[2][0][0] == "var" and type_mentions(prog, ex.local_ty(a[2][0][1]), ("SearchArtifact",))
        ck.req(good, "K5.go", "Search::spawn(previous_artifact)", ex.where(t["line"]),
               "the artifact handed to Search::spawn is %s, not `<carrier>.take()`" % show(a), "carrier.take()")
    sp = ck.body(spawn, "K5")
    stb = TermBuilder(prog, sp)
    an = "weechess_engine::searcher::Searcher::analyze"
    for bb, t in live_calls(sp, names=(an,)):
        a = stb.operand(t["args"][5])
        ck.req(a == ("param", 5), "K5.spawn", "Search::spawn->analyze", sp.where(t["line"]), "Search::spawn passes %s instead of its previous_artifact parameter to Searcher::analyze" % show(a))
    ck.floor("K5", len(live_calls(sp, names=(an,))), 1, "Searcher::analyze call in Search::spawn")
    # analyze -> analyze_iterative unchanged
    it = "weechess_engine::searcher::Searcher::analyze_iterative"
    n = 0
    for name in [an] + prog.closures_of(an):
        b = prog.body(name)
        btb = TermBuilder(prog, b)
        for bb, t in live_calls(b, names=(it,)):
            n += 1
            from .common import resolve_upvars
            a, home = resolve_upvars(prog, b, btb.operand(t["args"][5]))
            ck.req(a == ("param", 6) and home.name == an, "K5.analyze", "analyze->analyze_iterative", b.where(t["line"]),
                   "Searcher::analyze hands %s (not its previous_artifact parameter) to analyze_iterative" % show(a))
    ck.floor("K5", n, 1, "analyze_iterative call under Searcher::analyze")
