"""C03 - Search only ever reports legal moves and legal lines (structural clauses S1-S6).

Route (B) is used for stored moves: legal-on-write (S3/S4) and faithful key (C08 rules re-run here) and faithful table
(C15 sequential rules re-run here).  The root-priority slot is validated on read (route A).  NOT decided: non-empty line,
'at least one report', effects of eviction and timing."""
from facts import callee_name
from terms import TermBuilder, show, walk, const_value
from symex import decision_table
import cfg
from .common import live_calls, guards_of, resolve_upvars, closure_upvar_terms
from .c01 import is_call

LEVEL = "other"
S = "weechess_engine::searcher::"
REC = S + "Searcher::analyze_recursive"
ITER = S + "Searcher::analyze_iterative"
ACCESS = S + "TranspositionTableAccess"
HASH = "weechess_core::hasher::ZobristHasher::hash"
TRY = "weechess_core::movegen::PseudoLegalMove::try_as_legal_move"
APPLY = "weechess_core::state::State::by_performing_move"
NEXT = "<weechess_engine::searcher::TranspositionTableMoveIterator<'_> as core::iter::traits::iterator::Iterator>::next"


def run(ck):
    ck.explanation = (
        "S1 inventory of the places where a move enters a reported line, the root-priority slot or the table. S2/S5: a reported line is rebuilt by walking "
        "table entries keyed by hasher.hash of exactly the state the stored move is then applied to, with the same hasher and tables the search wrote with; "
        "each step advances to the successor computed from that move. S3/S4: every table insert stores, under hasher.hash(game_state), a move that is the "
        "payload of try_as_legal_move(game_state) for the same game_state; recursion and inserts are dominated by that Some edge; recursive calls get no "
        "priority move, and the root priority move is re-validated by try_as_legal_move before use. S6: hasher/tables/history are passed unchanged. "
        "Together with C08 (equal keys => equal legal moves, rules re-run here) and C15's sequential table rules (an entry is only returned under its exact key, "
        "re-run here) stored moves are legal where they are replayed. NOT decided: non-empty line, at least one report, timing.")
    ck.trusted = ["rustc front end and MIR construction", "extractor decoding", "64-bit hash collisions ignored"]
    ck.not_decided = ["the line is non-empty and at least one report is made before the search ends (only the necessary condition I10 is decided: the deepening loop cannot be left before the first iteration's workers ran)", "effects of eviction and scheduling on which line is reported"]
    ck.run_rule(s3_s4_inserts)
    ck.run_rule(s2_s5_line_walk)
    ck.run_rule(s1_sinks_and_priority)
    ck.run_rule(s6_plumbing)
    from .c08 import h1_h2_h5_influence, h6_single_source, h4_keys
    from .c15 import t1_key_check, t2_routing, t3_never_emptied, t4_eviction
    from .c07 import i10_first_iteration
    # "at least one report": a root with legal moves gets an entry only if the move-less test (node counter unchanged over the move loop) is
    # not fooled - every visited node must count itself before anything can return (C04's X3)
    from .c04 import x3_poll_placement
    # a draw / dead-position shortcut taken at the root returns before anything is stored: no entry, no line, no report (C17's D1-D3)
    from .c17 import d1_d2_d3
    ck.run_rule(d1_d2_d3)
    # a root window that excludes mate scores stores no root entry when every move is mated: no line, no report (C06's R8-R10)
    from .c06 import r8_r10_driver
    ck.run_rule(r8_r10_driver)
    for r in (h1_h2_h5_influence, h4_keys, h6_single_source, t1_key_check, t2_routing, t3_never_emptied, t4_eviction, i10_first_iteration, x3_poll_placement):
        ck.run_rule(r)


def names_of(b):
    return {b.local_name(i): i for i in range(1, b.arg_count + 1)}


def legal_payload_terms(tb, b, state_param):
    """Terms that denote `.0` (the move) and `.1` (the successor) of the Some payload of try_as_legal_move(_, game_state)."""
    out = []
    for bb, t in live_calls(b, names=(TRY,)):
        a = [tb.operand(x) for x in t["args"]]
        if a[1] == ("param", state_param):
            res = tb.call_term(t)
            out.append((bb, t, res))
    return out


def is_payload(t, res, idx):
    """t == ((res as Some).0).idx"""
    return t[0] == "field" and t[2] == idx and t[1][0] == "field" and t[1][2] == "0" and t[1][1] == ("variant", res, "Some")


def s3_s4_inserts(ck):
    prog = ck.prog
    b = ck.body(REC, "S3")
    tb = TermBuilder(prog, b)
    n = names_of(b)
    gs = n.get("game_state")
    hs = n.get("hasher")
    tp = n.get("transpositions")
    if None in (gs, hs, tp):
        ck.missing("S3", "parameters game_state/hasher/transpositions of analyze_recursive")
        return
    key_want = ("call", HASH, (("param", hs), ("param", gs)))
    tries = legal_payload_terms(tb, b, gs)
    ck.req(len(tries) == 1, "S4.filter", "analyze_recursive", b.where(), "expected exactly one try_as_legal_move(candidate, game_state) in the move loop, found %d" % len(tries))
    if not tries:
        return
    try_bb, try_t, res = tries[0]
    sw = b.term(try_t["target"]) if try_t["target"] is not None else None
    some_edge = [c[1] for c in sw["cases"] if c[0] == 1] if sw and sw["k"] == "switch" else []
    ck.req(bool(some_edge), "S4.filter", "analyze_recursive:some-edge", b.where(try_t["line"]), "the result of try_as_legal_move is not matched on Some")
    dom = cfg.dominators(b)
    inserts = live_calls(b, names=(ACCESS + "::insert",))
    ck.floor("S3", len(inserts), 2, "transposition inserts in analyze_recursive")
    for bb, t in inserts:
        a = [tb.operand(x) for x in t["args"]]
        ck.req(a[0] == ("param", tp), "S3.table", "insert@L%d" % t["line"], b.where(t["line"]), "insert goes to %s, not to the transpositions parameter" % show(a[0]))
        ck.req(a[1] == key_want, "S3.key", "insert@L%d" % t["line"], b.where(t["line"]), "entry is stored under %s, not under hasher.hash(game_state)" % show(a[1])[:160], "hasher.hash(game_state)")
        ent = a[2]
        mv = None
        if ent[0] == "agg" and ent[1].endswith("TranspositionEntry::TranspositionEntry"):
            adt = prog.adt(S + "TranspositionEntry")
            fields = [f["name"] for f in adt["variants"][0]["fields"]]
            mv = dict(zip(fields, ent[2])).get("performed_move")
        good = False
        why = show(mv)[:160] if mv is not None else "?"
        if mv is not None:
            if is_payload(mv, res, "0"):
                good = True
            elif mv[0] == "field" and mv[1][0] == "variant" and mv[1][1][0] == "var":
                # Option<Move> variable: every definition is None or Some(legal payload)
                var = mv[1][1][1]
                defs = tb.d.defs.get(var, [])
                good = bool(defs)
                for d in defs:
                    if d[0] != "assign":
                        good = False
                        continue
                    v = tb.rvalue(d[3])
                    if v == ("agg", "core::option::Option::None", ()):
                        continue
                    if v[0] == "agg" and v[1].endswith("Option::Some") and is_payload(v[2][0], res, "0"):
                        continue
                    good = False
                    why = "best_move is also assigned " + show(v)[:120]
        ck.req(good, "S3.legal_on_write", "insert@L%d" % t["line"], b.where(t["line"]),
               "the stored move (%s) is not the move of the Some payload of try_as_legal_move(candidate, game_state) for the same game_state" % why,
               "stored move = legal payload")
        ck.req(try_t["target"] in dom.get(bb, ()) and any(s_ in dom.get(bb, ()) for s_ in some_edge) or _after_loop_with_some(b, tb, bb, res), "S4.insert_dominated", "insert@L%d" % t["line"], b.where(t["line"]),
               "the insert is not dominated by the Some edge of the legality test")
    # recursion: on the successor of the legal payload, dominated by the Some edge, no priority move
    recs = live_calls(b, names=(REC,))
    ck.floor("S4", len(recs), 1, "recursive calls")
    for bb, t in recs:
        a = [tb.operand(x) for x in t["args"]]
        ck.req(is_payload(a[gs - 1], res, "1"), "S4.successor", "recursion", b.where(t["line"]), "the recursive call searches %s, not the successor state of the legal payload" % show(a[gs - 1])[:120])
        ck.req(any(s_ in dom.get(bb, ()) for s_ in some_edge), "S4.recursion_dominated", "recursion", b.where(t["line"]), "recursion is not dominated by the Some edge of try_as_legal_move")
        pm = a[n["prioritized_move"] - 1]
        ck.req(pm == ("agg", "core::option::Option::None", ()), "S4.no_priority_below_root", "recursion", b.where(t["line"]), "a recursive call passes the priority move %s" % show(pm))
    ck.sample({"rule": "S3", "key": show(key_want), "legal_payload": show(res)[:160]})


def _after_loop_with_some(b, tb, bb, res):
    """The final insert happens after the loop under `best_move is Some` - accepted when its move provenance (S3) holds."""
    g = guards_of(tb.prog, b, bb, tb)
    return any(c[0] == "discr" and c[1][0] == "var" and tk == 1 for c, tk in g)


def s2_s5_line_walk(ck):
    prog = ck.prog
    nx = ck.body(NEXT, "S2")
    paths = decision_table(prog, nx)
    somes = [p for p in paths if p.ret[0] == "agg" and p.ret[1].endswith("Option::Some")]
    ck.floor("S2", len(somes), 1, "yielding paths of the principal-line iterator")
    SELF = ("param", 1)
    cur = ("field", SELF, "current_game_state")
    for p in somes:
        mr = p.ret[2][0]
        good = mr[0] == "agg" and mr[1].endswith("MoveResult::MoveResult")
        if not good:
            ck.fail("S5.yield", "next", nx.where(), "iterator does not yield MoveResult(move, successor)")
            continue
        mv, nxt = mr[2]
        find = [x for x in walk(mv) if is_call(x, ACCESS + "::find")]
        okk = bool(find) and find[0][2][0] == ("field", SELF, "access") and find[0][2][1] == ("call", HASH, (("field", SELF, "hasher"), cur))
        ck.req(okk, "S2.read_key", "next", nx.where(), "the stored move is looked up with %s, not with self.hasher.hash(&self.current_game_state) in self.access" % (show(find[0])[:200] if find else "?"),
               "key = hash(current state)")
        ok_mv = mv[0] == "field" and mv[2] == "performed_move"
        ck.req(ok_mv, "S2.move", "next", nx.where(), "yielded move is %s, not the entry's performed_move" % show(mv)[:120])
        app = [x for x in walk(nxt) if is_call(x, APPLY)]
        ok_app = bool(app) and app[0][2][0] == cur and app[0][2][1] == mv
        ck.req(ok_app, "S5.successor", "next", nx.where(), "yielded successor is not by_performing_move(current state, the yielded move)")
        adv = [e for e in p.effects if e[0] == "store" and e[1] == cur]
        ok_adv = len(adv) == 1 and any(is_call(x, APPLY) and x[2][1] == mv for x in walk(adv[0][2]))
        if not adv:
            # `self.current_game_state.clone_from(&next)`
            cf = [e for e in p.effects if e[0] == "call" and e[1].endswith("::clone_from") and len(e[2]) == 2 and e[2][0] == cur]
            ok_adv = len(cf) == 1 and any(is_call(x, APPLY) and x[2][1] == mv for x in walk(cf[0][2][1]))
        ck.req(ok_adv, "S5.advance", "next", nx.where(), "the iterator does not advance its current state to the successor of the yielded move")
    # the walk ends only where there is nothing more to follow: at the depth limit, at a position without an entry, or when the stored
    # move cannot be applied.  Any further reason to stop (e.g. the kind of the entry) can cut the line at the root and leave nothing
    # to report although the root has an entry and a legal move.
    from .c04 import walk_counters, limit_test
    counters, written = walk_counters(paths)
    nones = [p for p in paths if p.ret == ("agg", "core::option::Option::None", ()) or (p.ret[0] == "call" and p.ret[1].endswith("::from_residual"))]
    ck.floor("S2", len(nones), 2, "ending paths of the principal-line iterator")
    for p in nones:
        last = p.conds[-1] if p.conds else None
        ok = False
        why = "no condition"
        if last is not None:
            c, tk = last
            why = "%s = %s" % (show(c)[:100], tk)
            if limit_test(c, tk, counters, written) == "beyond":
                ok = True      # depth limit
            elif c[0] == "discr" and is_call(c[1], ACCESS + "::find") and tk in (0, ("else", (1,))):
                ok = True      # no entry for this position
            elif c[0] == "discr" and any(is_call(x, APPLY) for x in walk(c)):
                ok = True      # stored move not applicable
            elif c[0] == "discr" and is_call(c[1], "Try>::branch"):
                inner = c[1][2][0]
                # `?` on find(..) or on by_performing_move(..).ok()
                ok = is_call(inner, ACCESS + "::find") or any(is_call(x, APPLY) for x in walk(inner))
        ck.req(ok, "S2.walk_ends", "next@%s" % why[:40], nx.where(),
               "the principal-line walk can stop for a reason other than the depth limit, a missing entry or an inapplicable move (%s): a root whose entry does not "
               "satisfy it yields an empty line and the search ends without reporting" % why)
    # iter_moves wires hasher/state/tables
    im = ck.body(ACCESS + "::iter_moves", "S2")
    itb = TermBuilder(prog, im)
    ag = None
    for blk in im.blocks:
        for s in blk["stmts"]:
            if s["k"] == "assign" and "agg" in s["rv"] and s["rv"]["agg"].get("adt", "").endswith("TranspositionTableMoveIterator"):
                ag = dict(zip(s["rv"]["agg"]["fields"], [itb.operand(o) for o in s["rv"]["ops"]]))
    good = ag is not None and ag.get("access") == ("param", 1) and ag.get("hasher") == ("param", 2) and is_call(ag.get("current_game_state", ("x",)), "Clone>::clone") \
        and ag["current_game_state"][2][0] == ("param", 3)
    ck.req(good, "S2.iter_moves", "iter_moves", im.where(), "iter_moves does not start the walk at a clone of the given state with the given hasher on these tables")
    # analyze_iterative: lines come from iter_moves(transpositions, &hasher, &game_state) with the search's own hasher/tables/root
    it = ck.body(ITER, "S2")
    ttb = TermBuilder(prog, it)
    lines = live_calls(it, names=(ACCESS + "::iter_moves",))
    ck.floor("S1", len(lines), 2, "principal-line walks in analyze_iterative")
    rec_args = None
    for cn in prog.closures_of(ITER):
        c = prog.body(cn)
        ctb = TermBuilder(prog, c)
        for bb, t in live_calls(c, names=(REC,)):
            n = names_of(ck.body(REC))
            a = [ctb.operand(x) for x in t["args"]]
            rec_args = {k: resolve_upvars(prog, c, a[n[k] - 1])[0] for k in ("hasher", "transpositions", "game_state")}
            rec_args["_closure"] = cn
    for bb, t in lines:
        a = [ttb.operand(x) for x in t["args"]]
        good = rec_args is not None and a[0] == rec_args["transpositions"] and a[1] == rec_args["hasher"] and a[2] == ("param", 1)
        ck.req(good, "S2.same_memory", "iter_moves@L%d" % t["line"], it.where(t["line"]),
               "the line is rebuilt from (%s, %s, %s), not from the tables/hasher the workers searched with and the root state" % tuple(show(x)[:40] for x in a[:3]))
    # workers search a clone of the root
    if rec_args is not None:
        gs = rec_args["game_state"]
        ok = any(is_call(x, "Clone>::clone") and x[2][0] == ("param", 1) for x in walk(gs)) or gs == ("param", 1)
        if not ok and gs[0] == "field" and gs[1][0] == "param" and gs[2] == "game_state":
            # per-worker data record: every construction of the record clones the root state
            wc = prog.body(rec_args["_closure"])
            rec_ty = wc.local_ty(gs[1][1]) if wc is not None else ""
            cons = []
            for cn in [ITER] + prog.closures_of(ITER):
                c = prog.body(cn)
                ctb = TermBuilder(prog, c)
                for blk in c.blocks:
                    for s in blk["stmts"]:
                        if s["k"] == "assign" and "agg" in s["rv"] and s["rv"]["agg"].get("adt") and rec_ty.endswith(s["rv"]["agg"]["adt"].split("::")[-1]) and "game_state" in s["rv"]["agg"].get("fields", []):
                            f = dict(zip(s["rv"]["agg"]["fields"], [ctb.operand(o) for o in s["rv"]["ops"]]))
                            v, home = resolve_upvars(prog, c, f["game_state"])
                            cons.append(is_call(v, "Clone>::clone") and v[2][0] == ("param", 1) and home.name == ITER)
            ok = bool(cons) and all(cons)
        ck.req(ok, "S2.same_root", "workers", it.where(), "workers search %s, which is not (a clone of) the root state" % show(gs)[:160])
    # BestMove events carry exactly that line
    evs = []
    for blk in it.blocks:
        for s in blk["stmts"]:
            if s["k"] == "assign" and "agg" in s["rv"] and s["rv"]["agg"].get("adt") == S + "StatusEvent" and s["rv"]["agg"].get("variant") == "BestMove":
                evs.append((s, dict(zip(s["rv"]["agg"]["fields"], [ttb.operand(o) for o in s["rv"]["ops"]]))))
    ck.floor("S1", len(evs), 2, "BestMove event constructions")
    for s, f in evs:
        ln = f.get("line")
        ok = ln is not None and any(is_call(x, ACCESS + "::iter_moves") for x in walk(ln)) and is_call(ln, "Iterator::collect")
        ck.req(ok, "S1.line_source", "BestMove@L%d" % s["line"], it.where(s["line"]), "a reported line is %s, not the collected table walk" % (show(ln)[:160] if ln else "?"))
    # the mapping closure takes the move of each MoveResult
    for cn in prog.closures_of(ITER):
        c = prog.body(cn)
        if c.arg_count == 2 and "MoveResult" in c.local_ty(2) and c.local_ty(0).endswith("moves::Move"):
            from terms import return_term
            rt = return_term(prog, c)
            ck.req(rt == ("field", ("param", 2), "0"), "S1.map", cn.split("::")[-1], c.where(), "line mapping closure returns %s, not the move of the MoveResult" % (show(rt) if rt else "?"))


def s1_sinks_and_priority(ck):
    prog = ck.prog
    b = ck.body(REC, "S1")
    tb = TermBuilder(prog, b)
    n = names_of(b)
    pm = n.get("prioritized_move")
    gs = n.get("game_state")
    news = live_calls(b, names=("weechess_core::movegen::PseudoLegalMove::new",))
    ck.floor("S1", len(news), 1, "root-priority slot (PseudoLegalMove::new)")
    dom = cfg.dominators(b)
    tries = [bb for bb, t in live_calls(b, names=(TRY,))]
    for bb, t in news:
        a = tb.operand(t["args"][0])
        ck.req(any(x == ("param", pm) for x in walk(a)), "S1.priority_source", "PseudoLegalMove::new", b.where(t["line"]), "an unvalidated move %s enters the candidate list" % show(a))
        # pushed into the same buffer that the filtered loop iterates, before the loop
        loop_ok = bool(tries) and all(bb in cfg.reachable(b, [0]) and tr in cfg.reachable(b, [bb]) for tr in tries)
        ck.req(loop_ok, "S1.priority_validated", "PseudoLegalMove::new", b.where(t["line"]), "the priority move is not followed by the try_as_legal_move loop")
    # no other construction of pseudo-legal moves from raw moves in the engine
    for body in prog.bodies.values():
        if body.crate != "weechess_engine" or body.name == REC:
            continue
        for bb, t in live_calls(body, names=("weechess_core::movegen::PseudoLegalMove::new",)):
            ck.fail("S1.other_raw_moves", body.name, body.where(t["line"]), "PseudoLegalMove::new used outside the validated root-priority slot")
    # candidates iterate move_buffer filled for game_state
    gen = live_calls(b, names=("weechess_core::movegen::MoveGenerator::compute_psuedo_legal_moves_into",))
    good = len(gen) == 1 and tb.operand(gen[0][1]["args"][0]) == ("param", gs)
    ck.req(good, "S1.candidates", "analyze_recursive", b.where(), "candidates are not generated for game_state")
    # best_mv for the next iteration = first move of the reported line
    it = ck.body(ITER, "S1")
    ttb = TermBuilder(prog, it)
    bm = [i for i, l in enumerate(it.locals) if l.get("name") == "best_mv"]
    ok = False
    for l in bm:
        for d in ttb.d.defs.get(l, []):
            src = ttb.call_term(d[2]) if d[0] == "call" else ttb.rvalue(d[3])
            if src == ("agg", "core::option::Option::None", ()):
                continue
            good_src = is_call(src, "::copied") and any(is_call(x, "::first") for x in walk(src)) and any(is_call(x, ACCESS + "::iter_moves") for x in walk(src))
            ok = ok or good_src
            if not good_src:
                ck.fail("S1.best_mv", "analyze_iterative:def", it.where(), "best_mv is assigned %s, which is not the first move of the walked line" % show(src)[:160])
    ck.req(ok or not bm, "S1.best_mv", "analyze_iterative", it.where(), "the priority move of the next iteration is not the first move of the walked line")


def s6_plumbing(ck):
    prog = ck.prog
    b = ck.body(REC, "S6")
    tb = TermBuilder(prog, b)
    n = names_of(b)
    for bb, t in live_calls(b, names=(REC,)):
        a = [tb.operand(x) for x in t["args"]]
        for k in ("evaluator", "token", "hasher", "state_history", "transpositions"):
            ck.req(a[n[k] - 1] == ("param", n[k]), "S6.passdown", k, b.where(t["line"]), "recursion passes %s for `%s`" % (show(a[n[k] - 1]), k))
    # probe uses the same key as the inserts
    for bb, t in live_calls(b, names=(ACCESS + "::find",)):
        a = [tb.operand(x) for x in t["args"]]
        ck.req(a[0] == ("param", n["transpositions"]) and a[1] == ("call", HASH, (("param", n["hasher"]), ("param", n["game_state"]))), "S6.probe_key", "find", b.where(t["line"]),
               "the table probe uses key %s" % show(a[1])[:120])
