"""C20 - Move values faithfully carry their attributes (proof over the packed layout).

Obligations L1-L11 of DESIGN.md section 4.  All of them are statements about the 15 layout
constants, the four primitive bit helpers and the call wiring of constructors/accessors; together
they entail the round trip for every constructor input in the stated domain."""
from facts import callee_name
from terms import TermBuilder, return_term, fold, CannotFold, show, const_value, walk, scalar, thaw
from symex import decision_table

LEVEL = "proof"
TRAIT = "weechess_core::moves::compact::BitSetExt"
STORE = "weechess_core::moves::compact::store"
LOAD = "weechess_core::moves::compact::load"
BIT = "weechess_core::moves::compact::bit"
SETBIT = "weechess_core::moves::compact::set_bit"
MOVE = "weechess_core::moves::Move"
CONSTRUCTORS = ["by_moving", "by_capturing", "by_promoting", "by_capture_promoting", "by_en_passant", "by_castling"]


def std_calls(name):
    if name.endswith("::bitand") and "BitAnd" in name:
        return lambda a, b: a & b
    if name.endswith("::bitor") and "BitOr" in name:
        return lambda a, b: a | b
    if name.endswith("::not") and "ops::bit::Not" in name:
        return None
    return None


def find_calls(body, names):
    return [(bb, t) for bb, t in body.calls() if callee_name(t) in names and not body.is_cleanup(bb)]


def resolve_primitives(prog):
    """The four bit helpers are private to `mod compact`; they are identified by their role (signature), so renaming one of
    them does not orphan the rules: store(&mut u32, u8, u32, u8), load(u32, u8, u32) -> u8, bit(&u32, u8) -> bool,
    set_bit(&mut u32, u8, bool).  The conventional names are kept when the signatures do not single out one function each."""
    global STORE, LOAD, BIT, SETBIT
    mod = "weechess_core::moves::compact::"
    sig = {}
    for n, b in prog.bodies.items():
        if not n.startswith(mod) or "{closure" in n or n.startswith("<") or n.count("::") != mod.count("::"):
            continue
        key = tuple(b.local_ty(i) for i in range(1, b.arg_count + 1)) + ("->", b.local_ty(0))
        sig.setdefault(key, []).append(n)
    want = {
        "STORE": ("&mut u32", "u8", "u32", "u8", "->", "()"),
        "LOAD": ("u32", "u8", "u32", "->", "u8"),
        "BIT": ("&u32", "u8", "->", "bool"),
        "SETBIT": ("&mut u32", "u8", "bool", "->", "()"),
    }
    found = {k: sig.get(v, []) for k, v in want.items()}
    if all(len(v) == 1 for v in found.values()):
        STORE, LOAD, BIT, SETBIT = found["STORE"][0], found["LOAD"][0], found["BIT"][0], found["SETBIT"][0]
    prog.no_inline = set(getattr(prog, "no_inline", ())) | {STORE, LOAD, BIT, SETBIT}
    prog._inlined = {}
    prog.inlined_helpers = {}
    return {k: v for k, v in found.items()}


def run(ck):
    prog = ck.prog
    ck.extra["bit_helpers"] = resolve_primitives(prog)
    ck.explanation = (
        "Decides the bit-packed Move layout: getter/setter of every attribute use the same (offset, mask) / bit; "
        "masks are contiguous at their offset, wide enough for the stored domain, pairwise disjoint and below bit 32; "
        "the primitive helpers store/load/bit/set_bit are inverse on the domain (constant folding of their extracted terms); "
        "store only ORs and every constructor path stores each field at most once into a value starting at literal 0; "
        "Move values are only built in by_moving (and derived code); equality/hash/serde are derived on the raw integer.")
    ck.trusted = ["rustc front end, const evaluator and MIR construction", "extractor decoding",
                  "num_enum derive: into()/try_from_primitive are inverse on the enum discriminants",
                  "ciborium round-trips a u32"]
    ck.not_decided = []
    ck.run_rule(rule_primitives)
    ck.run_rule(rule_layout)
    ck.run_rule(rule_constructors)
    ck.run_rule(rule_closed_construction)
    ck.run_rule(rule_colour_castle_ep)
    ck.run_rule(rule_double_push_flag)
    ck.run_rule(rule_derives)
    ck.run_rule(rule_accessor_wiring)
    ck.run_rule(rule_derived_predicates)
    ck.run_rule(rule_conversions)


# --------------------------------------------------------------------------------------------


def primitive_models(ck):
    """Extract the four helpers as foldable terms."""
    prog = ck.prog
    m = {}
    load = ck.body(LOAD, "L2")
    m["load"] = return_term(prog, load)
    bit = ck.body(BIT, "L2")
    m["bit"] = return_term(prog, bit)
    store = ck.body(STORE, "L2")
    paths = decision_table(prog, store)
    m["store_paths"] = paths
    setbit = ck.body(SETBIT, "L2")
    m["setbit_paths"] = decision_table(prog, setbit)
    m["bodies"] = {"load": load, "bit": bit, "store": store, "set_bit": setbit}
    return m


def store_writes(path):
    return [e for e in path.effects if e[0] == "store" and e[1] == ("param", 1)]


def rule_primitives(ck):
    """L2 (helper semantics) + part of L6 (store only ORs)."""
    m = primitive_models(ck)
    b = m["bodies"]
    # load(data, off, mask) == (data & mask) >> off, for sample data and every plausible slot
    lt = m["load"]
    ok = lt is not None
    if ok:
        try:
            for off in range(0, 29):
                for w in (1, 4, 6):
                    mask = ((1 << w) - 1) << off
                    if mask >= 1 << 32:
                        continue
                    for data in (0, 0xFFFFFFFF, 0xA5A5A5A5, 0x12345678):
                        if fold(lt, {1: data, 2: off, 3: mask}, std_calls) != ((data & mask) >> off) & 0xFF:
                            ok = False
        except CannotFold as e:
            ok = False
            ck.fail("L2.load", "compact::load", b["load"].where(), "cannot evaluate the extracted term: %s" % e)
            return
    ck.req(ok, "L2.load", "compact::load", b["load"].where(),
           "load's result term %s is not ((data & mask) >> offset) as u8" % (show(lt) if lt else "<several definitions>"),
           "term %s" % (show(lt) if lt else ""))
    ck.sample({"rule": "L2.load", "term": show(lt) if lt else None})
    # store: single path, single write *data = data | f(off, mask, value), f independent of data and inside mask
    sp = m["store_paths"]
    ws = [w for p in sp for w in store_writes(p)]
    good = len(sp) == 1 and len(ws) == 1
    f = None
    if good:
        v = ws[0][2]
        good = v[0] == "bin" and v[1] == "BitOr" and (v[2] == ("param", 1) or v[3] == ("param", 1))
        if good:
            f = v[3] if v[2] == ("param", 1) else v[2]
            good = not any(x == ("param", 1) for x in walk(f))
    ck.req(good, "L6.or_only", "compact::store", b["store"].where(),
           "store is not a single `*data |= f(offset, mask, value)` with f independent of data (paths=%d writes=%d)" % (len(sp), len(ws)),
           "*data = data | %s" % (show(f) if f else "?"))
    if good:
        okf = True
        try:
            for off in range(0, 29):
                for w in (1, 4, 6):
                    mask = ((1 << w) - 1) << off
                    if mask >= 1 << 32:
                        continue
                    for val in range(0, 1 << w):
                        r = fold(f, {2: off, 3: mask, 4: val}, std_calls)
                        if r != (val << off) & mask or (r & ~mask) != 0:
                            okf = False
                        # inverse with load
                        if fold(lt, {1: r, 2: off, 3: mask}, std_calls) != val:
                            okf = False
        except CannotFold as e:
            okf = False
        ck.req(okf, "L2.store", "compact::store", b["store"].where(),
               "store's deposited term %s is not ((value as u32) << offset) & mask, or load does not invert it" % show(f),
               "load(store(0, off, mask, v)) == v for all slots/values tried")
        ck.sample({"rule": "L2.store", "term": "*data |= " + show(f)})
    # bit / set_bit
    bt = m["bit"]
    okb = bt is not None
    if okb:
        try:
            for bpos in range(32):
                for data in (0, 0xFFFFFFFF, 0xA5A5A5A5):
                    if bool(fold(bt, {1: data, 2: bpos}, std_calls)) != bool(data & (1 << bpos)):
                        okb = False
        except CannotFold as e:
            okb = False
    ck.req(okb, "L2.bit", "compact::bit", b["bit"].where(),
           "bit's result term %s is not (data & (1 << bit)) != 0" % (show(bt) if bt else "<several definitions>"), show(bt) if bt else "")
    sbp = m["setbit_paths"]
    oks = len(sbp) == 2
    if oks:
        for p in sbp:
            ws = store_writes(p)
            conds = [c for c in p.conds if c[0] == ("param", 3)]
            if len(ws) != 1 or len(conds) != 1:
                oks = False
                break
            truth = conds[0][1] != 0  # taken value 0 => false edge, ('else',..) => true edge
            try:
                for bpos in range(32):
                    for data in (0, 0xFFFFFFFF, 0xA5A5A5A5):
                        r = fold(ws[0][2], {1: data, 2: bpos}, std_calls) & 0xFFFFFFFF
                        want = (data | (1 << bpos)) if truth else (data & ~(1 << bpos) & 0xFFFFFFFF)
                        if r != want:
                            oks = False
            except CannotFold:
                oks = False
    ck.req(oks, "L2.set_bit", "compact::set_bit", b["set_bit"].where(),
           "set_bit does not set exactly the bit on the true edge and clear exactly it on the false edge",
           "true: data | 1<<bit; false: data & !(1<<bit)")


def accessor_pairs(ck):
    """Getter/setter pairs of the BitSetExt impl, with the primitive call and its constants."""
    prog = ck.prog
    impls = prog.impls_of(trait=TRAIT)
    if not impls:
        ck.missing("L1", "impl of " + TRAIT)
        return []
    items = {}
    for i in impls:
        for it in i["items"]:
            items[it["name"]] = it["path"]
    pairs = []
    for name, path in sorted(items.items()):
        if name.startswith("set_") and name[4:] in items:
            pairs.append((name[4:], items[name[4:]], path))
    return pairs


def prim_call(ck, body, names, rule):
    cs = find_calls(body, names)
    if len(cs) != 1:
        ck.fail(rule, body.name, body.where(), "expected exactly one call to %s, found %d" % (" / ".join(n.split("::")[-1] for n in names), len(cs)))
        return None
    bb, t = cs[0]
    tb = TermBuilder(ck.prog, body)
    args = [tb.operand(a) for a in t["args"]]
    return callee_name(t), args, t


def rule_layout(ck):
    """L1 same slot, L2 shape, L3 width, L4 disjoint, L5 zero means none."""
    prog = ck.prog
    pairs = accessor_pairs(ck)
    ck.floor("L1", len(pairs), 10, "getter/setter pairs of BitSetExt")
    piece = ck.adt("weechess_core::piece::Piece", "L3")
    piece_max = max(v["discr"] for v in piece["variants"])
    none_discr = [v["discr"] for v in piece["variants"] if v["name"] == "None"]
    sq_count = ck.const("<weechess_core::board::Square as weechess_core::utils::ArrayKey>::COUNT", "L3")
    slots = {}  # field -> ('mask', off, mask) | ('bit', b)
    for field, gpath, spath in pairs:
        g = ck.body(gpath, "L1")
        s = ck.body(spath, "L1")
        gc = prim_call(ck, g, (LOAD, BIT), "L1")
        sc = prim_call(ck, s, (STORE, SETBIT), "L1")
        if gc is None or sc is None:
            continue
        gname, gargs, gt = gc
        sname, sargs, st = sc
        masked = sname == STORE
        if masked != (gname == LOAD):
            ck.fail("L1", field, g.where(gt["line"]), "setter uses %s but getter uses %s" % (sname.split("::")[-1], gname.split("::")[-1]))
            continue
        # data operand must be self
        selfok = gargs[0] == ("param", 1) and sargs[0] == ("param", 1)
        ck.req(selfok, "L1.self", field, g.where(gt["line"]), "getter/setter do not operate on `self` (%s / %s)" % (show(gargs[0]), show(sargs[0])))
        if masked:
            goff, gmask = const_value(gargs[1]), const_value(gargs[2])
            soff, smask = const_value(sargs[1]), const_value(sargs[2])
            if None in (goff, gmask, soff, smask):
                ck.fail("L1", field, g.where(gt["line"]), "offset/mask arguments are not compile-time constants: get(%s,%s) set(%s,%s)"
                        % (show(gargs[1]), show(gargs[2]), show(sargs[1]), show(sargs[2])))
                continue
            ck.req((goff, gmask) == (soff, smask), "L1", field, g.where(gt["line"]),
                   "getter reads (offset=%d, mask=%#x) but setter writes (offset=%d, mask=%#x)" % (goff, gmask, soff, smask),
                   "offset=%d mask=%#x on both sides" % (goff, gmask))
            # the setter must deposit its parameter (converted), not something else
            dep = [x for x in walk(sargs[3]) if x == ("param", 2)]
            ck.req(bool(dep), "L1.value", field, s.where(st["line"]), "setter stores %s which does not depend on its parameter" % show(sargs[3]))
            slots[field] = ("mask", soff, smask, g, s, gt, st)
            ck.sample({"rule": "L1", "field": field, "offset": soff, "mask": hex(smask)})
        else:
            gb, sb = const_value(gargs[1]), const_value(sargs[1])
            if gb is None or sb is None:
                ck.fail("L1", field, g.where(gt["line"]), "bit position is not a compile-time constant")
                continue
            ck.req(gb == sb, "L1", field, g.where(gt["line"]), "getter tests bit %d but setter writes bit %d" % (gb, sb), "bit %d on both sides" % gb)
            ck.req(sargs[2] == ("param", 2), "L1.value", field, s.where(st["line"]), "setter passes %s instead of its parameter to set_bit" % show(sargs[2]))
            slots[field] = ("bit", sb, 1 << sb, g, s, gt, st)
    n_masked = sum(1 for v in slots.values() if v[0] == "mask")
    n_bits = sum(1 for v in slots.values() if v[0] == "bit")
    ck.floor("L1", n_masked, 5, "masked fields")
    ck.floor("L1", n_bits, 5, "flag bits")
    # L2 shape + L3 width
    domains = {"piece": piece_max, "capture": piece_max, "promotion": piece_max, "origin": sq_count - 1, "dest": sq_count - 1}
    for field, v in sorted(slots.items()):
        if v[0] != "mask":
            ck.req(v[1] < 32, "L4.range", field, v[4].where(), "bit %d is outside the 32-bit word" % v[1])
            continue
        _, off, mask, g, s, gt, st = v
        w = 0
        mm = mask >> off if off < 64 else 0
        while mm & 1:
            w += 1
            mm >>= 1
        contiguous = mask != 0 and mm == 0 and (mask & ((1 << off) - 1)) == 0 and mask == ((1 << w) - 1) << off
        ck.req(contiguous and w <= 8, "L2.shape", field, s.where(st["line"]),
               "mask %#x is not a contiguous run of <= 8 bits starting at offset %d" % (mask, off), "width %d at offset %d" % (w, off))
        ck.req(mask < 1 << 32, "L4.range", field, s.where(st["line"]), "mask %#x exceeds 32 bits" % mask)
        if field in domains:
            ck.req((1 << w) > domains[field], "L3.width", field, s.where(st["line"]),
                   "field is %d bits wide but must hold values up to %d" % (w, domains[field]), "2^%d > %d" % (w, domains[field]))
        else:
            ck.fail("L3.width", field, s.where(st["line"]), "no domain known for masked field '%s' (new field? add its domain to the rule)" % field)
    # L4 pairwise disjoint
    fl = sorted(slots.items())
    for i in range(len(fl)):
        for j in range(i + 1, len(fl)):
            a, b = fl[i], fl[j]
            ck.req(a[1][2] & b[1][2] == 0, "L4.disjoint", "%s/%s" % (a[0], b[0]), a[1][4].where(),
                   "slots overlap: %s=%#x %s=%#x" % (a[0], a[1][2], b[0], b[1][2]))
    # L5 zero means none (for Option-valued fields)
    ck.req(none_discr == [0], "L5.none_is_zero", "Piece::None", "", "Piece::None does not have discriminant 0 (%s)" % none_discr)
    for field in ("capture", "promotion"):
        if field not in slots:
            ck.missing("L5", "field " + field)
            continue
        _, off, mask, g, s, gt, st = slots[field]
        # getter: None exactly on the edge where load(..) == 0
        paths = decision_table(ck.prog, g)
        good = len(paths) == 2
        for p in paths:
            conds = [c for c in p.conds]
            if len(conds) != 1:
                good = False
                continue
            c, taken = conds[0]
            is_eq0 = c[0] == "bin" and c[1] == "Eq" and any(const_value(x) == 0 for x in (c[2], c[3])) and any(
                x[0] == "call" and x[1] == LOAD for x in (c[2], c[3]))
            if not is_eq0:
                good = False
                continue
            ret_none = p.ret[0] == "agg" and p.ret[1].endswith("Option::None")
            truth = taken != 0
            if truth != ret_none:
                good = False
        ck.req(good, "L5.getter", field, g.where(), "getter does not return None exactly when the loaded value == 0")
        # setter: Option mapped through into(), None -> 0
        tb = TermBuilder(ck.prog, s)
        sc = find_calls(s, (STORE,))
        val = tb.operand(sc[0][1]["args"][3]) if sc else None
        goodset = val is not None and val[0] == "call" and val[1].endswith("Option::<T>::unwrap_or") and const_value(val[2][1]) == 0
        ck.req(goodset, "L5.setter", field, s.where(), "setter does not store 0 for None (stored term: %s)" % (show(val) if val else "?"))


def rule_constructors(ck):
    """L6: along every path of each constructor (by_moving folded in) each store-based setter runs at most once,
    on a value that starts from the literal 0."""
    prog = ck.prog
    pairs = accessor_pairs(ck)
    store_setters = set()
    all_setters = set()
    for field, gpath, spath in pairs:
        s = prog.body(spath)
        if s is None:
            continue
        all_setters.add(spath)
        if find_calls(s, (STORE,)):
            store_setters.add(spath)
    base = ck.body(MOVE + "::by_moving", "L6")
    base_paths = decision_table(prog, base)
    base_max = {}
    for p in base_paths:
        cnt = {}
        for e in p.calls():
            if e[1] in all_setters:
                cnt[e[1]] = cnt.get(e[1], 0) + 1
                ck.req(const_value(e[2][0]) == 0, "L6.starts_at_zero", "by_moving:" + e[1].split("::")[-1], base.where(),
                       "setter is applied to %s, not to a value initialised with literal 0" % show(e[2][0]))
        for k, v in cnt.items():
            base_max[k] = max(base_max.get(k, 0), v)
    found = 0
    for cname in CONSTRUCTORS:
        b = _ctor_body(ck, cname)
        found += 1
        paths = decision_table(prog, b)
        worst = {}
        calls_base = 0
        for p in paths:
            cnt = {}
            nb = 0
            for e in p.calls():
                if e[1] in all_setters:
                    cnt[e[1]] = cnt.get(e[1], 0) + 1
                if e[1] == MOVE + "::by_moving":
                    nb += 1
            calls_base = max(calls_base, nb)
            for k, v in cnt.items():
                worst[k] = max(worst.get(k, 0), v)
        if cname != "by_moving":
            ck.req(calls_base == 1, "L6.base", cname, b.where(), "constructor does not build on exactly one by_moving call (%d)" % calls_base)
            for k, v in base_max.items():
                worst[k] = worst.get(k, 0) + v * calls_base
        for k in sorted(store_setters):
            n = worst.get(k, 0)
            ck.req(n <= 1, "L6.store_once", "%s:%s" % (cname, k.split("::")[-1]), b.where(),
                   "OR-only setter %s can run %d times on one constructor path: the second store ORs into the first" % (k.split("::")[-1], n),
                   "%d store(s)" % n)
        # no loops around setters
        import cfg
        for bb, t in b.calls():
            if callee_name(t) in all_setters and cfg.in_cycle(b, bb):
                ck.fail("L6.store_once", "%s:loop" % cname, b.where(t["line"]), "setter call inside a loop")
    ck.floor("L6", found, 6, "Move constructors")
    # every caller of a store-based setter is a constructor (nobody re-stores into an existing move)
    ctor_names = {MOVE + "::" + c for c in CONSTRUCTORS}
    for body in prog.bodies.values():
        if body.crate not in ("weechess_core", "weechess_engine", "weechess"):
            continue
        for bb, t in body.calls():
            if callee_name(t) in store_setters and body.name not in ctor_names:
                ck.fail("L6.callers", "%s:%s" % (body.name, callee_name(t).split("::")[-1]), body.where(t["line"]),
                        "OR-only setter called outside the constructors")
    ck.ok("L6.callers", "store setters called only from constructors", "", "%d store-based setters" % len(store_setters))


def rule_closed_construction(ck):
    """L7: Move(..) aggregates only in by_moving and derived code; Move::NULL is the literal 0."""
    prog = ck.prog
    sites = []
    for body in prog.bodies.values():
        for bb, blk in enumerate(body.blocks):
            for s in blk["stmts"]:
                if s["k"] == "assign" and "agg" in s["rv"] and s["rv"]["agg"].get("adt") == MOVE:
                    sites.append((body, s))
    ck.floor("L7", len(sites), 1, "Move aggregate constructions")
    for body, s in sites:
        derived = (body.j.get("impl_of") or {}).get("derived", False)
        parent = body.j.get("parent")
        if parent and prog.body(parent) is not None:
            derived = derived or (prog.body(parent).j.get("impl_of") or {}).get("derived", False)
        allowed = body.name == MOVE + "::by_moving" or derived
        ck.req(allowed, "L7", body.name, body.where(s["line"]),
               "Move value assembled outside by_moving / derived code: raw bits are not guaranteed to come from the setters")
    null = ck.const(MOVE + "::NULL", "L7")
    ck.req(scalar(null) == 0, "L7.null", "Move::NULL", "", "Move::NULL is not the all-zero word (%r)" % (null,))
    adt = ck.adt(MOVE, "L7")
    fields = adt["variants"][0]["fields"]
    ck.req(len(fields) == 1 and fields[0]["ty"] == "u32" and not fields[0]["public"], "L7.repr", "Move", "",
           "Move is not a single private u32 field: %s" % [(f["name"], f["ty"], f["vis"]) for f in fields])


def _eq_args(t):
    """For a term `<X as PartialEq>::eq(a, b)` or Eq(a, b) return (a, b)."""
    if t[0] == "call" and t[1].endswith("::eq") and len(t[2]) == 2:
        return t[2]
    if t[0] == "bin" and t[1] == "Eq":
        return (t[2], t[3])
    return None


def _variant_of_const(t):
    if t[0] == "const":
        v = thaw(t[2])
        if isinstance(v, dict) and "$ref" in v:
            v = v["$ref"]
        if isinstance(v, dict) and "$variant" in v:
            return v["$variant"]
    if t[0] == "agg":
        return t[1].split("::")[-1]
    return None


def rule_colour_castle_ep(ck):
    prog = ck.prog
    pfx = "<u32 as " + TRAIT + ">::"
    # L8 colour
    bm = ck.body(MOVE + "::by_moving", "L8")
    paths = decision_table(prog, bm)
    enc = None
    for p in paths:
        for e in p.calls(pfx + "set_color"):
            ea = _eq_args(e[2][1])
            if ea:
                vs = [_variant_of_const(x) for x in ea]
                other = [x for x in ea if _variant_of_const(x) is None]
                if any(vs) and other and other[0][0] == "call" and other[0][1].endswith("PieceIndex::color") and other[0][2] == (("param", 1),):
                    enc = [v for v in vs if v][0]
    ck.req(enc is not None, "L8.encode", "by_moving", bm.where(), "set_color argument is not `piece.color() == <Color constant>`", "bit set iff colour == %s" % enc)
    col = ck.body(MOVE + "::color", "L8")
    dec = {}
    for p in decision_table(prog, col):
        if len(p.conds) == 1 and p.conds[0][0][0] == "call" and p.conds[0][0][1] == pfx + "color":
            dec[p.conds[0][1] != 0] = _variant_of_const(p.ret)
    ck.req(enc is not None and dec.get(True) == enc and dec.get(False) not in (None, enc), "L8.decode", "Move::color", col.where(),
           "decoder maps bit->%s, no bit->%s but encoder sets the bit for %s" % (dec.get(True), dec.get(False), enc),
           "bit <-> %s" % enc)
    # L10 castling
    bc = ck.body(MOVE + "::by_castling", "L10")
    encq = enck = None
    for p in decision_table(prog, bc):
        for e in p.calls():
            if e[1] in (pfx + "set_castle_queenside", pfx + "set_castle_kingside"):
                ea = _eq_args(e[2][1])
                v = None
                if ea and ("param", 2) in ea:
                    v = [_variant_of_const(x) for x in ea if x != ("param", 2)][0]
                if e[1].endswith("queenside"):
                    encq = v
                else:
                    enck = v
    cs = ck.body(MOVE + "::castle_side", "L10")
    decq = deck = None
    for p in decision_table(prog, cs):
        last = p.conds[-1] if p.conds else None
        if last and last[1] != 0 and last[0][0] == "call":
            side = None
            if p.ret[0] == "agg" and p.ret[1].endswith("Option::Some"):
                side = _variant_of_const(p.ret[2][0])
            if last[0][1] == pfx + "castle_queenside":
                decq = side
            elif last[0][1] == pfx + "castle_kingside":
                deck = side
    ck.req(encq is not None and enck is not None and encq != enck, "L10.encode", "by_castling", bc.where(),
           "castle flags are not set from `side == <distinct Side constants>` (queenside<-%s kingside<-%s)" % (encq, enck),
           "queenside bit iff side==%s, kingside bit iff side==%s" % (encq, enck))
    ck.req(decq == encq and deck == enck and decq is not None, "L10.decode", "castle_side", cs.where(),
           "castle_side maps queenside bit->%s kingside bit->%s, encoder uses %s/%s" % (decq, deck, encq, enck))
    # by_castling must move the king of the given colour from KING_ORIGINS[color] to CASTLE_DESTS[color][side]
    # (table contents are C01/G5's business; here: wiring only)
    # L10 en passant
    be = ck.body(MOVE + "::by_en_passant", "L10")
    ep_ok = cap_ok = False
    for p in decision_table(prog, be):
        for e in p.calls():
            if e[1] == pfx + "set_en_passant" and const_value(e[2][1]) is True:
                ep_ok = True
            if e[1] == pfx + "set_capture":
                a = e[2][1]
                if a[0] == "agg" and a[1].endswith("Option::Some") and _variant_of_const(a[2][0]) == "Pawn":
                    cap_ok = True
    ck.req(ep_ok, "L10.ep_flag", "by_en_passant", be.where(), "by_en_passant does not set the en passant flag to true")
    ck.req(cap_ok, "L10.ep_capture", "by_en_passant", be.where(), "by_en_passant does not record a captured Pawn")


def rule_derives(ck):
    prog = ck.prog
    want = {"core::cmp::PartialEq": False, "core::cmp::Eq": False, "core::hash::Hash": False,
            "serde_core::ser::Serialize": False, "serde_core::de::Deserialize": False}
    alt = {"serde::ser::Serialize": "serde_core::ser::Serialize", "serde::de::Deserialize": "serde_core::de::Deserialize"}
    for i in prog.impls:
        if i["self_ty"] != MOVE or not i["trait"]:
            continue
        tr = alt.get(i["trait"], i["trait"])
        if tr in want:
            ck.req(i["derived"], "L9.derived", tr.split("::")[-1], "", "impl %s for Move is hand-written: equality/serialisation may ignore or reinterpret bits" % tr)
            want[tr] = True
    for tr, seen in sorted(want.items()):
        ck.req(seen, "L9.present", tr.split("::")[-1], "", "no impl of %s for Move found" % tr)


ACCESSORS = {
    # Move accessor -> BitSetExt getter it must read (explicit, reviewed table)
    "origin": "origin", "destination": "dest", "piece": "piece", "capture": "capture", "promotion": "promotion",
    "is_en_passant": "en_passant", "is_double_pawn": "double_pawn",
}
PARAM_SLOTS = {
    # by_moving parameter -> setter that must receive it
    2: "set_origin", 3: "set_dest",
}


def _ctor_body(ck, cname):
    """A constructor's body with calls to OTHER derived constructors spliced in (by_capture_promoting written as by_capturing(..) plus
    set_promotion): the rules then see the one by_moving call and all setter calls of the chain."""
    import inline
    from facts import Body
    prog = ck.prog
    b = ck.body(MOVE + "::" + cname, "L6")
    derived = {MOVE + "::" + c for c in CONSTRUCTORS if c not in ("by_moving", cname)}
    j, names = inline.inline_body(prog, prog.raw_body(MOVE + "::" + cname), depth=3, decide=lambda n: n in derived)
    return Body(j, b.unit) if j is not None else b


def rule_accessor_wiring(ck):
    prog = ck.prog
    pfx = "<u32 as " + TRAIT + ">::"
    for acc, getter in sorted(ACCESSORS.items()):
        b = ck.body(MOVE + "::" + acc, "L11")
        rt = return_term(prog, b)
        good = rt is not None and rt[0] == "call" and rt[1] == pfx + getter and rt[2] == (("field", ("param", 1), "0"),)
        ck.req(good, "L11.accessor", acc, b.where(), "Move::%s does not return self.0.%s() (term: %s)" % (acc, getter, show(rt) if rt else "?"))
    bm = ck.body(MOVE + "::by_moving", "L11")
    seen = {}
    for p in decision_table(prog, bm):
        for e in p.calls():
            if e[1].startswith(pfx + "set_"):
                seen.setdefault(e[1][len(pfx):], set()).add(e[2][1])
    for param, setter in sorted(PARAM_SLOTS.items()):
        ck.req(seen.get(setter) == {("param", param)}, "L11.ctor", setter, bm.where(),
               "by_moving passes %s to %s instead of its parameter #%d" % ([show(x) for x in seen.get(setter, [])], setter, param))
    pc = seen.get("set_piece", set())
    good = len(pc) == 1 and list(pc)[0][0] == "call" and list(pc)[0][1].endswith("PieceIndex::piece") and list(pc)[0][2] == (("param", 1),)
    ck.req(good, "L11.ctor", "set_piece", bm.where(), "by_moving does not store piece.piece()")
    # by_capturing / by_promoting / by_capture_promoting forward their own parameters
    for cname, wiring in (("by_capturing", {"set_capture": 4}), ("by_promoting", {"set_promotion": 4}),
                          ("by_capture_promoting", {"set_capture": 4, "set_promotion": 5})):
        b = _ctor_body(ck, cname)
        got = {}
        for p in decision_table(prog, b):
            for e in p.calls():
                if e[1].startswith(pfx + "set_"):
                    got.setdefault(e[1][len(pfx):], set()).add(e[2][1])
            for e in p.calls(MOVE + "::by_moving"):
                ck.req(e[2] == (("param", 1), ("param", 2), ("param", 3)), "L11.ctor", cname + ":by_moving", b.where(),
                       "does not forward (piece, origin, dest) to by_moving unchanged")
        for setter, param in wiring.items():
            want = ("agg", "core::option::Option::Some", (("param", param),))
            ck.req(got.get(setter) == {want}, "L11.ctor", "%s:%s" % (cname, setter), b.where(),
                   "%s passes %s to %s instead of Some(parameter #%d)" % (cname, [show(x) for x in got.get(setter, [])], setter, param))



DERIVED = {
    # derived predicate -> (Move accessors, BitSetExt getters) it may read `self` through: it answers a question about ONE attribute, so it
    # is a function of that attribute as stored and of nothing else (a pawn reaching the last rank is not "has a promotion piece")
    "is_capture": (("capture",), ("capture",)),
    "is_promotion": (("promotion",), ("promotion",)),
    "is_castle": (("castle_side",), ("castle_queenside", "castle_kingside")),
    "is_any_castle": (("castle_side", "is_castle"), ("castle_queenside", "castle_kingside")),
}


def _self_reads(term, allowed, out, via=None):
    """Occurrences of `self` (param 1) or of its raw word in a term, each tagged with the call it is handed to."""
    if not isinstance(term, tuple) or not term:
        return
    if term == ("param", 1) or term == ("field", ("param", 1), "0"):
        out.add(via or "<raw bits>")
        return
    if term[0] == "call" and isinstance(term[1], str):
        for a in term[2]:
            _self_reads(a, allowed, out, term[1])
        return
    for x in term[1:]:
        if isinstance(x, tuple):
            if x and not isinstance(x[0], str):
                for y in x:
                    _self_reads(y, allowed, out, via)
            else:
                _self_reads(x, allowed, out, via)


def rule_derived_predicates(ck):
    """L14: is_capture / is_promotion / is_castle / is_any_castle read the move only through the accessor of their own attribute, and the two
    Option-valued ones answer `is_some` of it (not `is_none`)."""
    prog = ck.prog
    pfx = "<u32 as " + TRAIT + ">::"
    n = 0
    for pred, (accs, getters) in sorted(DERIVED.items()):
        b = ck.body(MOVE + "::" + pred, "L14")
        allowed = {MOVE + "::" + a for a in accs} | {pfx + g for g in getters}
        reads = set()
        for p in decision_table(prog, b):
            for e in p.calls():
                _self_reads(("call", e[1], e[2]), allowed, reads)
            for c in p.conds:
                _self_reads(c[0], allowed, reads)
            r = p.ret
            if r is not None:
                _self_reads(r, allowed, reads)
        foreign = sorted(r for r in reads if r not in allowed)
        n += 1
        ck.req(not foreign and bool(reads & allowed), "L14.reads", pred, b.where(),
               "Move::%s reads the move through %s: it must be a function of the stored %s attribute alone" % (
                   pred, ", ".join(x.split("::")[-1] for x in foreign) or "nothing", accs[0]),
               "reads only %s" % ", ".join(sorted(x.split("::")[-1] for x in reads)))
        if pred in ("is_capture", "is_promotion"):
            rt = return_term(prog, b)
            if rt is not None and rt[0] == "call" and rt[1].startswith("core::option::Option::<T>::is_"):
                ck.req(rt[1].endswith("::is_some"), "L14.polarity", pred, b.where(), "Move::%s returns %s of the attribute" % (pred, rt[1].split("::")[-1]))
    ck.floor("L14", n, 4, "derived predicates")

def rule_conversions(ck):
    """Square <-> u8 conversions used by the setters/getters are value-preserving."""
    prog = ck.prog
    b = ck.body("<weechess_core::board::Square as core::convert::Into<u8>>::into", "L12")
    rt = return_term(prog, b)
    ck.req(rt == ("field", ("param", 1), "0"), "L12.square_into", "Square->u8", b.where(), "Into<u8> for Square is not `self.0` (%s)" % (show(rt) if rt else "?"))
    b = ck.body("<weechess_core::board::Square as core::convert::TryFrom<u8>>::try_from", "L12")
    good = False
    for p in decision_table(prog, b):
        if p.ret[0] == "agg" and p.ret[1].endswith("Result::Ok"):
            inner = p.ret[2][0]
            good = inner == ("agg", "weechess_core::board::Square::Square", (("param", 1),))
    ck.req(good, "L12.square_try_from", "u8->Square", b.where(), "TryFrom<u8> for Square does not wrap its argument unchanged on the Ok path")


def rule_double_push_flag(ck):
    """L13: the double-push flag is an attribute derived by the base constructor: it is set exactly for a pawn whose origin and destination
    ranks are more than one apart - in either direction (the comparison is on the absolute rank distance, so both colours are covered)."""
    prog = ck.prog
    pfx = "<u32 as " + TRAIT + ">::"
    bm = ck.body(MOVE + "::by_moving", "L13")
    from props.common import guards_of
    tb = TermBuilder(prog, bm)
    sites = [(bb, t) for bb, t in bm.calls() if callee_name(t) == pfx + "set_double_pawn" and not bm.is_cleanup(bb)]
    ck.req(len(sites) == 1, "L13.site", "by_moving", bm.where(), "expected one set_double_pawn call in by_moving, found %d" % len(sites))
    for bb, t in sites:
        val = const_value(tb.operand(t["args"][1]))
        g = guards_of(prog, bm, bb, tb)
        pawn = dist = False
        extra = []
        for c, tk in g:
            if c[0] == "call" and c[1].endswith("::eq") and tk is True and any(x[0] == "call" and x[1].endswith("PieceIndex::piece") and x[2] == (("param", 1),) for x in c[2]) \
                    and any(_variant_of_const(x) == "Pawn" for x in c[2]):
                pawn = True
                continue
            if c[0] == "bin" and c[1] == "Gt" and tk is True and const_value(c[3]) == 1 and c[2][0] == "call" and c[2][1].endswith("Rank::abs_distance_to"):
                a, b_ = c[2][2]
                ranks = {show(a), show(b_)}
                want = {show(("call", "weechess_core::board::Square::rank", (("param", 2),))), show(("call", "weechess_core::board::Square::rank", (("param", 3),)))}
                if ranks == want:
                    dist = True
                    continue
            extra.append((show(c)[:80], tk))
        ck.req(val is True and pawn and dist and not extra, "L13.double_push", "by_moving", bm.where(t["line"]),
               "the double-push flag is not set exactly under `piece is a pawn and |origin rank - destination rank| > 1` (pawn test %s, distance test %s, other conditions %s)"
               % (pawn, dist, extra), "pawn && abs rank distance > 1")
    # abs_distance_to is symmetric
    ad = prog.body("weechess_core::board::Rank::abs_distance_to")
    if ad is None:
        ck.missing("L13", "Rank::abs_distance_to")
        return
    from evalfn import FnModel
    try:
        m = FnModel(prog, ad, inline_depth=1)
        ok = all(m(a, b_) == abs(a - b_) for a in range(8) for b_ in range(8))
    except Exception as e:
        ok = False
    ck.req(ok, "L13.abs_distance", "Rank::abs_distance_to", ad.where(), "Rank::abs_distance_to is not |a - b| on 0..7")
