"""C09 - Attack lookup tables equal board geometry (proof on literals + structural wiring).

M1 perfect hashing of the 128 magic literals (reader index term folded for every relevant subset),
M2 widths, M3 reader = writer, M4 edge pairing of slide masks, M5 ray cut, M6 direction sets,
M7 offset tables, M8 no wrap (Square::offset folded for all squares, BitBoard::shift masks)."""
from facts import callee_name
from terms import TermBuilder, return_term, show, walk, fold, CannotFold, const_value, thaw, scalar
from symex import decision_table
from evalfn import FnModel
import cfg
import geometry as G
from .common import live_calls, is_iter_next, impl_fn

LEVEL = "proof"
A = "weechess_core::attacks::"
D = A + "data::"
BB = "weechess_core::board::BitBoard"
MASK64 = (1 << 64) - 1


def _dir_offset_fn(prog):
    """The workspace function that turns a Direction into a board Offset: `impl Into<Offset> for Direction` or `impl From<Direction> for Offset`."""
    into = "<" + A + "Direction as core::convert::Into<weechess_core::board::Offset>>::into"
    if into in prog.bodies:
        return into
    frm = [n for n in prog.bodies if n.endswith("<impl core::convert::From<weechess_core::attacks::Direction> for weechess_core::board::Offset>::from")]
    return frm[0] if len(frm) == 1 else into


def run(ck):
    ck.explanation = (
        "M1: for each of the 64 rook and 64 bishop squares the extracted index term of the lookup function is constant-folded for every subset "
        "of the relevance mask (plus off-ray noise); slots are in range and two subsets share a slot only if the geometric ray-walk attacks agree. "
        "M2: width >= popcount(mask), 2^width <= allocated row. M3: the table-fill computes its slot with the same term, from the same three tables, "
        "for b in 0..2^width over all squares, and stores the slow computation of the same (square, blockers). M4: slide masks = ray & !edge with the "
        "edge(s) each direction runs into (evaluated against geometry for 64 squares). M5/M6: the slow computation cuts each of the piece's four rays "
        "at the nearest blocker (first_one iff the direction increases the square index) with the same direction's ray. M7: direction, knight, king "
        "and pawn offsets and the rank/file masks equal geometry. M8: Square::offset folded for 64 squares x 25 offsets never wraps; BitBoard::shift "
        "clears file H before <<1 and file A before >>1.")
    ck.trusted = ["rustc front end, const evaluator and MIR construction", "extractor decoding",
                  "loop shapes read, not proved: compute_ray walks offset() until None; compute_blockers_from_index maps bit i of the index to the "
                  "i-th mask bit; the fill loops visit every element of Square::ALL", "lazy_static initialises each table once with the named function"]
    ck.not_decided = ["semantics of the three loop shapes named in the trusted base"]
    ctx = {}
    ck.run_rule(m7_offsets_and_masks, ctx)
    ck.run_rule(m8_no_wrap)
    ck.run_rule(m4_slide_masks, ctx)
    ck.run_rule(m5_m6_ray_cut, ctx)
    ck.run_rule(m3_reader_writer, ctx)
    ck.run_rule(m1_m2_literals, ctx)
    ck.run_rule(leaper_tables, ctx)
    ck.run_rule(m9_lookups_are_pure)


# ------------------------------------------------------------------------------------------------


def direction_table(ck):
    """Direction variant name -> (df, dr), from <Direction as Into<Offset>>::into."""
    b = ck.body(_dir_offset_fn(ck.prog), "M7")
    adt = ck.adt(A + "Direction", "M7")
    names = {v["discr"]: v["name"] for v in adt["variants"]}
    out = {}
    for p in decision_table(ck.prog, b):
        if len(p.conds) != 1 or p.conds[0][0] != ("discr", ("param", 1)) or isinstance(p.conds[0][1], tuple):
            continue
        r = p.ret
        if r[0] == "agg" and r[1].endswith("Offset::Offset"):
            out[names[p.conds[0][1]]] = (const_value(r[2][0]), const_value(r[2][1]))
    return out, b


def offset_of(t):
    """(file, rank) of an Offset-valued term (aggregate or constant)."""
    if t[0] == "agg" and t[1].endswith("Offset::Offset"):
        return (const_value(t[2][0]), const_value(t[2][1]))
    if t[0] == "const":
        v = thaw(t[2])
        if isinstance(v, dict) and "file" in v and "rank" in v:
            return (v["file"], v["rank"])
    return None


def m7_offsets_and_masks(ck, ctx):
    prog = ck.prog
    dirs, b = direction_table(ck)
    ctx["dirs"] = dirs
    want = {"North": (0, 1), "South": (0, -1), "East": (1, 0), "West": (-1, 0),
            "NorthEast": (1, 1), "NorthWest": (-1, 1), "SouthEast": (1, -1), "SouthWest": (-1, -1)}
    ck.floor("M7", len(dirs), 8, "Direction -> Offset table entries")
    for n, off in sorted(want.items()):
        ck.req(dirs.get(n) == off, "M7.direction", n, b.where(), "Direction::%s maps to offset %s, geometry says %s" % (n, dirs.get(n), off), str(off))
    # Direction::ALL lists each direction once; Index(d) = discriminant
    al = ck.const(A + "Direction::ALL", "M7")
    ck.req(sorted(x["$variant"] for x in al) == sorted(want), "M7.direction_all", "Direction::ALL", "", "Direction::ALL is %s" % [x["$variant"] for x in al])
    # rank / file masks
    rm = ck.const("weechess_core::common::RANK_MASKS", "M7")["array"]
    fm = ck.const("weechess_core::common::FILE_MASKS", "M7")["array"]
    for i in range(8):
        ck.req(i < len(rm) and scalar(rm[i]) == G.rank_mask(i), "M7.rank_mask", "RANK_MASKS[%d]" % i, "", "RANK_MASKS[%d] = %#x, geometry %#x" % (i, scalar(rm[i]) if i < len(rm) else -1, G.rank_mask(i)))
        ck.req(i < len(fm) and scalar(fm[i]) == G.file_mask(i), "M7.file_mask", "FILE_MASKS[%d]" % i, "", "FILE_MASKS[%d] = %#x, geometry %#x" % (i, scalar(fm[i]) if i < len(fm) else -1, G.file_mask(i)))
    ctx["rank_masks"] = [scalar(x) for x in rm]
    ctx["file_masks"] = [scalar(x) for x in fm]
    # named rank/file/square constants
    for i, n in enumerate(["ONE", "TWO", "THREE", "FOUR", "FIVE", "SIX", "SEVEN", "EIGHT"]):
        ck.req(scalar(ck.const("weechess_core::board::Rank::" + n, "M7")) == i, "M7.rank_const", "Rank::" + n, "", "Rank::%s != %d" % (n, i))
    for i, n in enumerate("ABCDEFGH"):
        ck.req(scalar(ck.const("weechess_core::board::File::" + n, "M7")) == i, "M7.file_const", "File::" + n, "", "File::%s != %d" % (n, i))
    sa = ck.const("weechess_core::board::Square::ALL", "M7")
    ck.req([scalar(x) for x in sa] == list(range(64)), "M7.square_all", "Square::ALL", "", "Square::ALL is not a1..h8 in index order")
    for s in range(64):
        nm = G.name(s).upper()
        c = prog.consts.get("weechess_core::board::Square::" + nm)
        ck.req(c is not None and scalar(c["value"]) == s, "M7.square_const", "Square::" + nm, "", "Square::%s is not %d" % (nm, s))
    # Square::from((Rank, File)) = 8r + f ; file() = s % 8 ; rank() = s / 8 ; Index(Square) = s
    fm_ = FnModel(prog, ck.body("<weechess_core::board::Square as core::convert::From<(weechess_core::board::Rank, weechess_core::board::File)>>::from", "M7"), inline_depth=2)
    fi = FnModel(prog, ck.body("weechess_core::board::Square::file", "M7"))
    ra = FnModel(prog, ck.body("weechess_core::board::Square::rank", "M7"))
    okc = True
    try:
        for s in range(64):
            f, r = G.fr(s)
            if fm_([r, f]) != s or fi(s) != f or ra(s) != r:
                okc = False
    except CannotFold as e:
        okc = False
    ck.req(okc, "M7.square_coords", "Square::{from,file,rank}", "", "Square <-> (rank, file) conversions are not s = 8r + f")
    for ty in ("Square", "File", "Rank"):
        bname = impl_fn(prog, "weechess_core::utils::Index", "From<weechess_core::board::%s>" % ty, "from") or ("Index::from(%s)" % ty)
        rt = return_term(prog, ck.body(bname, "M7"))
        try:
            good = all(fold(rt, {1: v}) == v for v in range(8))
        except CannotFold:
            good = False
        ck.req(good, "M7.index", "Index::from(%s)" % ty, "", "Index::from(%s) is not the identity on the wrapped number" % ty)
    for ty, path in (("Direction", A + "Direction"), ("Color", "weechess_core::color::Color"), ("Piece", "weechess_core::piece::Piece")):
        bname = impl_fn(prog, "weechess_core::utils::Index", "From<%s>" % path, "from") or ("Index::from(%s)" % ty)
        rt = return_term(prog, ck.body(bname, "M7"))
        good = rt is not None and rt[0] == "agg" and rt[2][0][0] == "cast" and rt[2][0][2] in (("discr", ("param", 1)), ("param", 1))
        ck.req(good, "M7.index", "Index::from(%s)" % ty, "", "Index::from(%s) is not the discriminant (%s)" % (ty, show(rt) if rt else "?"))


def m8_no_wrap(ck):
    prog = ck.prog
    b = ck.body("weechess_core::board::Square::offset", "M8")
    m = FnModel(prog, b, inline_depth=3)
    bad = []
    n = 0
    try:
        for s in range(64):
            f, r = G.fr(s)
            for df in range(-2, 3):
                for dr in range(-2, 3):
                    n += 1
                    got = m(s, {"file": df, "rank": dr})
                    want = ("Some", G.sq(f + df, r + dr)) if G.on_board(f + df, r + dr) else None
                    if got != want:
                        bad.append((G.name(s), df, dr, got, want))
    except CannotFold as e:
        ck.fail("M8.offset", "Square::offset", b.where(), "cannot fold Square::offset: %s" % e)
        return
    ck.req(not bad, "M8.offset", "Square::offset", b.where(), "Square::offset disagrees with geometry, e.g. %s" % (bad[:3],), "%d (square, offset) cases folded" % n)
    ck.extra["square_offset_cases"] = n
    # BitBoard::shift: the one-step file shifts are applied to a value from which the leaving file was cleared
    sh = ck.body(BB + "::shift", "M8")
    tb = TermBuilder(prog, sh, inline_depth=2)
    fm = [G.file_mask(i) for i in range(8)]
    seen = {"Shl": None, "Shr": None}
    for blk in sh.blocks:
        for s in blk["stmts"]:
            if s["k"] == "assign" and "binop" in s["rv"] and s["rv"]["binop"] in ("Shl", "Shr") and const_value(tb.operand(s["rv"]["b"])) == 1:
                opnd = tb.operand(s["rv"]["a"])
                cleared = None
                for x in walk(opnd):
                    if x[0] == "un" and x[1] == "Not":
                        try:
                            cleared = fold(x[2], {}, _calls({}))
                        except CannotFold:
                            pass
                    if x[0] == "call" and x[1].endswith("Not>::not"):
                        try:
                            cleared = fold(x[2][0], {}, _calls({}))
                        except CannotFold:
                            pass
                seen[s["rv"]["binop"]] = (cleared, s["line"])
    east = seen["Shl"]
    west = seen["Shr"]
    ck.req(east is not None and east[0] == fm[7], "M8.shift_east", "BitBoard::shift", sh.where(east[1] if east else None),
           "the east step (<< 1) does not clear file H first (cleared mask: %s)" % ((hex(east[0]) if east and east[0] is not None else east),), "clears file H")
    ck.req(west is not None and west[0] == fm[0], "M8.shift_west", "BitBoard::shift", sh.where(west[1] if west else None),
           "the west step (>> 1) does not clear file A first (cleared mask: %s)" % ((hex(west[0]) if west and west[0] is not None else west),), "clears file A")
    # rank steps shift by 8 * |rank|
    ranks = []
    for blk in sh.blocks:
        for s in blk["stmts"]:
            if s["k"] == "assign" and "binop" in s["rv"] and s["rv"]["binop"] in ("Shl", "Shr"):
                amt = tb.operand(s["rv"]["b"])
                if any(x[0] == "bin" and x[1] == "Mul" and 8 in (const_value(x[2]), const_value(x[3])) for x in walk(amt)):
                    ranks.append(s["rv"]["binop"])
    ck.req(sorted(ranks) == ["Shl", "Shr"], "M8.shift_rank", "BitBoard::shift", sh.where(), "rank steps are not `<< 8*rank` / `>> 8*-rank` (%s)" % ranks)


def _calls(tables):
    """Call resolver for folding terms of the attack code. `tables`: {static name: python list or callable}."""
    def idx(tab, i):
        if isinstance(i, dict):
            i = scalar(i)
        if isinstance(tab, dict) and "$static" in tab:
            t = tables.get(tab["$static"])
            if t is None:
                raise CannotFold("no model for static " + tab["$static"])
            return t(i) if callable(t) else t[i]
        if isinstance(tab, dict) and "$ref" in tab:
            tab = tab["$ref"]
        if isinstance(tab, dict) and "array" in tab:
            tab = tab["array"]
        if isinstance(tab, list):
            x = tab[i]
            sx = scalar(x)
            return sx if sx is not None else x
        if isinstance(tab, tuple) and tab[0] == "row":
            return ("slot", tab[1], tab[2], i)
        raise CannotFold("index into %r" % (type(tab),))

    def res(name):
        if name.endswith("Deref>::deref") or name == "core::convert::Into::into":
            return lambda x: x
        if name.endswith("ops::index::Index<I>>::index") or name.endswith("ops::index::IndexMut<I>>::index_mut"):
            return idx
        if name.endswith("Into<u64>>::into") or name.endswith("From<u64>>::from") or name.endswith("BitBoard::new"):
            return lambda x: x
        if name.endswith("::wrapping_mul"):
            return lambda a, b: (a * b) & MASK64
        if name.endswith("BitAnd>::bitand"):
            return lambda a, b: a & b
        if name.endswith("BitOr>::bitor"):
            return lambda a, b: a | b
        if name.endswith("Not>::not"):
            return lambda a: (~a) & MASK64
        return None
    return res


def m4_slide_masks(ck, ctx):
    """Each term of the slide-mask builders is RAYS[d][sq] & !E; with E evaluated and rays taken from geometry the
    resulting mask must be the geometric relevance mask for all 64 squares."""
    prog = ck.prog
    dirs = ctx.get("dirs") or direction_table(ck)[0]
    for piece, fn, gdirs in (("rook", "compute_rook_slide_masks", G.ROOK_DIRS), ("bishop", "compute_bishop_slide_masks", G.BISHOP_DIRS)):
        b = ck.body(D + fn, "M4")
        tb = TermBuilder(prog, b)
        pairs = []
        for bb, t in live_calls(b):
            if not callee_name(t).endswith("BitOrAssign>::bitor_assign"):
                continue
            v = tb.operand(t["args"][1])
            dname = None
            edge = None
            for x in walk(v):
                if x[0] == "call" and x[1].endswith("Index<I>>::index") and len(x[2]) == 2:
                    dv = x[2][1]
                    if dv[0] == "agg" and dv[1].startswith(A + "Direction::"):
                        dname = dv[1].split("::")[-1]
                if x[0] == "call" and x[1].endswith("Not>::not"):
                    try:
                        edge = fold(x[2][0], {}, _calls({}))
                    except CannotFold as e:
                        edge = None
            is_and = v[0] == "call" and v[1].endswith("BitAnd>::bitand")
            # the ray must be indexed by the same square as the mask slot being built
            recv = tb.operand(t["args"][0])
            sqs = [x for x in walk(v) if x[0] == "field" and x[1][0] == "variant"] + [x for x in walk(recv) if x[0] == "field" and x[1][0] == "variant"]
            same_sq = len(set(sqs)) == 1
            if dname is None or edge is None or not is_and or not same_sq:
                ck.fail("M4.form", "%s@L%d" % (fn, t["line"]), b.where(t["line"]), "mask term %s is not `RAYS[<dir>][sq] & !<edge masks>` on the slot's own square" % show(v)[:200])
                continue
            pairs.append((dname, edge, t["line"]))
        ck.floor("M4", len(pairs), 4, "ray terms in " + fn)
        ds = sorted(dirs.get(d) for d, _, _ in pairs)
        ck.req(ds == sorted(gdirs), "M4.directions", fn, b.where(), "%s slide mask uses directions %s, geometry needs %s" % (piece, ds, sorted(gdirs)))
        for d, edge, line in pairs:
            df, dr = dirs.get(d, (0, 0))
            want = 0
            if df > 0:
                want |= G.file_mask(7)
            if df < 0:
                want |= G.file_mask(0)
            if dr > 0:
                want |= G.rank_mask(7)
            if dr < 0:
                want |= G.rank_mask(0)
            ck.req(edge == want, "M4.edge", "%s:%s" % (fn, d), b.where(line),
                   "ray %s is trimmed with mask %#x, but it runs into the edge(s) %#x" % (d, edge, want), "trimmed with %#x" % want)
        masks = []
        for s in range(64):
            m = 0
            for d, edge, line in pairs:
                df, dr = dirs.get(d, (0, 0))
                m |= G.ray_mask(s, df, dr) & ~edge
            masks.append(m & MASK64)
        bad = [G.name(s) for s in range(64) if masks[s] != G.relevance_mask(s, gdirs)]
        ck.req(not bad, "M4.mask", fn, b.where(), "%s relevance mask differs from geometry on %s" % (piece, bad[:6]), "64 squares")
        ctx[piece + "_masks"] = masks
        ck.sample({"rule": "M4", "piece": piece, "terms": [(d, hex(e)) for d, e, _ in pairs]})


def m5_m6_ray_cut(ck, ctx):
    prog = ck.prog
    dirs = ctx.get("dirs") or direction_table(ck)[0]
    for piece, fn, gdirs in (("rook", "compute_rook_attacks_unoptimized", G.ROOK_DIRS), ("bishop", "compute_bishop_attacks_unoptimized", G.BISHOP_DIRS)):
        b = ck.body(D + fn, "M5")
        paths = decision_table(prog, b)

        def dir_of(t):
            for x in walk(t):
                if x[0] == "agg" and x[1].startswith(A + "Direction::"):
                    return x[1].split("::")[-1]
            return None

        scans = {}   # direction -> scanner kind
        cuts = {}    # scanned direction -> cut direction
        added = set()
        bad_form = False
        for p in paths:
            last_scan = None
            for e in p.effects:
                if e[0] != "call":
                    continue
                n = e[1]
                if n.endswith("BitBoard::first_one") or n.endswith("BitBoard::last_one"):
                    d = dir_of(e[2][0])
                    # scanned set must be (ray of d at the square) & blockers
                    a = e[2][0]
                    uses_blockers = any(x == ("param", 2) for x in walk(a))
                    uses_square = any(x == ("param", 1) for x in walk(a))
                    if d is None or not uses_blockers or not uses_square:
                        bad_form = True
                    kind = n.split("::")[-1]
                    if d in scans and scans[d] != kind:
                        bad_form = True
                    scans[d] = kind
                    last_scan = (d, e[4])
                elif n.endswith("BitOrAssign>::bitor_assign"):
                    d = dir_of(e[2][1])
                    if d and any(x == ("param", 1) for x in walk(e[2][1])):
                        added.add(d)
                elif n.endswith("BitAndAssign>::bitand_assign"):
                    d = dir_of(e[2][1])
                    # the cut removes the ray of the same direction starting at the found blocker
                    from_bit = last_scan is not None and any(x[0] == "variant" and x[1] == last_scan[1] for x in walk(e[2][1]))
                    neg = e[2][1][0] == "call" and e[2][1][1].endswith("Not>::not")
                    if last_scan is None or not from_bit or not neg:
                        bad_form = True
                    else:
                        if last_scan[0] in cuts and cuts[last_scan[0]] != d:
                            bad_form = True
                        cuts[last_scan[0]] = d
                    # only cut on the Some edge of the scan
                    if last_scan is not None and not any(c == ("discr", last_scan[1]) and tk == 1 for c, tk in p.conds):
                        bad_form = True
        ck.req(not bad_form, "M5.form", fn, b.where(), "the slow attack computation is not `attacks |= ray; if let Some(bit) = (ray & blockers).first/last_one() { attacks &= !RAYS[d][bit] }` per direction")
        ds = sorted(dirs.get(d) for d in scans)
        ck.req(ds == sorted(gdirs) and sorted(dirs.get(d) for d in added) == sorted(gdirs), "M6.directions", fn, b.where(),
               "%s uses directions scan=%s add=%s, geometry needs %s" % (piece, sorted(scans), sorted(added), sorted(gdirs)))
        ck.floor("M5", len(scans), 4, "ray scans in " + fn)
        for d, kind in sorted(scans.items()):
            df, dr = dirs.get(d, (0, 0))
            delta = 8 * dr + df
            want = "first_one" if delta > 0 else "last_one"
            ck.req(kind == want, "M5.nearest", "%s:%s" % (fn, d), b.where(),
                   "direction %s (square index delta %+d) picks its blocker with %s; the nearest blocker is %s" % (d, delta, kind, want), want)
            ck.req(cuts.get(d) == d, "M5.cut", "%s:%s" % (fn, d), b.where(), "the ray scanned in direction %s is cut with the ray of direction %s" % (d, cuts.get(d)), "same direction")
    # first_one / last_one are lowest / highest set bit
    for nm, want in (("first_one", lambda x: (x & -x).bit_length() - 1), ("last_one", lambda x: x.bit_length() - 1)):
        fb = ck.body(BB + "::" + nm, "M5")

        def res(name):
            if name.endswith("::trailing_zeros"):
                return lambda x: 64 if x == 0 else (x & -x).bit_length() - 1
            if name.endswith("::leading_zeros"):
                return lambda x: 64 - x.bit_length()
            return None
        m = FnModel(prog, fb, inline_depth=1, calls=res)
        good = True
        try:
            for x in (0, 1, 2, 0x80, 0x8000000000000000, 0x8000000000000001, 0x00ff00, 0x1234567890abcdef):
                got = m(x)
                exp = None if x == 0 else ("Some", want(x))
                if got != exp:
                    good = False
        except CannotFold as e:
            good = False
        ck.req(good, "M5.scanner", nm, fb.where(), "BitBoard::%s is not the index of the %s set bit" % (nm, "lowest" if nm == "first_one" else "highest"))
    q = ck.body(A + "AttackGenerator::compute_queen_attacks", "M6")
    rt = return_term(prog, q)
    names = sorted(x[1].split("::")[-1] for x in walk(rt) if x[0] == "call" and x[2] == (("param", 1), ("param", 2))) if rt else []
    good = rt is not None and rt[0] == "call" and rt[1].endswith("BitOr>::bitor") and names == ["compute_bishop_attacks", "compute_rook_attacks"]
    ck.req(good, "M6.queen", "compute_queen_attacks", q.where(), "queen attacks are not rook(sq, occ) | bishop(sq, occ): %s" % (show(rt) if rt else "?"))


SQ = ("SQ",)


def _norm_square(t, sq_pred):
    if isinstance(t, tuple) and t and t[0] != "const" and sq_pred(t):
        return SQ
    if not isinstance(t, tuple) or not t or t[0] == "const":
        return t
    return tuple(_norm_square(x, sq_pred) if isinstance(x, tuple) else x for x in t)


def _replace_if(t, pred, fn):
    if isinstance(t, tuple) and t and t[0] != "const":
        r = pred(t)
        if r:
            return fn(t)
    if not isinstance(t, tuple) or not t or t[0] == "const":
        return t
    return tuple(_replace_if(x, pred, fn) if isinstance(x, tuple) else x for x in t)


def _static_of(t):
    """name of the lazy static a term `deref(const $static)` refers to"""
    for x in walk(t):
        if x[0] == "const":
            v = thaw(x[2])
            if isinstance(v, dict) and "$static" in v:
                return v["$static"]
    return None


def m3_reader_writer(ck, ctx):
    prog = ck.prog
    for piece, reader, writer, slow in (("rook", A + "AttackGenerator::compute_rook_attacks", D + "compute_rook_magic_table", D + "compute_rook_attacks_unoptimized"),
                                        ("bishop", A + "AttackGenerator::compute_bishop_attacks", D + "compute_bishop_magic_table", D + "compute_bishop_attacks_unoptimized")):
        rb = ck.body(reader, "M3")
        wb = ck.body(writer, "M3")
        rtb = TermBuilder(prog, rb)
        wtb = TermBuilder(prog, wb)
        # ---- reader: result = TABLE[sq][key as usize]
        rt = rtb.local(0)
        if not (rt[0] == "call" and rt[1].endswith("Index<I>>::index") and "Vec" in rt[1]):
            ck.fail("M3.reader", reader, rb.where(), "lookup result is not an element of a per-square Vec: %s" % show(rt)[:160])
            continue
        row, key = rt[2]
        if not (row[0] == "call" and row[1].endswith("Index<I>>::index") and row[2][1] == ("param", 1)):
            ck.fail("M3.reader", reader, rb.where(), "row is not TABLE[square]")
            continue
        rtable = _static_of(row[2][0])
        # occupancy enters only through `occupancy & MASKS[square]`
        masks_seen = []

        def is_masked_occ(x):
            if x[0] == "call" and x[1].endswith("BitAnd>::bitand") and ("param", 2) in x[2]:
                other = [y for y in x[2] if y != ("param", 2)]
                if other and other[0][0] == "call" and other[0][1].endswith("Index<I>>::index") and other[0][2][1] == ("param", 1):
                    masks_seen.append(_static_of(other[0][2][0]))
                    return True
            return False
        rkey = _replace_if(key, is_masked_occ, lambda x: ("X",))
        rkey = _norm_square(rkey, lambda x: x == ("param", 1))
        raw_occ = any(x == ("param", 2) for x in walk(rkey))
        ck.req(len(set(masks_seen)) == 1 and not raw_occ, "M3.masked", reader, rb.where(),
               "the occupancy reaches the index other than through `occupancy & MASKS[square]` (masks: %s, raw use: %s)" % (masks_seen, raw_occ))
        ctx[piece + "_reader_key"] = key
        ctx[piece + "_reader_tables"] = {"table": rtable, "mask": masks_seen[0] if masks_seen else None}
        # ---- writer: store TABLE[sq][idx as usize] = slow(sq, blockers)
        stores = []
        for bb, blk in enumerate(wb.blocks):
            for s in blk["stmts"]:
                if s["k"] == "assign" and s["place"]["p"] == ["*"]:
                    stores.append((bb, s))
        if len(stores) != 1:
            ck.fail("M3.writer", writer, wb.where(), "expected exactly one table store in the fill loop, found %d" % len(stores))
            continue
        bb, s = stores[0]
        dest = wtb.local(s["place"]["l"])
        val = wtb.operand(s["rv"]["use"]) if "use" in s["rv"] else None
        if not (dest[0] == "call" and dest[1].endswith("IndexMut<I>>::index_mut") and val is not None):
            ck.fail("M3.writer", writer, wb.where(s["line"]), "store target is not table[sq][idx]")
            continue
        wrow, widx = dest[2]

        def is_sq_elem(x):
            return x[0] == "field" and x[1][0] == "variant" and x[1][1][0] == "call" and is_iter_next(x[1][1][1]) and "slice::iter::Iter" in x[1][1][1]
        blockers_terms = []

        def is_blockers(x):
            if x[0] == "call" and x[1] == D + "compute_blockers_from_index":
                blockers_terms.append(x)
                return True
            return False
        widx_n = _replace_if(widx, is_blockers, lambda x: ("X",))
        widx_n = _norm_square(widx_n, is_sq_elem)
        ck.req(widx_n == rkey, "M3.same_index", piece, wb.where(s["line"]),
               "table fill computes its slot as %s but the lookup as %s" % (show(widx_n)[:300], show(rkey)[:300]), show(rkey)[:200])
        ck.sample({"rule": "M3", "piece": piece, "index_term": show(rkey)})
        # row of the same square
        good_row = wrow[0] == "call" and wrow[1].endswith("IndexMut<I>>::index_mut") and is_sq_elem(wrow[2][1])
        ck.req(good_row, "M3.row", piece, wb.where(s["line"]), "the fill does not store into table[square]")
        # blockers = compute_blockers_from_index(b, MASKS[sq]) with b the element of 0..(1 << W[sq])
        okb = len(set(blockers_terms)) == 1
        wmask = None
        width_term = None
        if okb:
            bt = blockers_terms[0]
            bidx, bmask = bt[2]
            wmask = _static_of(bmask)
            okb = bmask[0] == "call" and bmask[1].endswith("Index<I>>::index") and is_sq_elem(bmask[2][1])
            # b comes from a Range iterator
            okb = okb and bidx[0] == "field" and bidx[1][0] == "variant" and bidx[1][1][0] == "call" and is_iter_next(bidx[1][1][1]) and "Range" in bidx[1][1][1]
            if okb:
                rng = [x for x in walk(bidx) if x[0] == "agg" and x[1].endswith("ops::range::Range::Range")]
                okb = len(rng) >= 1 and const_value(rng[0][2][0]) == 0
                if okb:
                    end = rng[0][2][1]
                    okb = end[0] == "bin" and end[1] == "Shl" and const_value(end[2]) == 1
                    width_term = _norm_square(end[3], is_sq_elem) if okb else None
        ck.req(okb, "M3.enumeration", piece, wb.where(),
               "the fill loop is not `for b in 0..(1 << WIDTH[sq]) { blockers = compute_blockers_from_index(b, MASKS[sq]) ... }`: it cannot be shown that every "
               "subset of the mask is filled")
        ck.req(wmask == (masks_seen[0] if masks_seen else None), "M3.same_mask", piece, wb.where(), "fill enumerates subsets of %s but the lookup masks with %s" % (wmask, masks_seen))
        # width term in the loop bound == width term in the index
        rwidth = [x for x in walk(rkey) if x[0] == "bin" and x[1] == "Sub"]
        good_w = width_term is not None and any(width_term in (y[2], y[3]) for y in rwidth)
        ck.req(good_w, "M3.same_width", piece, wb.where(), "the loop bound's width term %s is not the one used in the index shift" % (show(width_term) if width_term else "?"))
        # stored value = slow(sq, blockers) of the same blockers
        good_v = val[0] == "call" and val[1] == slow and is_sq_elem(val[2][0]) and blockers_terms and val[2][1] == blockers_terms[0]
        ck.req(good_v, "M3.value", piece, wb.where(s["line"]), "the stored value is not %s(square, blockers) of the same square and blockers: %s" % (slow.split("::")[-1], show(val)[:200]))
        # outer loop over Square::ALL, store inside both loops
        sq_src = [x for x in walk(wrow) if x[0] == "const" and x[1] == "weechess_core::board::Square::ALL"]
        ck.req(bool(sq_src), "M3.all_squares", piece, wb.where(), "the fill does not iterate Square::ALL")
        # lazy statics are initialised by the functions analysed here
        for static, init in ((rtable, writer), (masks_seen[0] if masks_seen else None, D + ("compute_%s_slide_masks" % piece))):
            ib = prog.body("<%s as core::ops::deref::Deref>::deref::__static_ref_initialize" % static) if static else None
            rti = return_term(prog, ib) if ib else None
            ck.req(rti is not None and rti[0] == "call" and rti[1] == init, "M3.static_init", str(static), "", "%s is not initialised by %s" % (static, init))
        # row length
        rows = []
        for cn in prog.closures_of(writer):
            cb = prog.body(cn)
            for bb2, t2 in live_calls(cb):
                if callee_name(t2).endswith("vec::from_elem"):
                    ctb = TermBuilder(prog, cb)
                    rows.append(const_value(ctb.operand(t2["args"][1])))
        ck.req(len(rows) == 1 and isinstance(rows[0], int), "M3.row_length", piece, wb.where(), "cannot determine the allocated row length (%s)" % rows)
        ctx[piece + "_row_len"] = rows[0] if rows else 0


def magic_literals(ck, static):
    prog = ck.prog
    ib = ck.body("<%s as core::ops::deref::Deref>::deref::__static_ref_initialize" % static, "M1")
    rt = return_term(prog, ib)
    arr = None
    if rt is not None:
        for x in walk(rt):
            if x[0] == "agg" and x[1] == "array":
                arr = x
    if arr is None:
        ck.fail("M1.literals", static, ib.where(), "initializer is not an array of literals")
        return None
    vals = []
    for e in arr[2]:
        v = None
        if e[0] == "call" and (e[1].endswith("From<u64>>::from") or e[1].endswith("BitBoard::new")):
            v = const_value(e[2][0])
        elif e[0] == "const":
            v = const_value(e)
        vals.append(v)
    if any(v is None for v in vals):
        ck.fail("M1.literals", static, ib.where(), "some magic numbers are not literals")
        return None
    return vals


def m1_m2_literals(ck, ctx):
    prog = ck.prog
    total = 0
    for piece, gdirs, magics_static in (("rook", G.ROOK_DIRS, D + "ROOK_MAGICS"), ("bishop", G.BISHOP_DIRS, D + "BISHOP_MAGICS")):
        key = ctx.get(piece + "_reader_key")
        tabs = ctx.get(piece + "_reader_tables")
        masks = ctx.get(piece + "_masks")
        if key is None or masks is None:
            ck.fail("M1", piece, "", "index term or masks unavailable (see M3/M4 failures)")
            continue
        magics = magic_literals(ck, magics_static)
        if magics is None:
            continue
        ck.floor("M1", len(magics), 64, piece + " magic literals")
        row_len = ctx.get(piece + "_row_len", 0)
        tables = {tabs["mask"]: masks, magics_static: magics, tabs["table"]: (lambda s: ("row", tabs["table"], s))}
        calls = _calls(tables)
        # widths: the constant table used in the index term
        width_const = None
        for x in walk(key):
            if x[0] == "bin" and x[1] == "Sub":
                for y in walk(x):
                    if y[0] == "const":
                        v = thaw(y[2])
                        if isinstance(v, dict) and "$ref" in v:
                            v = v["$ref"]
                        if isinstance(v, dict) and "array" in v and len(v["array"]) == 64:
                            width_const = [scalar(z) for z in v["array"]]
        if width_const is None:
            ck.fail("M2", piece, "", "cannot find the 64-entry width table in the index term")
            continue
        named = ck.const(D + ("ROOK_MAGIC_INDEXES" if piece == "rook" else "BISHOP_MAGIC_INDEXES"), "M2")["array"]
        ck.req([scalar(z) for z in named] == width_const, "M2.table", piece, "", "the width table in the index term is not the named *_MAGIC_INDEXES constant")
        collisions = []
        out_of_range = []
        narrow = []
        noise_sensitive = []
        evals = 0
        try:
            for s in range(64):
                mask = masks[s]
                w = width_const[s]
                if w < G.popcount(mask):
                    narrow.append((G.name(s), w, G.popcount(mask)))
                if (1 << w) > row_len:
                    out_of_range.append((G.name(s), "2^%d > row %d" % (w, row_len)))
                slots = {}
                noise = (~mask) & MASK64 & 0xA5A5A5A5A5A5A5A5
                for sub in G.subsets(mask):
                    evals += 1
                    i = fold(key, {1: s, 2: sub}, calls)
                    if i >= (1 << w) or i >= row_len or i < 0:
                        out_of_range.append((G.name(s), hex(sub), i))
                        break
                    att = G.slide_attacks(s, sub, gdirs)
                    if i in slots and slots[i] != att:
                        collisions.append((G.name(s), hex(sub), i))
                        break
                    slots[i] = att
                # off-ray occupancy must not matter
                for sub in (0, mask):
                    if fold(key, {1: s, 2: sub | noise}, calls) != fold(key, {1: s, 2: sub}, calls):
                        noise_sensitive.append(G.name(s))
        except CannotFold as e:
            ck.fail("M1.fold", piece, "", "cannot fold the lookup's index term: %s" % e)
            continue
        total += evals
        ck.req(not collisions, "M1.perfect_hash", piece, "", "destructive collisions of the magic hash (square, subset, slot): %s" % collisions[:4],
               "%d (square, subset) pairs, only constructive collisions" % evals)
        ck.req(not out_of_range, "M2.range", piece, "", "slot index outside the filled/allocated range: %s" % out_of_range[:4], "all slots < 2^width <= %d" % row_len)
        ck.req(not narrow, "M2.width", piece, "", "index width smaller than the number of relevant squares (square, width, popcount): %s" % narrow[:6],
               "width >= popcount(mask) on 64 squares")
        ck.req(not noise_sensitive, "M1.off_ray", piece, "", "occupancy off the rays changes the slot on %s" % noise_sensitive[:6])
        ck.sample({"rule": "M1", "piece": piece, "first_magic": hex(magics[0]), "widths_a1_d4": [width_const[0], width_const[27]], "subsets_folded": evals})
    ck.extra["magic_slot_evaluations"] = total
    ck.extra["exhaustive"] = True


def leaper_tables(ck, ctx):
    prog = ck.prog
    for nm, fn, const_name, want in (("knight", "compute_knight_attacks", D + "compute_knight_attacks::OFFSETS", G.KNIGHT_OFFSETS),
                                     ("king", "compute_king_attacks", D + "compute_king_attacks::OFFSETS", G.KING_OFFSETS)):
        c = ck.const(const_name, "M7")
        got = {(o["file"], o["rank"]) for o in c}
        ck.req(got == want and len(c) == len(want), "M7.offsets", nm, "", "%s offsets %s differ from geometry %s" % (nm, sorted(got), sorted(want)), "%d offsets" % len(c))
        b = ck.body(D + fn, "M7")
        tb = TermBuilder(prog, b)
        sets = live_calls(b, names=(BB + "::set",))
        good = len(sets) == 1
        if good:
            a = [tb.operand(x) for x in sets[0][1]["args"]]
            offs = [x for x in walk(a[1]) if x[0] == "call" and x[1].endswith("Square::offset")]
            def same_table(y):
                if y[0] != "const":
                    return False
                if y[1] == const_name:
                    return True
                v = thaw(y[2])
                if isinstance(v, dict) and "$ref" in v:
                    v = v["$ref"]
                return isinstance(v, list) and [(o.get("file"), o.get("rank")) for o in v if isinstance(o, dict)] == [(o["file"], o["rank"]) for o in c]
            good = len(offs) >= 1 and any(same_table(y) for y in walk(offs[0][2][1])) and const_value(a[2]) is True
            # receiver arr[sq] and offset(sq, ..) use the same square
            if good:
                sq_in_recv = [x for x in walk(a[0]) if x[0] == "field" and x[1][0] == "variant" and x[1][1][0] == "call"
                              and any(y[0] == "const" and y[1] == "weechess_core::board::Square::ALL" for y in walk(x))]
                good = bool(sq_in_recv) and offs[0][2][0] in sq_in_recv
        ck.req(good, "M7.fill", nm, b.where(), "%s table fill is not `arr[sq].set(sq.offset(o), true)` for o in OFFSETS" % nm)
        rd = ck.body(A + "AttackGenerator::" + fn, "M7")
        rt = return_term(prog, rd)
        st = _static_of(rt) if rt else None
        ib = prog.body("<%s as core::ops::deref::Deref>::deref::__static_ref_initialize" % st) if st else None
        rti = return_term(prog, ib) if ib else None
        good = rt is not None and rt[0] == "call" and rt[1].endswith("Index<I>>::index") and rt[2][1] == ("param", 1) and rti is not None and rti[0] == "call" and rti[1] == D + fn
        ck.req(good, "M7.reader", nm, rd.where(), "%s lookup is not TABLE[square] of the table filled by data::%s" % (nm, fn))
    # pawns
    b = ck.body(D + "compute_pawn_attacks", "M7")
    tb = TermBuilder(prog, b)
    got = {}
    for bb, t in live_calls(b, names=(BB + "::set",)):
        a = [tb.operand(x) for x in t["args"]]
        color = None
        for x in walk(a[0]):
            if x[0] == "agg" and x[1].startswith("weechess_core::color::Color::"):
                color = x[1].split("::")[-1]
        offs = [offset_of(x[2][1]) for x in walk(a[1]) if x[0] == "call" and x[1].endswith("Square::offset")]
        sq_ok = any(x[0] == "call" and x[1].endswith("Square::offset") and x[2][0] in list(walk(a[0])) for x in walk(a[1]))
        if color and offs and offs[0] and sq_ok and const_value(a[2]) is True:
            got.setdefault(color, set()).add(offs[0])
        else:
            ck.fail("M7.pawn_fill", "L%d" % t["line"], b.where(t["line"]), "pawn table fill is not `arr[color][sq].set(sq.offset(<const>), true)`")
    want = {"White": {(-1, 1), (1, 1)}, "Black": {(-1, -1), (1, -1)}}
    ck.req(got == want, "M7.pawn_offsets", "pawn", b.where(), "pawn capture offsets %s differ from geometry %s" % (got, want), str(want))
    ck.floor("M7", sum(len(v) for v in got.values()), 4, "pawn attack offsets")
    # consistent with Color::forward
    fw = ck.body("weechess_core::color::Color::forward", "M7")
    fwd = {}
    cadt = ck.adt("weechess_core::color::Color", "M7")
    cn = {v["discr"]: v["name"] for v in cadt["variants"]}
    for p in decision_table(prog, fw):
        if len(p.conds) == 1 and not isinstance(p.conds[0][1], tuple):
            fwd[cn[p.conds[0][1]]] = offset_of(p.ret)
    for c, offs in got.items():
        f = fwd.get(c)
        ck.req(f is not None and all(o[1] == f[1] for o in offs), "M7.pawn_forward", c, fw.where(), "%s pawns attack rank direction %s but move forward %s" % (c, sorted(offs), f))
    rd = ck.body(A + "AttackGenerator::compute_pawn_attacks", "M7")
    rt = return_term(prog, rd)
    good = rt is not None and rt[0] == "call" and rt[1].endswith("Index<I>>::index") and rt[2][1] == ("param", 1) and rt[2][0][0] == "call" and rt[2][0][2][1] == ("param", 2)
    ck.req(good, "M7.reader", "pawn", rd.where(), "pawn lookup is not PAWN_ATTACKS[color][square]: %s" % (show(rt) if rt else "?"))
    # rays: RAYS[d][sq] = compute_ray(sq, d) with offsets from Direction::into
    cr = ck.body(D + "compute_rays", "M7")
    tbr = TermBuilder(prog, cr)
    st = [(bb, s) for bb, blk in enumerate(cr.blocks) for s in blk["stmts"] if s["k"] == "assign" and s["place"]["p"] == ["*"]]
    good = len(st) == 1
    if good:
        dest = tbr.local(st[0][1]["place"]["l"])
        val = tbr.operand(st[0][1]["rv"]["use"]) if "use" in st[0][1]["rv"] else None
        good = val is not None and val[0] == "call" and val[1] == D + "compute_ray" and dest[0] == "call" and dest[1].endswith("index_mut")
        if good:
            sqt, dt = val[2]
            good = dest[2][1] == sqt and dest[2][0][0] == "call" and dest[2][0][2][1] == dt
    ck.req(good, "M7.rays", "compute_rays", cr.where(), "compute_rays does not store compute_ray(sq, d) at RAYS[d][sq]")
    ray = ck.body(D + "compute_ray", "M7")
    rtb = TermBuilder(prog, ray)
    offc = live_calls(ray, names=("weechess_core::board::Square::offset",))
    good = len(offc) == 1
    if good:
        a = [rtb.operand(x) for x in offc[0][1]["args"]]
        conv = _dir_offset_fn(prog)
        # direction.into(): the impl itself, or core's blanket Into over a workspace `impl From<Direction> for Offset`
        by_blanket = conv.endswith("for weechess_core::board::Offset>::from") and a[1] == ("call", "<T as core::convert::Into<U>>::into", (("param", 2),))
        good = (a[1] == ("call", conv, (("param", 2),)) or by_blanket) and cfg.in_cycle(ray, offc[0][0])
    ck.req(good, "M7.ray_walk", "compute_ray", ray.where(), "compute_ray does not repeatedly step by direction.into()")



def m9_lookups_are_pure(ck):
    """An attack lookup is a function of (piece, square, occupancy): the dispatch and the per-kind lookups keep no memory between calls
    (a per-thread cache keyed by less than all three answers a later query with an earlier one's set)."""
    from .common import no_hidden_state
    roots = [n for n in ck.prog.bodies if n.startswith(A + "AttackGenerator::compute")]
    n = no_hidden_state(ck, roots, "M9", "the attack lookup")
    ck.floor("M9", n, 5, "workspace functions reachable from the AttackGenerator lookups")
