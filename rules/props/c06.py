"""C06 - Mate claims are true and shallow forced mates are found: the negamax / alpha-beta / table-bound discipline (R1-R12).

The truth of a reported mate score is a statement about the game-theoretic value and is NOT decided here.  What is decided
is the discipline every correct fail-hard negamax with a bound-typed transposition table has to follow, each clause being a
necessary condition of "mate score <=> forced mate": child values negated with the swapped negated window, cut-offs return
beta and store a lower bound, alpha is only raised by a better child value, the final entry has the kind that matches how
alpha was obtained, a node without a searched child is scored by the evaluator for the side to move at the node's ply, a
stored entry is only used at sufficient remaining depth and according to its kind, the root window is the full mate window,
worker results are merged by max, deepening stops only at a mate score; stand-pat and capture-only discipline in quiescence."""
from facts import callee_name
from terms import TermBuilder, show, walk, const_value
import cfg
from .common import live_calls, guards_of, is_iter_next
from .c01 import is_call

LEVEL = "other"
S = "weechess_engine::searcher::"
REC = S + "Searcher::analyze_recursive"
QS = S + "Searcher::quiescence_search"
ITER = S + "Searcher::analyze_iterative"
EV = "weechess_engine::eval::"
NEG = "<weechess_engine::eval::Evaluation as core::ops::arith::Neg>::neg"
EVALUATE = EV + "Evaluator::evaluate"
TURN = "weechess_core::state::State::turn_to_move"
FIND = S + "TranspositionTableAccess::find"
INSERT = S + "TranspositionTableAccess::insert"


def run(ck):
    ck.explanation = (
        "R1: every recursive call of analyze_recursive / quiescence_search receives (-beta, -alpha) in its (alpha, beta) positions and its result is used "
        "only negated. R2: plies: the child is searched at current_depth + 1 (+ extension, which is added to max_depth alike), quiescence at depth + 1. R3: "
        "`child >= beta` returns beta (fail hard) and, in the main search, stores a LowerBound entry with the cutting move, the node's depths and value beta. "
        "R4: alpha is only ever the caller's alpha, max(alpha, LowerBound entry), a child value under `not >= beta and > alpha`, or (quiescence) the stand-pat "
        "under `alpha < stand-pat`; beta only the caller's beta or min(beta, UpperBound entry). R5: the final entry stores (kind, best move, depths, alpha) with "
        "kind = UpperBound unless alpha was raised by a child (Exact), and alpha is returned. R6: a node none of whose moves was searched is scored by "
        "evaluate(state, side to move of state, ply of the node). R7: a probed entry is used only under entry.max_depth - entry.depth >= max_depth - current_depth; "
        "Exact returns its value, the bounds narrow the window, and `alpha >= beta` returns the entry's value. R8: the root call uses depth 0 and the window "
        "(-mate_in_ply(0), +mate_in_ply(0)). R9: worker values are merged by max. R10: deepening stops early only on `best_eval >= POS_INF` (or an empty line / "
        "interrupt). R11: quiescence returns the stand-pat of a quiet position, fails hard on stand-pat >= beta, and searches captures only. R12: `-` on "
        "Evaluation negates the numeric value and comparisons are the derived ones. NOT decided: the game-theoretic claim itself.")
    ck.trusted = ["rustc front end and MIR construction", "extractor decoding", "C05 (terminal scores), C15 (table faithfulness), C08 (keys), C03 (legal moves only)"]
    ck.not_decided = ["that a reported mate score implies a forced mate and that forced mates within the depth are found (game-theoretic value over all positions, "
                      "depths, seeds and schedules): needs an exact oracle", "soundness of check extensions and of merging workers with different depths"]
    ck.run_rule(r_negamax, REC)
    ck.run_rule(r_negamax, QS)
    ck.run_rule(r7_table_use)
    ck.run_rule(r8_r10_driver)
    ck.run_rule(r12_value_algebra)
    ck.run_rule(r13_full_width)
    ck.run_rule(r13b_every_move_searched)
    # a table entry answers for exactly the position it was stored for: the hash separates positions (C08's H rules)
    from .c08 import h1_h2_h5_influence, h4_keys
    ck.run_rule(h1_h2_h5_influence)
    ck.run_rule(h4_keys)
    from .c05 import v3_mate_score as v3_mate_scores
    ck.run_rule(v3_mate_scores)
    # a reported mate is true only if the evaluator says "mate" for mated positions alone: its terminal test (C05's V1, V2, V4)
    from .c05 import v1_bypass, v2_terminal_values, v4_no_mate_score_outside_the_terminal_test
    ck.run_rule(v1_bypass)
    ck.run_rule(v2_terminal_values)
    ck.run_rule(v4_no_mate_score_outside_the_terminal_test)
    # the move-less test of R6 compares the node counter before and after the move loop: it is only sound if every visited
    # node counts itself before anything can return (C04's X3 placement rule); and the reported first move is the root entry's
    # move, replayed exactly as stored (C03's line-walk rules)
    from .c04 import x3_poll_placement
    from .c03 import s2_s5_line_walk
    ck.run_rule(x3_poll_placement)
    ck.run_rule(s2_s5_line_walk)
    # the tree the search walks is made of successor positions: a reply that the successor function loses (an en passant target never
    # set) turns an escapable check into a reported mate (C02's U rules)
    from . import c02 as _c02
    _ctx = {}
    for _r in (_c02.collect_sets, _c02.u0_u4_piece_updates, _c02.u1_rook_relocation, _c02.u2_rights, _c02.u3_u5_state_fields):
        ck.run_rule(_r, _ctx)


def _params(b):
    ev = [i for i in range(1, b.arg_count + 1) if b.local_ty(i).endswith("eval::Evaluation")]
    return ev


def _neg(t):
    return t[2][0] if t[0] == "call" and t[1] == NEG else None


def _cmp(c, op):
    """c is `a op b` as PartialOrd call or primitive: returns (a, b) or None"""
    if c[0] == "call" and c[1] == "core::cmp::PartialOrd::" + op and len(c[2]) == 2:
        return c[2]
    if c[0] == "bin" and c[1].lower() == op:
        return c[2], c[3]
    return None


def r_negamax(ck, fn):
    prog = ck.prog
    b = ck.body(fn, "R1")
    tb = TermBuilder(prog, b)
    short = fn.split("::")[-1]
    ev = _params(b)
    if len(ev) != 2:
        ck.missing("R1", "exactly two Evaluation parameters (alpha, beta) of %s" % short)
        return
    pa, pb = ev
    # the mutable copies
    def copies(p):
        out = set()
        for l in range(b.arg_count + 1, len(b.locals)):
            for d in tb.d.defs.get(l, []):
                if d[0] == "assign" and "use" in d[3]:
                    q = d[3]["use"].get("copy") or d[3]["use"].get("move")
                    if q is not None and not q["p"] and q["l"] == p and len(tb.d.defs.get(l, [])) > 1:
                        out.add(l)
        return out
    av, bv = copies(pa), copies(pb)

    def is_alpha(t):
        return t == ("param", pa) or (t[0] == "var" and t[1] in av)

    def is_beta(t):
        return t == ("param", pb) or (t[0] == "var" and t[1] in bv)
    depth_ps = [i for i in range(1, b.arg_count + 1) if b.local_ty(i) == "usize"]
    # ---- R1 / R2 recursive calls
    recs = live_calls(b, names=(fn,))
    ck.floor("R1", len(recs), 1, "recursive calls in %s" % short)
    child_vals = []
    for bb, t in recs:
        a = [tb.operand(x) for x in t["args"]]
        na, nb = _neg(a[pa - 1]), _neg(a[pb - 1])
        ck.req(na is not None and is_beta(na), "R1.window", "%s.alpha" % short, b.where(t["line"]),
               "the child is searched with alpha = %s, not -beta" % show(a[pa - 1])[:80])
        ck.req(nb is not None and is_alpha(nb), "R1.window", "%s.beta" % short, b.where(t["line"]),
               "the child is searched with beta = %s, not -alpha" % show(a[pb - 1])[:80])
        # plies
        if fn == REC:
            names = {b.local_name(i): i for i in range(1, b.arg_count + 1)}
            md, cd = names.get("max_depth"), names.get("current_depth")
            if md is None or cd is None:
                ck.missing("R2", "parameters max_depth/current_depth of analyze_recursive")
            else:
                tm, tc = a[md - 1], a[cd - 1]
                ext_m = [x for x in walk(tm) if x != ("param", md) and x[0] in ("var", "call")]
                good_m = tm == ("param", md) or (tm[0] == "bin" and tm[1] == "Add" and ("param", md) in (tm[2], tm[3]))
                # child depth = current + 1 (+ the same extension)
                flat = []

                def addends(x):
                    if x[0] == "bin" and x[1] == "Add":
                        addends(x[2])
                        addends(x[3])
                    else:
                        flat.append(x)
                addends(tc)
                others_c = [x for x in flat if x != ("param", cd) and const_value(x) != 1]
                flatm = []
                flat, keep = flatm, flat
                addends(tm)
                flat = keep
                others_m = [x for x in flatm if x != ("param", md)]
                good_c = ("param", cd) in flat and any(const_value(x) == 1 for x in flat) and sorted(map(show, others_c)) == sorted(map(show, others_m))
                ck.req(good_m and good_c, "R2.plies", short, b.where(t["line"]),
                       "the child is not searched at (max_depth + e, current_depth + 1 + e) with one and the same extension e: (%s, %s)" % (show(tm)[:60], show(tc)[:60]))
        else:
            dp = depth_ps[0] if depth_ps else None
            td = a[dp - 1] if dp else None
            good = td is not None and td[0] == "bin" and td[1] == "Add" and ("param", dp) in (td[2], td[3]) and 1 in (const_value(td[2]), const_value(td[3]))
            ck.req(good, "R2.plies", short, b.where(t["line"]), "quiescence does not search the child at depth + 1")
        # where the result goes: a local defined as Neg(<?-payload of the call>)
        for l in range(b.arg_count + 1, len(b.locals)):
            for d in tb.d.defs.get(l, []):
                v = tb.call_term(d[2]) if d[0] == "call" else tb.rvalue(d[3])
                inner = _neg(v)
                if inner is not None and any(x[0] == "call" and x[1] == fn for x in walk(inner)) and len(tb.d.defs.get(l, [])) == 1:
                    child_vals.append(l)
        # the raw result is not used un-negated: every term that contains the call and is compared/returned contains the Neg around it
    child_vals = sorted(set(child_vals))
    ck.req(len(child_vals) >= 1, "R1.negated", short, b.where(), "the value of the recursive call is not negated before use")

    def is_child(t):
        if t[0] == "var" and t[1] in child_vals:
            return True
        inner = _neg(t)
        return inner is not None and any(x[0] == "call" and x[1] == fn for x in walk(inner))
    # raw (un-negated) uses
    raw = 0
    for bb, blk in enumerate(b.blocks):
        if blk.get("cleanup"):
            continue
        t = blk["term"]
        if t["k"] == "switch":
            c = tb.operand(t["discr"])
            for op in ("ge", "gt", "le", "lt"):
                ab = _cmp(c, op)
                if ab:
                    for side in ab:
                        if any(x[0] == "call" and x[1] == fn for x in walk(side)) and not is_child(side) and _neg(side) is None:
                            raw += 1
    ck.req(raw == 0, "R1.negated", "%s.compare" % short, b.where(), "a child value is compared without having been negated")
    # ---- returns
    rets = []
    for bb, blk in enumerate(b.blocks):
        if blk.get("cleanup"):
            continue
        for s in blk["stmts"]:
            if s["k"] == "assign" and s["place"] == {"l": 0, "p": []} and "agg" in s["rv"] and s["rv"]["agg"].get("variant") == "Ok":
                v0 = tb.operand(s["rv"]["ops"][0])
                if v0[0] == "var" and v0[1] not in av and v0[1] not in bv:
                    # `let evaluation = if .. { a } else { b }; return Ok(evaluation)`: each alternative, located where it is chosen
                    alts = [(d[1], d) for d in tb.d.defs.get(v0[1], [])]
                    if len(alts) > 1:
                        for dbb, d in alts:
                            dv = tb.call_term(d[2]) if d[0] == "call" else tb.rvalue(d[3])
                            rets.append((dbb, (d[2].get("line") if d[0] == "call" else d[3].get("line")) or s.get("line"), dv, guards_of(prog, b, dbb, tb)))
                        continue
                rets.append((bb, s.get("line"), v0, guards_of(prog, b, bb, tb)))
    ck.floor("R3", len(rets), 3, "Ok returns of %s" % short)
    # R3: cut-off
    cuts = 0
    for bb, line, v, g in rets:
        ge_child = [ab for c, tk in g for ab in [_cmp(c, "ge")] if ab and tk is True and is_child(ab[0]) and is_beta(ab[1])]
        if ge_child:
            cuts += 1
            ck.req(is_beta(v), "R3.fail_hard", short, b.where(line), "on `child >= beta` the node returns %s, not beta" % show(v)[:60])
        elif is_beta(v):
            # quiescence: stand-pat cut-off
            sp = [ab for c, tk in g for ab in [_cmp(c, "ge")] if ab and tk is True and is_call(ab[0], EVALUATE) and is_beta(ab[1])]
            ck.req(bool(sp) and fn == QS, "R3.beta_only_on_cutoff", short, b.where(line), "beta is returned without a `value >= beta` test on this path")
    ck.req(cuts >= 1, "R3.cutoff_present", short, b.where(), "no `child >= beta` cut-off returning beta")
    # ---- R4 alpha / beta definitions
    kinds = {v["name"]: v["discr"] for v in (prog.adt(S + "EvaluationKind") or {"variants": []})["variants"]}
    for l in sorted(av):
        for d in tb.d.defs.get(l, []):
            v = tb.call_term(d[2]) if d[0] == "call" else tb.rvalue(d[3])
            g = guards_of(prog, b, d[1], tb)
            ok = False
            why = show(v)[:80]
            if v == ("param", pa):
                ok = True
            elif is_call(v, "core::cmp::Ord::max") and any(is_alpha(x) for x in v[2]) and any(x[0] == "field" and x[2] == "evaluation" and any(is_call(y, FIND) for y in walk(x)) for x in v[2]):
                ok = any(c[0] == "discr" and tk == kinds.get("LowerBound") and any(is_call(y, FIND) for y in walk(c)) for c, tk in g)
                why = "max(alpha, entry) not under kind == LowerBound"
            elif is_child(v):
                notcut = any(tk is False and (_cmp(c, "ge") or (None,))[0] is not None and is_child(_cmp(c, "ge")[0]) and is_beta(_cmp(c, "ge")[1]) for c, tk in g if _cmp(c, "ge"))
                better = any(tk is True and _cmp(c, "gt") and is_child(_cmp(c, "gt")[0]) and is_alpha(_cmp(c, "gt")[1]) for c, tk in g)
                ok = notcut and better
                why = "child value assigned to alpha without `not (child >= beta) and child > alpha`"
            elif is_call(v, EVALUATE) and fn == QS:
                ok = any(tk is True and _cmp(c, "lt") and is_alpha(_cmp(c, "lt")[0]) and is_call(_cmp(c, "lt")[1], EVALUATE) for c, tk in g) or \
                    any(tk is True and _cmp(c, "gt") and is_call(_cmp(c, "gt")[0], EVALUATE) and is_alpha(_cmp(c, "gt")[1]) for c, tk in g)
                why = "stand-pat assigned to alpha without `alpha < stand-pat`"
            ck.req(ok, "R4.alpha", "%s@bb%d" % (short, d[1]), b.where(), "alpha is set to something that is not a proven lower bound of the node: %s" % why)
    for l in sorted(bv):
        for d in tb.d.defs.get(l, []):
            v = tb.call_term(d[2]) if d[0] == "call" else tb.rvalue(d[3])
            g = guards_of(prog, b, d[1], tb)
            ok = v == ("param", pb)
            if not ok and is_call(v, "core::cmp::Ord::min") and any(is_beta(x) for x in v[2]) and any(x[0] == "field" and x[2] == "evaluation" for x in v[2]):
                ok = any(c[0] == "discr" and tk == kinds.get("UpperBound") and any(is_call(y, FIND) for y in walk(c)) for c, tk in g)
            ck.req(ok, "R4.beta", "%s@bb%d" % (short, d[1]), b.where(), "beta is set to %s, not the caller's beta or min(beta, UpperBound entry)" % show(v)[:80])
    ck.req(bool(av), "R4.alpha_tracked", short, b.where(), "no local carries the running alpha (a copy of the parameter that is raised by better children)")
    # ---- R5 final value
    finals = [(bb, line, v, g) for bb, line, v, g in rets if is_alpha(v)]
    ck.req(len(finals) >= 1, "R5.returns_alpha", short, b.where(), "the node does not return alpha after its moves were searched")
    # ---- R6 terminal scoring
    terms_ = [(bb, line, v) for bb, line, v, g in rets if is_call(v, EVALUATE)]
    # the same scoring written out in the search: the side to move is mated (in check) -> -mate_in_ply(ply of the node), else draw
    MATE_ = EV + "Evaluation::mate_in_ply"
    inline_mates = [(bb, line, v, g) for bb, line, v, g in rets if any(is_call(x, MATE_) for x in walk(v))]
    for bb, line, v, g in inline_mates:
        names_ = {b.local_name(i): i for i in range(1, b.arg_count + 1)}
        inner = _neg(v)
        ply_ok = inner is not None and is_call(inner, MATE_) and (inner[2][0] == ("param", names_.get("current_depth")) or fn == QS)
        in_check = any(tk is True and is_call(c, "weechess_core::state::State::is_check") for c, tk in g)
        ck.req(ply_ok and in_check, "R6.terminal_score", "%s@bb%d" % (short, bb), b.where(line),
               "a mate score returned by the search itself is not `-mate_in_ply(ply of this node)` under `in check` (the side to move is the mated one): %s" % show(v)[:100])
    # ---- R14: no fixed score without a search. A constant returned by the node (the draw score) stands for a position whose value is known
    # without looking at its moves: that is the case for a position already on the line of play (the history lookup) and for nothing else -
    # a move-count or material shortcut placed before the moves are generated also covers positions where the side to move is mated
    fixed = [(bb, line, v, g) for bb, line, v, g in rets
             if v[0] == "const" or (v[0] == "agg" and all(isinstance(x, tuple) and x and x[0] in ("int", "const") for x in v[2]))]
    for bb, line, v, g in fixed:
        rep = any(tk is not False and any(x[0] == "call" and "StateHistory" in x[1] for x in walk(c)) for c, tk in g)
        ck.req(rep, "R14.fixed_score", "%s@%s" % (short, show(v)[:24]), b.where(line),
               "the node returns the fixed score %s without searching, on a path that does not test the history of played positions (guards: %s): "
               "a forced mate below or at this node is not found" % (show(v)[:40], "; ".join("%s=%s" % (show(c)[:50], tk) for c, tk in g[:4])),
               "fixed score only for a position on the line of play")
    ck.floor("R6", len(terms_) + len(inline_mates), 1, "evaluator-scored returns in %s" % short)
    for bb, line, v in terms_:
        a = v[2]
        state_ok = a[1] == ("param", 1)
        persp_ok = is_call(a[2], TURN) and a[2][2][0] == ("param", 1)
        ply = a[3]
        ply_ok = ply[0] == "param" and b.local_ty(ply[1]) == "usize" and (fn == QS or (b.local_name(ply[1]) or "") != "max_depth")
        if fn == REC:
            names = {b.local_name(i): i for i in range(1, b.arg_count + 1)}
            ply_ok = ply == ("param", names.get("current_depth"))
        ck.req(state_ok and persp_ok and ply_ok, "R6.terminal_score", "%s@bb%d" % (short, bb), b.where(line),
               "a leaf / move-less node is not scored as evaluate(state, side to move of state, ply of this node): %s" % show(v)[:120])
    if fn == REC:
        # R3 store on cut-off and R5 final store
        names = {b.local_name(i): i for i in range(1, b.arg_count + 1)}
        md, cd = names.get("max_depth"), names.get("current_depth")
        adt = prog.adt(S + "TranspositionEntry")
        fields = [f["name"] for f in adt["variants"][0]["fields"]] if adt else []
        ins = live_calls(b, names=(INSERT,))
        ck.floor("R5", len(ins), 2, "table inserts in analyze_recursive (cut-off, final)")
        n_cut = n_fin = 0
        for bb, t in ins:
            e = tb.operand(t["args"][2])
            if not (e[0] == "agg" and str(e[1]).endswith("TranspositionEntry")):
                ck.fail("R5.entry_form", "insert@bb%d" % bb, b.where(t["line"]), "the stored entry is not a TranspositionEntry literal")
                continue
            vals = dict(zip(fields, e[2]))
            g = guards_of(prog, b, bb, tb)
            on_cut = any(tk is True and _cmp(c, "ge") and is_child(_cmp(c, "ge")[0]) and is_beta(_cmp(c, "ge")[1]) for c, tk in g)
            depth_ok = vals.get("depth") == ("param", cd) and vals.get("max_depth") == ("param", md)
            ck.req(depth_ok, "R5.entry_depths", "insert@bb%d" % bb, b.where(t["line"]), "the entry does not record (current_depth, max_depth) of this node")
            k = vals.get("kind")
            if on_cut:
                n_cut += 1
                ck.req(k is not None and k[0] == "agg" and str(k[1]).endswith("LowerBound") and is_beta(vals.get("evaluation", ("x",))), "R3.store", "cut-off entry", b.where(t["line"]),
                       "the cut-off stores (%s, %s), not (LowerBound, beta)" % (show(k)[:40] if k else "?", show(vals.get("evaluation", ("?",)))[:40]))
                mvt = vals.get("performed_move")
                ck.req(mvt is not None and any(x[0] == "call" and x[1].endswith("try_as_legal_move") for x in walk(mvt)), "R3.store_move", "cut-off entry", b.where(t["line"]),
                       "the cut-off entry does not store the move that caused the cut-off")
            else:
                n_fin += 1
                ck.req(is_alpha(vals.get("evaluation", ("x",))), "R5.entry_value", "final entry", b.where(t["line"]), "the final entry stores %s, not alpha" % show(vals.get("evaluation", ("?",)))[:60])
                # kind variable: UpperBound initially, Exact only where alpha was raised by a child
                good_kind = False
                if k is not None and k[0] == "var":
                    defs = tb.d.defs.get(k[1], [])
                    seen = []
                    good_kind = True
                    for d in defs:
                        v = tb.rvalue(d[3]) if d[0] == "assign" else None
                        nm = str(v[1]).split("::")[-1] if v is not None and v[0] == "agg" else "?"
                        gg = guards_of(prog, b, d[1], tb)
                        raised = any(tk is True and _cmp(c, "gt") and is_child(_cmp(c, "gt")[0]) and is_alpha(_cmp(c, "gt")[1]) for c, tk in gg)
                        seen.append(nm)
                        if nm == "UpperBound":
                            good_kind = good_kind and not raised
                        elif nm == "Exact":
                            good_kind = good_kind and raised
                        else:
                            good_kind = False
                    good_kind = good_kind and set(seen) == {"UpperBound", "Exact"}
                ck.req(good_kind, "R5.entry_kind", "final entry", b.where(t["line"]),
                       "the final entry's kind is not `UpperBound unless a child raised alpha (then Exact)`")
        ck.req(n_cut >= 1 and n_fin >= 1, "R5.both_stores", "analyze_recursive", b.where(), "expected a cut-off store and a final store (%d / %d)" % (n_cut, n_fin))
    else:
        # R11 quiescence discipline
        quiet = [(bb, line, v, g) for bb, line, v, g in rets if is_call(v, EVALUATE)]
        has_quiet = any(any(tk is True and c[0] == "call" and c[1].split("::")[-1] == "all" for c, tk in g) for bb, line, v, g in quiet)
        ck.req(has_quiet, "R11.stand_pat_quiet", short, b.where(), "a quiet position (no capture available) does not return the static evaluation")
        for bb, t in recs:
            g = guards_of(prog, b, bb, tb)
            cap = any(tk is True and is_call(c, "weechess_core::moves::Move::is_capture") for c, tk in g)
            ck.req(cap, "R11.captures_only", short, b.where(t["line"]), "quiescence searches a move that is not a capture")
        # the capture loop looks at a subset of the moves only, which is sound only together with the stand-pat floor: every path
        # into the loop has compared the static evaluation with beta (fail-hard) and with alpha (floor)
        sp_beta, sp_alpha = [], []
        for bb2, blk2 in enumerate(b.blocks):
            t2 = blk2["term"]
            if t2["k"] != "switch" or blk2.get("cleanup"):
                continue
            c2 = tb.operand(t2["discr"])
            ge_ = _cmp(c2, "ge")
            if ge_ and is_call(ge_[0], EVALUATE) and is_beta(ge_[1]):
                sp_beta.append(bb2)
            lt_, gt_ = _cmp(c2, "lt"), _cmp(c2, "gt")
            if (lt_ and is_alpha(lt_[0]) and is_call(lt_[1], EVALUATE)) or (gt_ and is_call(gt_[0], EVALUATE) and is_alpha(gt_[1])):
                sp_alpha.append(bb2)
        rec_blocks = [bb2 for bb2, _t in recs]
        ck.req(bool(sp_beta) and cfg.must_pass(b, [0], rec_blocks, sp_beta), "R11.stand_pat_cutoff", short, b.where(),
               "captures are searched on a path that did not test `static evaluation >= beta` first")
        ck.req(bool(sp_alpha) and cfg.must_pass(b, [0], rec_blocks, sp_alpha), "R11.stand_pat_floor", short, b.where(),
               "captures are searched on a path that did not raise alpha to the static evaluation first: with only captures searched, a node whose "
               "captures all lose is scored as lost although a quiet move holds (false mate scores at the horizon)")
        empt = any(any(tk is True and c[0] == "call" and c[1].endswith("::is_empty") for c, tk in g) for bb, line, v, g in quiet)
        ck.req(empt, "R11.terminal_first", short, b.where(), "a position without legal moves is not scored before the stand-pat logic")
    ck.sample({"rule": "R1", "function": short, "alpha_locals": sorted(av), "beta_locals": sorted(bv), "child_value_locals": child_vals, "ok_returns": len(rets)})


def r7_table_use(ck):
    prog = ck.prog
    b = ck.body(REC, "R7")
    tb = TermBuilder(prog, b)
    names = {b.local_name(i): i for i in range(1, b.arg_count + 1)}
    md, cd = names.get("max_depth"), names.get("current_depth")
    ev = _params(b)
    kinds = {v["name"]: v["discr"] for v in (prog.adt(S + "EvaluationKind") or {"variants": []})["variants"]}
    ck.req(set(kinds) == {"Exact", "UpperBound", "LowerBound"}, "R7.kinds", "EvaluationKind", "", "EvaluationKind variants are %s" % sorted(kinds))
    uses = []
    for bb, blk in enumerate(b.blocks):
        if blk.get("cleanup"):
            continue
        for s in blk["stmts"]:
            if s["k"] != "assign":
                continue
            v = tb.rvalue(s["rv"])
            if any(x[0] == "field" and x[2] == "evaluation" and any(is_call(y, FIND) for y in walk(x)) for x in walk(v)):
                uses.append((bb, s.get("line"), s["place"], v, guards_of(prog, b, bb, tb)))
    ck.floor("R7", len(uses), 3, "uses of a probed entry's evaluation (Exact return, two bounds, window-closed return)")

    def depth_guard(g):
        for c, tk in g:
            ab = _cmp(c, "ge")
            if ab and tk is True:
                l, r = ab
                lok = l[0] == "bin" and l[1] == "Sub" and l[2][0] == "field" and l[2][2] == "max_depth" and l[3][0] == "field" and l[3][2] == "depth"
                rok = r == ("bin", "Sub", ("param", md), ("param", cd), r[4] if len(r) > 4 else None) or (r[0] == "bin" and r[1] == "Sub" and r[2] == ("param", md) and r[3] == ("param", cd))
                if lok and rok:
                    return True
        return False
    for bb, line, place, v, g in uses:
        ck.req(depth_guard(g), "R7.depth", "use@bb%d" % bb, b.where(line),
               "a stored value is used without `entry.max_depth - entry.depth >= max_depth - current_depth`: a shallower result replaces a deeper search")
        if place == {"l": 0, "p": []} or (v[0] == "agg" and str(v[1]).endswith("Ok")):
            exact = any(c[0] == "discr" and tk == kinds.get("Exact") and any(is_call(y, FIND) for y in walk(c)) for c, tk in g)
            closed = any(tk is True and _cmp(c, "ge") and _cmp(c, "ge")[0][0] == "var" and _cmp(c, "ge")[1][0] == "var" for c, tk in g)
            ck.req(exact or closed, "R7.return", "use@bb%d" % bb, b.where(line), "a stored value is returned although the entry is not Exact and the window is not closed (alpha >= beta)")
    ck.sample({"rule": "R7", "uses": len(uses)})


def r8_r10_driver(ck):
    prog = ck.prog
    it = ck.body(ITER, "R8")
    tb = TermBuilder(prog, it)
    rb = ck.body(REC, "R8")
    names = {rb.local_name(i): i for i in range(1, rb.arg_count + 1)}
    ev = _params(rb)
    n = 0
    for cn in prog.closures_of(ITER):
        c = prog.body(cn)
        ctb = TermBuilder(prog, c)
        for bb, t in live_calls(c, names=(REC,)):
            n += 1
            a = [ctb.operand(x) for x in t["args"]]
            al, be = a[ev[0] - 1], a[ev[1] - 1]
            mate0 = lambda x: is_call(x, EV + "Evaluation::mate_in_ply") and const_value(x[2][0]) == 0
            ck.req(_neg(al) is not None and mate0(_neg(al)) and mate0(be), "R8.root_window", cn.split("::")[-1], c.where(t["line"]),
                   "the root is not searched with the full window (-mate_in_ply(0), mate_in_ply(0)): (%s, %s)" % (show(al)[:50], show(be)[:50]))
            ck.req(const_value(a[names["current_depth"] - 1]) == 0 and const_value(a[names["current_extension"] - 1]) == 0, "R8.root_depth", cn.split("::")[-1], c.where(t["line"]),
                   "the root is not searched at ply 0 / extension 0")
    ck.floor("R8", n, 1, "root calls of analyze_recursive")
    # R9 merge by max
    merged = False
    for l, loc in enumerate(it.locals):
        if not loc["ty"].endswith("eval::Evaluation") or l <= it.arg_count:
            continue
        for d in tb.d.defs.get(l, []):
            v = tb.call_term(d[2]) if d[0] == "call" else tb.rvalue(d[3])
            if any(is_call(x, "Iterator::max") for x in walk(v)) and any(x[0] == "call" and "rayon" in x[1] for x in walk(v)):
                merged = True
            elif any(x[0] == "call" and x[1].split("::")[-1] in ("min", "last", "next", "nth", "min_by", "min_by_key") for x in walk(v)) and any(x[0] == "call" and "rayon" in x[1] for x in walk(v)):
                ck.fail("R9.merge_max", "best_eval", it.where(), "the workers' values are merged by %s, not by max" % show(v)[:80])
    ck.req(merged, "R9.merge_max", "analyze_iterative", it.where(), "the value reported for an iteration is not the maximum over the workers' results")
    # R10 early stop only at a mate score
    pv = ck.const(EV + "Evaluation::POS_INF", "R10")
    pos_inf = pv.get("0") if isinstance(pv, dict) else pv
    stops = 0
    for bb, blk in enumerate(it.blocks):
        t = blk["term"]
        if t["k"] != "switch" or blk.get("cleanup"):
            continue
        c = tb.operand(t["discr"])
        ab = _cmp(c, "ge")
        if ab and _eval_const(ab[1]) is not None and _eval_const(ab[1]) == pos_inf:
            stops += 1
    ck.req(stops >= 1, "R10.stop_at_mate", "analyze_iterative", it.where(), "the deepening loop has no `best_eval >= POS_INF` exit")
    thr = [bb for bb, blk in enumerate(it.blocks) if blk["term"]["k"] == "switch" and not blk.get("cleanup") and
           any(_cmp(tb.operand(blk["term"]["discr"]), op) and any(_eval_const(y) is not None for y in _cmp(tb.operand(blk["term"]["discr"]), op)) for op in ("ge", "gt", "le", "lt"))]
    ck.req(len(thr) == stops, "R10.only_mate_stops", "analyze_iterative", it.where(), "the deepening loop compares the value with a threshold other than POS_INF (%d comparisons)" % len(thr))
    # R10.loop_exits: every way out of the deepening loop is one of: depth range exhausted, mate value reached, search
    # interrupted (the workers' Result is Err), root without a line (empty iter_moves).  Any other exit condition stops
    # deepening before the requested depth without a winning terminal value in hand.
    from .c04 import is_iter_next, line_empty_test
    heads = [bb for bb, t in live_calls(it) if is_iter_next(callee_name(t)) and "Range" in callee_name(t)]
    if len(heads) != 1:
        ck.fail("R10.loop_exits", "analyze_iterative", it.where(), "expected one deepening loop over a depth range, found %d" % len(heads))
        return
    head = heads[0]
    succ = it.successors()
    from_head = cfg.reachable(it, [head])
    loop = {bb for bb in from_head if not it.blocks[bb].get("cleanup") and head in cfg.reachable(it, [bb])}
    loop.add(head)
    next_dest = it.blocks[head]["term"]["dest"]["l"]
    n_exit = 0
    for bb in sorted(loop):
        blk = it.blocks[bb]
        t = blk["term"]
        outs = [s for s in succ[bb] if s not in loop and not it.blocks[s].get("cleanup") and not _dead_end(it, s)]
        if not outs:
            continue
        n_exit += 1
        if t["k"] != "switch":
            ck.fail("R10.loop_exits", "bb%d" % bb, it.where(t.get("line")), "the deepening loop is left by a %s terminator" % t["k"])
            continue
        c = tb.operand(t["discr"])
        while c[0] == "un" and c[1] == "Not":
            c = c[2]
        kind = None
        if c[0] == "discr":
            inner = c[1]
            if inner[0] == "call" and is_iter_next(inner[1]) and "Range" in inner[1]:
                kind = "range exhausted"
            elif inner[0] == "local" and inner[1] == next_dest:
                kind = "range exhausted"
            elif _is_results(it, tb, inner):
                kind = "search interrupted"
        ab = _cmp(c, "ge")
        if ab and _eval_const(ab[1]) is not None and _eval_const(ab[1]) == pos_inf:
            kind = "mate value"
        if line_empty_test(tb.operand(t["discr"])) is not None:
            kind = "root without a line"
        if c[0] == "call" and c[1].endswith("CancellationToken::is_cancelled"):
            kind = "stop requested"
        ck.req(kind is not None, "R10.loop_exits", "exit on %s" % show(c)[:60], it.where(t.get("line")),
               "the deepening loop can stop on a condition that is neither the depth limit, a mate value, an interrupt / stop request nor a root without moves: %s" % show(c)[:100])
    ck.floor("R10.loop_exits", n_exit, 3, "exits of the deepening loop")


def _dead_end(body, bb):
    """Every path from bb ends in a diverging terminator (panic path), never in return."""
    for x in cfg.reachable(body, [bb]):
        if body.blocks[x]["term"]["k"] == "return":
            return False
    return True


def _is_results(it, tb, t):
    """t denotes the collected Result of the workers (type Result<Vec<..>, SearchInterrupt>)."""
    if t[0] == "local":
        return "SearchInterrupt" in it.locals[t[1]]["ty"] and "Result" in it.locals[t[1]]["ty"]
    if t[0] == "call":
        return "rayon" in t[1] or any(x[0] == "call" and "rayon" in x[1] for x in walk(t))
    return False


def _eval_const(t):
    """Inner number of a constant of type Evaluation (named constant or promoted literal)."""
    if t[0] != "const":
        return None
    from terms import thaw
    v = thaw(t[2])
    while isinstance(v, dict) and "$ref" in v and len(v) == 1:
        v = v["$ref"]
    if isinstance(v, dict) and str(v.get("$ty", "")).endswith("eval::Evaluation"):
        return v.get("0")
    return None


def r12_value_algebra(ck):
    prog = ck.prog
    nb = ck.body(NEG, "R12")
    from terms import return_term
    rt = return_term(prog, nb)
    ok = rt is not None and rt[0] == "agg" and any(x[0] == "un" and x[1] == "Neg" for x in walk(rt))
    ck.req(ok, "R12.neg", "Neg for Evaluation", nb.where(), "`-evaluation` is not the numeric negation of its value: %s" % (show(rt)[:80] if rt else "?"))
    derived = {"PartialOrd": False, "Ord": False, "PartialEq": False}
    for i in prog.impls:
        if i["self_ty"] == EV + "Evaluation":
            for k in derived:
                if i["trait"] and i["trait"].split("<")[0].endswith("cmp::" + k):
                    derived[k] = derived[k] or bool(i.get("derived"))
    ck.req(all(derived.values()), "R12.order", "Evaluation", "", "comparison of Evaluation is not the derived (numeric) one: %s" % derived)
    adt = ck.adt(EV + "Evaluation", "R12")
    f = adt["variants"][0]["fields"]
    ck.req(len(f) == 1, "R12.repr", "Evaluation", "", "Evaluation is not a single-number newtype: %s" % [(x["name"], x["ty"]) for x in f])


def r13_full_width(ck):
    """Completeness rests on full width: below the horizon every generated move of the node is searched.  Between the generator's call and the
    move loop the node's move buffer may be reordered and extended (the root's priority move), never shortened; the loop walks the whole
    buffer.  A removal keyed on anything coarser than the whole move (origin and destination only) silently drops the under-promotions."""
    prog = ck.prog
    b = ck.body(REC, "R13")
    tb = TermBuilder(prog, b)
    bufs = [i for i in range(1, b.arg_count + 1) if "PseudoLegalMove" in b.local_ty(i) and "Vec" in b.local_ty(i)]
    if len(bufs) != 1:
        ck.missing("R13", "the move buffer parameter (&mut Vec<PseudoLegalMove>) of analyze_recursive, found %d" % len(bufs))
        return
    BUF = ("param", bufs[0])
    gens = [bb for bb, t in live_calls(b) if callee_name(t).endswith("compute_psuedo_legal_moves_into") or callee_name(t).endswith("compute_pseudo_legal_moves_into")]
    ck.floor("R13", len(gens), 1, "calls of the pseudo-legal move generator into the node's buffer")
    SHORTEN = ("retain", "retain_mut", "remove", "swap_remove", "truncate", "pop", "drain", "dedup", "dedup_by", "dedup_by_key", "split_off", "clear",
               "extract_if", "resize", "resize_with", "set_len", "splice")
    KEEP = ("push", "sort_by_cached_key", "sort_by_key", "sort_by", "sort", "sort_unstable", "sort_unstable_by", "sort_unstable_by_key", "reverse", "swap",
            "shuffle", "iter", "iter_mut", "len", "is_empty", "deref", "deref_mut", "as_slice", "as_mut_slice", "last", "first", "get", "reserve",
            "rotate_left", "rotate_right", "extend", "insert", "into_iter", "index", "index_mut", "capacity", "partial_shuffle", "select_nth_unstable_by_key")
    after = cfg.reachable(b, gens) if gens else set()
    n_uses = 0
    for bb, t in live_calls(b):
        if bb not in after or bb in gens:
            continue
        args = [tb.operand(a) for a in t["args"]]
        if not any(x == BUF for a in args for x in walk(a)):
            continue
        cn = callee_name(t)
        last = cn.split("::")[-1]
        # only calls that receive the buffer itself (possibly re-borrowed / dereferenced), not values read out of it
        direct = any(_is_buf_ref(a, BUF) for a in args)
        if not direct:
            continue
        n_uses += 1
        if last in SHORTEN:
            ck.fail("R13.full_width", "%s@L%s" % (last, t.get("line")), b.where(t.get("line")),
                    "the node's move list is shortened by `%s` after generation: moves that are removed are never searched, a forced mate through one of them is missed" % last)
        elif last not in KEEP and not cn.startswith("core::iter::") and "Iterator" not in cn:
            ck.fail("R13.full_width", "%s@L%s" % (last, t.get("line")), b.where(t.get("line")),
                    "the node's move list is handed to `%s` after generation; the rule cannot tell that it keeps every generated move" % cn[-80:])
    ck.floor("R13", n_uses, 2, "uses of the move buffer between generation and the end of the node")
    # the loop walks the whole buffer: the iterator it steps is iter()/iter().rev()/into_iter() of the buffer, nothing in between
    ADAPT_OK = ("iter", "iter_mut", "rev", "into_iter", "deref", "deref_mut", "by_ref", "copied", "cloned", "peekable", "enumerate", "as_slice", "fuse")
    recs = [bb for bb, t in live_calls(b, names=(REC,))]
    heads = []
    for bb, t in live_calls(b):
        if is_iter_next(callee_name(t)) and any(r in cfg.reachable(b, [bb]) for r in recs) and cfg.in_cycle(b, bb):
            src = tb.operand(t["args"][0])
            if any(x == BUF for x in walk(src)):
                heads.append((bb, t, src))
    ck.floor("R13", len(heads), 1, "move loops over the node's buffer that lead to the recursive call")
    for bb, t, src in heads:
        x = src
        bad = []
        while x[0] == "call":
            last = x[1].split("::")[-1]
            if last not in ADAPT_OK:
                bad.append(last)
            x = x[2][0] if x[2] else ("none",)
        ck.req(not bad, "R13.loop_all", "move loop@L%s" % t.get("line"), b.where(t.get("line")),
               "the move loop does not walk the whole buffer (adapters: %s): some generated moves are never searched" % bad)


def r13b_every_move_searched(ck):
    """... and inside the loop every legal move reaches the recursive call: between the loop head and the call only the loop's own `next`,
    the legality test of the move and the node's interrupt propagation may decide anything.  A pruning condition (futility, late-move
    skipping, ..) placed there removes moves from the search; the claim "forced mates within the depth are found" does not survive it."""
    prog = ck.prog
    b = ck.body(REC, "R13")
    tb = TermBuilder(prog, b)
    recs = live_calls(b, names=(REC,))
    ck.floor("R13", len(recs), 1, "recursive calls in analyze_recursive")
    for bb, t in recs:
        if not cfg.in_cycle(b, bb):
            continue
        extra = []
        for c, tk in guards_of(prog, b, bb, tb):
            if c[0] == "discr":
                inner = c[1]
                if any(x[0] == "call" and (is_iter_next(x[1]) or x[1].endswith("try_as_legal_move") or x[1].endswith("Try>::branch") or x[1].split("::")[-1] in ("find", "lookup"))
                       for x in walk(inner)):
                    continue
            # conditions that hold before the loop is entered (depth test, table probe, history test) are not per-move decisions
            src_blocks = [b2 for b2, blk in enumerate(b.blocks) if blk["term"]["k"] == "switch" and tb.operand(blk["term"]["discr"]) == c]
            if src_blocks and not any(cfg.in_cycle(b, sb) for sb in src_blocks):
                continue
            extra.append((show(c)[:80], tk))
        # path form (a pruning condition written as a short-circuit chain leaves no dominating guard): once a move has passed the
        # legality test, the next round of the move loop is reached only through the recursive call
        heads = [hb for hb, ht in live_calls(b) if is_iter_next(callee_name(ht)) and cfg.in_cycle(b, hb) and bb in cfg.reachable(b, [hb]) and hb in cfg.reachable(b, [bb])]
        legal = []
        for b2, blk in enumerate(b.blocks):
            t2 = blk["term"]
            if t2["k"] == "switch" and not blk.get("cleanup"):
                c2 = tb.operand(t2["discr"])
                if c2[0] == "discr" and any(x[0] == "call" and x[1].endswith("try_as_legal_move") for x in walk(c2[1])):
                    legal += [x[1] for x in t2["cases"] if x[0] == 1] or [t2["otherwise"]]
        if heads and legal:
            okp = cfg.must_pass(b, legal, heads, [bb])
            ck.req(okp, "R13.every_move", "recursion@L%s (paths)" % t.get("line"), b.where(t.get("line")),
                   "a move that passed the legality test can be skipped: the move loop goes on to the next move without the recursive search having "
                   "been called for this one (pruning); a forced mate through such a move is missed")
        ck.req(not extra, "R13.every_move", "recursion@L%s" % t.get("line"), b.where(t.get("line")),
               "a legal move reaches the recursive search only under %s: moves failing that test are never searched (pruning), a forced mate through "
               "one of them is missed at the depth that should find it" % extra[:2])


def _is_buf_ref(a, BUF):
    while a[0] == "call" and a[1].split("::")[-1] in ("deref", "deref_mut", "as_mut", "as_ref", "borrow_mut", "borrow") and a[2]:
        a = a[2][0]
    return a == BUF
