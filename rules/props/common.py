"""Helpers shared by property modules."""
import re

from facts import callee_name
from terms import TermBuilder, walk
import cfg

WS_CRATES = ("weechess_core", "weechess_engine", "weechess")
INTERIOR_MUT = ("RwLock", "Mutex", "Cell<", "RefCell", "Atomic", "OnceCell", "OnceLock", "UnsafeCell", "Condvar", "LazyLock", "LazyCell")


def live_calls(body, names=None, pred=None):
    """(bb, term) of calls on non-cleanup blocks reachable from entry."""
    rs = cfg.reachable_blocks(body)
    out = []
    for bb, t in body.calls():
        if bb not in rs or body.is_cleanup(bb):
            continue
        n = callee_name(t)
        if names is not None and n not in names:
            continue
        if pred is not None and not pred(n, t):
            continue
        out.append((bb, t))
    return out


def call_arg_terms(prog, body, t, tb=None, inline_depth=0):
    tb = tb or TermBuilder(prog, body, inline_depth=inline_depth)
    return [tb.operand(a) for a in t["args"]]


def closure_creations(body):
    """{closure name: [operand json of captured upvars]} for closures created in `body`."""
    out = {}
    for blk in body.blocks:
        for s in blk["stmts"]:
            if s["k"] == "assign" and "agg" in s["rv"] and "closure" in s["rv"]["agg"]:
                out[s["rv"]["agg"]["closure"]] = s["rv"]["ops"]
    return out


def closure_upvar_terms(prog, parent, closure_name, tb=None):
    """Terms (in the parent) of the values captured by `closure_name`, by upvar index."""
    ops = closure_creations(parent).get(closure_name)
    if ops is None:
        return None
    tb = tb or TermBuilder(prog, parent)
    return [tb.operand(o) for o in ops]


def is_upvar(t, i=None):
    """Term shape of reading captured variable #i inside a closure body: field i of param 1."""
    if t[0] == "field" and t[1] == ("param", 1):
        return i is None or t[2] == str(i)
    return False


def ws_bodies(prog, crates=WS_CRATES):
    return [b for b in prog.bodies.values() if b.crate in crates]


def fn_of(prog, body):
    """The named function a closure belongs to (or the body itself)."""
    p = body.j.get("parent")
    return prog.body(p) if p and prog.body(p) is not None else body


def is_derived(prog, body):
    b = fn_of(prog, body)
    return bool((b.j.get("impl_of") or {}).get("derived", False))


def mentions(ty, names):
    return any(n in ty for n in names)


def strip_generics(name):
    return re.sub(r"<[^<>]*>", "", name)


def terms_contain(t, pred):
    return any(pred(x) for x in walk(t))


def switch_on_call_result(prog, body, callee_names):
    """Blocks with a switch whose discriminant is (the discriminant of) the result of a call to one of callee_names.
    Returns list of (bb, call_term_json_bb, cases, otherwise)."""
    tb = TermBuilder(prog, body)
    out = []
    for bb, blk in enumerate(body.blocks):
        t = blk["term"]
        if t["k"] != "switch":
            continue
        d = tb.operand(t["discr"])
        if d[0] == "discr":
            d = d[1]
        if d[0] == "call" and d[1] in callee_names:
            out.append((bb, d, t["cases"], t["otherwise"]))
    return out


def is_iter_next(name):
    return name.endswith("::next") and "iterator::Iterator" in name


def resolve_upvars(prog, body, t, depth=0):
    """Rewrite reads of captured variables inside closure `body` into the terms captured in its parent (recursively).
    Returns (term, outermost body in which the term's locals live)."""
    cur = body
    while cur.j.get("kind") == "Closure" and depth < 6:
        parent = prog.body(cur.j.get("direct_parent"))
        if parent is None:
            break
        ups = closure_upvar_terms(prog, parent, cur.name)
        if ups is None:
            break
        changed = [False]

        def rw(x):
            if isinstance(x, tuple) and x and x[0] == "field" and x[1] == ("param", 1) and x[2].isdigit() and int(x[2]) < len(ups):
                changed[0] = True
                return ups[int(x[2])]
            if not isinstance(x, tuple) or not x or x[0] == "const":
                return x
            return tuple(rw(y) if isinstance(y, tuple) else y for y in x)
        t2 = rw(t)
        if not changed[0]:
            break
        t = t2
        cur = parent
        depth += 1
    return t, cur


def impl_fn(prog, self_ty, trait_ref_part, fn_name):
    """Path of method `fn_name` in the impl whose self type is self_ty and whose trait reference contains trait_ref_part."""
    for i in prog.impls:
        if i["self_ty"] == self_ty and i["trait_ref"] and trait_ref_part in i["trait_ref"]:
            for it in i["items"]:
                if it["name"] == fn_name:
                    return it["path"]
    return None


def guards_of(prog, body, bb, tb=None):
    """Branch conditions that must hold to reach block `bb`: for every switch block dominating bb of which exactly one
    kind of edge (zero / non-zero, or one discriminant value) leads to bb without using a loop back-edge.
    Returns a list of (condition term, taken) with taken = True/False for boolean switches or the case value."""
    tb = tb or TermBuilder(prog, body)
    dom = cfg.dominators(body)
    bes = cfg.back_edges(body)
    out = []
    if bb not in dom:
        return out
    for d in sorted(dom[bb]):
        if d == bb:
            continue
        t = body.term(d)
        if t["k"] != "switch":
            continue
        cond = tb.operand(t["discr"])
        targets = [(c[0], c[1]) for c in t["cases"]] + [("else", t["otherwise"])]
        reach = [(v, tgt) for v, tgt in targets if bb in cfg.reachable(body, [tgt], avoid_edges=bes) or tgt == bb]
        if len({tgt for _, tgt in reach}) != 1 or len(reach) == len(targets):
            continue
        v = reach[0][0]
        if t.get("discr_ty") == "bool":
            out.append((cond, v != 0 if v != "else" else True))
        else:
            if v == "else":
                out.append((cond, ("else", tuple(c[0] for c in t["cases"]))))
            else:
                out.append((cond, v))
    return out


def return_sources(body, tb, max_depth=6):
    """(value term, block, line) of every value a function can return: the assignments to _0, looked through copies, `(L as V).f`
    projections and aggregates, where some local on the way is assembled at several places (e.g. the spliced result of a helper returning
    Option<T>): each `L = V(x)` contributes x, located at the block where the choice is made (so guards can be computed there).  Values
    reached through single-definition temporaries keep the block of their use."""
    out = []
    cache = {}

    def defs_of(l):
        if l not in cache:
            res = []
            for bb, blk in enumerate(body.blocks):
                if blk.get("cleanup"):
                    continue
                for s in blk["stmts"]:
                    if s["k"] == "assign" and s["place"] == {"l": l, "p": []}:
                        res.append((bb, s))
                t = blk["term"]
                if t["k"] == "call" and t.get("dest") == {"l": l, "p": []}:
                    res.append((bb, t))
            cache[l] = res
        return cache[l]

    def leads_to_choice(l, depth=0):
        """Does following copies / projections from local l reach a local with several definitions?"""
        ds = defs_of(l)
        if len(ds) > 1:
            return True
        if depth > max_depth or not ds or ds[0][1].get("k") == "call":
            return False
        rv = ds[0][1]["rv"]
        if "use" in rv:
            pl = rv["use"].get("move") or rv["use"].get("copy")
            return pl is not None and pl["l"] > body.arg_count and leads_to_choice(pl["l"], depth + 1)
        return False

    def emit(term, bb, line, origin):
        ob, ol = origin if origin is not None else (bb, line)
        out.append((term, ob, ol))

    def expand(l, proj, depth, origin):
        ds = defs_of(l)
        multi = len(ds) > 1
        for bb, s in ds:
            org = (bb, s.get("line")) if (multi or origin is None) else origin
            if s.get("k") == "call":
                emit(tb.call_term(s) if not proj else ("opaque", "projection of a call result"), bb, s.get("line"), org)
                continue
            rv = s["rv"]
            pl = (rv["use"].get("move") or rv["use"].get("copy")) if "use" in rv else None
            if pl is not None and pl["l"] > body.arg_count and depth < max_depth and (proj or pl["p"] or multi or leads_to_choice(pl["l"])) \
                    and all(isinstance(e, dict) and ("downcast" in e or "f" in e) for e in pl["p"]):
                if leads_to_choice(pl["l"]) or proj or pl["p"]:
                    expand(pl["l"], list(pl["p"]) + proj, depth + 1, org)
                    continue
            if "agg" in rv and len(proj) >= 2 and isinstance(proj[0], dict) and "downcast" in proj[0] and isinstance(proj[1], dict) and "f" in proj[1]:
                if rv["agg"].get("variant") == proj[0]["downcast"] or (rv["agg"].get("vidx") is not None and rv["agg"].get("vidx") == proj[0].get("v")):
                    idx = proj[1].get("i", 0)
                    if idx < len(rv["ops"]):
                        op = rv["ops"][idx]
                        opl = op.get("move") or op.get("copy")
                        if opl is not None and opl["l"] > body.arg_count and depth < max_depth and (proj[2:] or leads_to_choice(opl["l"])):
                            expand(opl["l"], list(opl["p"]) + proj[2:], depth + 1, org)
                        elif not proj[2:]:
                            emit(tb.operand(op), bb, s.get("line"), org)
                continue          # another variant contributes nothing to this projection
            if not proj:
                emit(tb.rvalue(rv), bb, s.get("line"), org)
            else:
                emit(("opaque", "unresolved projection"), bb, s.get("line"), org)
    expand(0, [], 0, None)
    seen = set()
    uniq = []
    for term, bb, line in out:
        if (term, bb) not in seen:
            seen.add((term, bb))
            uniq.append((term, bb, line))
    return uniq


def path_guards(prog, body, bb, max_paths=4000):
    """Path-sensitive companion of guards_of: the (condition, truth) pairs that hold on EVERY feasible acyclic path from the entry to block
    `bb` (symbolic paths; a path that decides the same pure condition twice differently is infeasible and dropped; `!c` is reported as c with
    the opposite truth).  Finds guards that dominance cannot see, e.g. `if a && !b {..} else if a {HERE}` gives b = True at HERE."""
    from symex import SymEx, TooManyPaths
    dead = set(range(len(body.blocks))) - {x for x in range(len(body.blocks)) if bb in cfg.reachable(body, [x]) or x == bb}
    try:
        paths = SymEx(prog, body, inline_depth=0, max_paths=max_paths, stop_at={bb} | dead).run()
    except TooManyPaths:
        return []
    common = None
    for p in paths:
        if not p.blocks or p.blocks[-1] != bb:
            continue
        g = set()
        for c, tk in p.conds:
            if isinstance(tk, tuple):
                truth = (0 in tk[1]) if tk[1] in ((0,), (1,)) else tk
                if tk[1] == (1,):
                    truth = False
            else:
                truth = tk
            neg = False
            while c[0] == "un" and c[1] == "Not":
                c = c[2]
                neg = not neg
            if c[0] != "discr" and isinstance(truth, (bool, int)) and truth in (0, 1, True, False):
                truth = bool(truth) != neg
            g.add((c, truth))
        common = g if common is None else (common & g)
    return sorted(common or [], key=repr)


def fmt_text(op_json):
    """Literal text of a format template operand: either a plain &str constant or the byte-coded template of
    core::fmt::Arguments::new (length-prefixed literal pieces interleaved with placeholder opcodes >= 0x80)."""
    if "const" not in op_json:
        return None
    v = op_json["const"].get("val")
    while isinstance(v, dict) and "$ref" in v and len(v) == 1:
        v = v["$ref"]
    if isinstance(v, dict) and "$str" in v:
        return v["$str"]
    if isinstance(v, list) and all(isinstance(x, int) for x in v):
        out = []
        i = 0
        while i < len(v):
            n = v[i]
            if n == 0:
                break
            if n < 0x80:
                out.append(bytes(v[i + 1:i + 1 + n]).decode("utf-8", "replace"))
                i += 1 + n
            else:
                out.append("{}")
                i += 1
        return "".join(out)
    return None


def printed_texts(prog, body):
    """[(bb, line, stream, text)] for every println!/eprintln!/print! in the body (text with {} placeholders)."""
    out = []
    tb = None
    for bb, t in live_calls(body):
        n = callee_name(t)
        if n in ("std::io::stdio::_print", "std::io::stdio::_eprint"):
            # the Arguments value is built by Arguments::new / from_str in a predecessor chain: find its template constant
            tb = tb or TermBuilder(prog, body)
            a = tb.operand(t["args"][0])
            text = None
            for x in walk(a):
                if x[0] == "const":
                    from terms import thaw
                    v = thaw(x[2])
                    txt = fmt_text({"const": {"val": v}})
                    if txt is not None and (text is None or len(txt) > len(text)):
                        text = txt
            out.append((bb, t["line"], "stdout" if n.endswith("_print") else "stderr", text))
    return out


ONCE_TYPES = ("std::sync::once_lock::OnceLock<", "std::sync::lazy_lock::LazyLock<", "core::cell::once::OnceCell<", "core::cell::lazy::LazyCell<")


def write_once_static(prog, name, static):
    """Is `static` a write-once cell whose value cannot depend on anything that happened before: its type is OnceLock / LazyLock,
    its payload type has no interior mutability of its own, and every use in the workspace is `get()` or `get_or_init(closure)`
    with a closure that captures nothing (so the value is a function of constants; what the initialiser calls is subject to the
    reachability rules of the function using it).  -> (bool, reason)"""
    ty = static["ty"]
    if not ty.startswith(ONCE_TYPES):
        return False, "not a OnceLock/LazyLock"
    inner = ty[ty.index("<") + 1:]
    if any(m in inner for m in INTERIOR_MUT):
        return False, "payload has interior mutability"
    uses = 0
    for b in prog.bodies.values():
        tb = None
        refs = set()
        for bb, blk in enumerate(b.blocks):
            for s_ in blk["stmts"]:
                if s_["k"] == "assign" and _mentions_static(s_["rv"], name):
                    refs.add(s_["place"]["l"])
        if not refs:
            continue
        from dataflow import Deps, operand_locals
        pts = Deps(b)
        # locals that are (re)borrows of the static
        grew = True
        while grew:
            grew = False
            for blk in b.blocks:
                for s_ in blk["stmts"]:
                    if s_["k"] == "assign" and not s_["place"]["p"] and s_["place"]["l"] not in refs:
                        rv = s_["rv"]
                        src = None
                        if "ref" in rv:
                            src = rv["ref"]["l"]
                        elif "use" in rv:
                            q = rv["use"].get("copy") or rv["use"].get("move")
                            src = q["l"] if q else None
                        if src in refs:
                            refs.add(s_["place"]["l"])
                            grew = True
        for bb, t in b.calls():
            if not any(l in refs for a in t["args"] for l in operand_locals(a)):
                continue
            uses += 1
            n = callee_name(t)
            last = n.split("::")[-1]
            if last in ("get", "deref", "force"):
                continue
            if last in ("get_or_init", "get_or_try_init"):
                tb = tb or TermBuilder(prog, b)
                c = tb.operand(t["args"][1])
                if c[0] == "agg" and str(c[1]).startswith("closure:") and len(c[2]) == 0:
                    continue
                if c[0] == "fn":
                    continue
                return False, "initialiser passed to %s in %s captures values" % (last, b.name)
            return False, "used through %s in %s" % (n, b.name)
    return uses > 0, "%d use(s), all get / get_or_init with a capture-free initialiser" % uses


def _mentions_static(x, name):
    if isinstance(x, dict):
        if x.get("$static") == name:
            return True
        return any(_mentions_static(v, name) for v in x.values())
    if isinstance(x, list):
        return any(_mentions_static(v, name) for v in x)
    return False



def no_hidden_state(ck, roots, rule, what, fn_values=()):
    """No workspace function reachable from `roots` reads thread-local state or a static with interior mutability (write-once tables
    excepted): the computed values are functions of the arguments alone, whatever was computed before on this thread or in this process."""
    import json as _json
    import re as _re
    from callgraph import CallGraph
    prog = ck.prog
    cg = CallGraph(prog)
    seen, _e, _i = cg.reachable(list(roots), fn_values=list(fn_values))
    n_fn = 0
    for n in sorted(seen):
        b = prog.raw_body(n)
        if b is None or b.crate not in ("weechess_core", "weechess_engine"):
            continue
        n_fn += 1
        for blk in b.blocks:
            for s_ in blk["stmts"]:
                if s_["k"] == "assign" and "thread_local" in s_["rv"]:
                    ck.fail(rule + ".thread_local", n.split("::")[-1], b.where(s_.get("line")),
                            "%s reads thread-local state: the result depends on what this thread computed before" % what)
        for name in sorted(set(_re.findall(r'"\\$static": "([^"]+)"', _json.dumps(b.j)))):
            st = prog.statics.get(name)
            if st is None:
                continue
            ty = st["ty"]
            if ty.startswith("lazy_static::lazy::Lazy<") or ty == name:
                continue
            if any(m in ty for m in INTERIOR_MUT) or "static mut" in ty:
                once, why = write_once_static(prog, name, st)
                ck.req(once, rule + ".static", name.split("::")[-1], b.where(),
                       "%s reads the mutable static `%s: %s`: the result depends on earlier computations" % (what, name, ty[:80]))
    ck.ok(rule + ".pure", what, "", "%d reachable workspace function(s): no thread-local access, no mutable static" % n_fn)
    return n_fn
