"""C02 - Applying a move yields the correct successor (structural clauses U1-U6; successor correctness over all
(position, move) pairs is NOT decided)."""
from facts import callee_name
from terms import TermBuilder, show, walk, const_value, thaw, scalar
from symex import decision_table
import geometry as G
from .common import live_calls, guards_of
from .c01 import is_call, variant_name

LEVEL = "other"
STATE = "weechess_core::state::State::"
MOVE = "weechess_core::moves::Move::"
BB = "weechess_core::board::BitBoard"
BOARD = "weechess_core::board::Board::"


def run(ck):
    ck.explanation = (
        "Decides the table-and-wiring clauses of move application: U0 the moving piece leaves its origin and lands on its destination on the mover's own "
        "bitboard; U1 castling relocates the mover's rook from the corner the castle path runs to, to the square the king passes, on the king's rank; "
        "U2 each castling right is and-ed with 'own rook on its own corner' on the successor board and a king move clears the mover's rights; U3 en passant "
        "removes the opposing pawn behind the target and the new target is the passed-over square exactly on a double step; U4 captures clear the opposing "
        "colour's bitboard of the recorded kind, promotions replace the pawn by the mover's promoted piece; U5 counters and side to move; U6 a coordinate "
        "query is applied only when exactly one legal move matches, otherwise UnknownMove / AmbiguousMove is returned before any update. NOT decided: "
        "successor correctness over all (position, move) pairs and sequences.")
    ck.trusted = ["rustc front end and MIR construction", "extractor decoding", "C20 (move attributes), C01/G5 (castle squares)"]
    ck.not_decided = ["successor correctness over all (position, move) pairs and move sequences"]
    ctx = {}
    ck.run_rule(collect_sets, ctx)
    ck.run_rule(u0_u4_piece_updates, ctx)
    ck.run_rule(u1_rook_relocation, ctx)
    ck.run_rule(u2_rights, ctx)
    ck.run_rule(u3_u5_state_fields, ctx)
    ck.run_rule(u6_unique_resolution)
    from .c12 import q7_uci_query
    ck.run_rule(q7_uci_query)   # the coordinate -> query conversion feeding by_performing_moves
    # ... and the session position those coordinates are applied to: base and moves of every `position` command (C07's I9)
    from .c07 import i9_position
    ck.run_rule(i9_position)
    # the en passant target of the successor is set from the move's double-push flag: its definition (C20's L13)
    from . import c20 as _c20
    ck.run_rule(_c20.rule_double_push_flag)
    # the counters of the successor live in Clock: their width (C11's F7; a narrower counter stops counting in long games)
    from . import c11 as _c11
    ck.run_rule(_c11.f7_counter_types)


def collect_sets(ck, ctx):
    prog = ck.prog
    b = ck.body(STATE + "by_performing_move", "U0")
    tb = TermBuilder(prog, b)
    sets = []
    for bb, t in live_calls(b, names=(BB + "::set",)):
        a = [tb.operand(x) for x in t["args"]]
        recv = a[0]
        piece = recv[2][1] if is_call(recv, "IndexMut<I>>::index_mut") else None
        mp = recv[2][0] if piece is not None else None
        sets.append({"bb": bb, "line": t["line"], "piece": piece, "map": mp, "square": a[1], "value": const_value(a[2]), "guards": guards_of(prog, b, bb, tb)})
    ctx["b"] = b
    ctx["tb"] = tb
    ctx["sets"] = sets
    ck.floor("U0", len(sets), 8, "bitboard updates in by_performing_move (2 move, 1 ep, 1 capture, 2 promotion, 2-4 rook)")
    # all updates go to one map, which is a clone of the current board's piece map, and the new Board is built from it
    maps = {s["map"] for s in sets}
    good = len(maps) == 1
    if good:
        m = list(maps)[0]
        good = is_call(m, "Clone>::clone") and is_call(m[2][0], BOARD + "piece_map") and is_call(m[2][0][2][0], STATE + "board") and m[2][0][2][0][2][0] == ("param", 1)
        ctx["map"] = m
    ck.req(good, "U0.copy_make", "by_performing_move", b.where(), "piece updates are not applied to one clone of state.board().piece_map()")
    nb = live_calls(b, names=(BOARD + "new",))
    ck.req(len(nb) == 1 and good and tb.operand(nb[0][1]["args"][0]) == ctx.get("map"), "U0.new_board", "by_performing_move", b.where(), "the successor board is not Board::new(updated map)")
    ck.req(b.locals[1]["ty"].startswith("&") and not b.locals[1]["ty"].startswith("&mut"), "U0.immutable_input", "by_performing_move", b.where(), "the input state is not taken by shared reference")


def piece_parts(t):
    """PieceIndex::new(color, piece) -> (color term, piece term)"""
    if is_call(t, "PieceIndex::new"):
        return t[2][0], t[2][1]
    return None, None


def is_field(t, base, name):
    return t[0] == "field" and t[1] == base and t[2] == name


def mover_color(t):
    return is_field(t, ("param", 1), "turn_to_move") or (is_call(t, STATE + "turn_to_move") and t[2][0] == ("param", 1))


def opp_color(t):
    return is_call(t, "Color::opposing_color") and mover_color(t[2][0])


def mv_call(t, name):
    return is_call(t, MOVE + name) and t[2][0] == ("param", 2)


def has_guard(guards, pred, truth=True):
    return any(pred(c) and tk == truth for c, tk in guards)


def u0_u4_piece_updates(ck, ctx):
    sets = ctx["sets"]
    b = ctx["b"]
    found = {k: 0 for k in ("leave", "land", "ep", "capture", "promo_off", "promo_on")}
    for s in sets:
        col, pc = piece_parts(s["piece"]) if s["piece"] is not None else (None, None)
        g = s["guards"]
        sqr = s["square"]
        if col is None:
            ck.fail("U0.form", "set@L%d" % s["line"], b.where(s["line"]), "bitboard update does not address map[PieceIndex::new(colour, piece)]")
            continue
        unguarded = not [c for c, tk in g if c[0] != "discr" or True] or all(is_call(c, "Try>::branch") or c[0] == "discr" and is_call(c[1], "Try>::branch") for c, tk in g)
        if mover_color(col) and mv_call(pc, "piece") and not g:
            if mv_call(sqr, "origin") and s["value"] is False:
                found["leave"] += 1
                continue
            if mv_call(sqr, "destination") and s["value"] is True:
                found["land"] += 1
                continue
        # en passant victim
        if has_guard(g, lambda c: mv_call(c, "is_en_passant")) and opp_color(col) and variant_name(pc) == "Pawn" and s["value"] is False:
            offs = [x for x in walk(sqr) if is_call(x, "Square::offset")]
            ok = bool(offs) and is_call(offs[0][2][1], "Color::backward") and mover_color(offs[0][2][1][2][0]) and any(is_field(x, ("param", 1), "en_passant_target") for x in walk(offs[0][2][0]))
            ck.req(ok, "U3.victim", "ep capture", b.where(s["line"]), "the en passant victim square is not en_passant_target.offset(mover.backward()): %s" % show(sqr)[:160])
            found["ep"] += 1
            continue
        # ordinary capture
        if has_guard(g, lambda c: mv_call(c, "is_en_passant"), False) and opp_color(col) and s["value"] is False and mv_call(sqr, "destination"):
            ok = any(mv_call(x, "capture") for x in walk(pc))
            ck.req(ok, "U4.capture", "capture", b.where(s["line"]), "the captured piece cleared at the destination is %s, not mv.capture()" % show(pc)[:120])
            found["capture"] += 1
            continue
        # promotion
        promo_guard = has_guard(g, lambda c: c[0] == "discr" and mv_call(c[1], "promotion"), 1)
        if promo_guard and mover_color(col) and mv_call(sqr, "destination"):
            if mv_call(pc, "piece") and s["value"] is False:
                found["promo_off"] += 1
                continue
            if any(mv_call(x, "promotion") for x in walk(pc)) and s["value"] is True:
                found["promo_on"] += 1
                continue
        # rook relocation is checked in U1
        if variant_name(pc) == "Rook":
            continue
        ck.fail("U4.unknown_update", "set@L%d" % s["line"], b.where(s["line"]),
                "unrecognised bitboard update map[%s, %s].set(%s, %s) under %s" % (show(col)[:60], show(pc)[:60], show(sqr)[:80], s["value"], [(show(c)[:60], tk) for c, tk in g]))
    for k, want in (("leave", 1), ("land", 1), ("ep", 1), ("capture", 1), ("promo_off", 1), ("promo_on", 1)):
        ck.req(found[k] == want, "U0.update", k, b.where(), "expected %d '%s' update(s), found %d" % (want, k, found[k]), "%d" % found[k])


def file_const(t):
    for x in walk(t):
        if x[0] == "const" and x[1] and x[1].startswith("weechess_core::board::File::"):
            return const_value(x)
    return None


def u1_rook_relocation(ck, ctx):
    sets = ctx["sets"]
    b = ctx["b"]
    moves = {}
    for s in sets:
        col, pc = piece_parts(s["piece"]) if s["piece"] is not None else (None, None)
        if pc is None or variant_name(pc) != "Rook":
            continue
        side = None
        for c, tk in s["guards"]:
            if is_call(c, MOVE + "is_castle") and c[2][0] == ("param", 2) and tk is True:
                side = variant_name(c[2][1])
        ok_col = mover_color(col)
        f = file_const(s["square"])
        on_rank = any(is_call(x, "Square::rank") and mv_call(x[2][0], "origin") for x in walk(s["square"]))
        if side is None and f is None and ok_col and on_rank:
            # second form: `if let Some(side) = mv.castle_side()` with the files selected by `match side { King => (..), Queen => (..) }`
            under_castle = any(c[0] == "discr" and mv_call(c[1], "castle_side") and tk == 1 for c, tk in s["guards"])
            comp = [x for x in walk(s["square"]) if x[0] == "field" and x[1][0] == "var" and x[2] in ("0", "1")]
            if under_castle and len(comp) == 1:
                tb2 = ctx["tb"]
                side_adt = ck.adt("weechess_core::moves::Side", "U1") if ck.prog.adt("weechess_core::moves::Side") else None
                names = {}
                for cand in ("weechess_core::moves::Side", "weechess_core::common::Side", "weechess_core::state::Side"):
                    a_ = ck.prog.adt(cand)
                    if a_:
                        names = {v["discr"]: v["name"] for v in a_["variants"]}
                if not names:
                    for an, a_ in ck.prog.adts.items():
                        if an.endswith("::Side") and an.startswith("weechess_core"):
                            names = {v["discr"]: v["name"] for v in a_["variants"]}
                resolved = 0
                for d in tb2.d.defs.get(comp[0][1][1], []):
                    if d[0] != "assign":
                        continue
                    tup = tb2.rvalue(d[3])
                    if not (tup[0] == "agg" and tup[1] == "tuple"):
                        continue
                    fv = file_const(tup[2][int(comp[0][2])])
                    sd = None
                    for c, tk in guards_of(ck.prog, b, d[1], tb2):
                        if c[0] == "discr" and c[1][0] == "field" and c[1][1][0] == "variant" and mv_call(c[1][1][1], "castle_side") and isinstance(tk, int) and not isinstance(tk, bool):
                            sd = names.get(tk)
                    if sd is not None and fv is not None:
                        moves.setdefault(sd, {})[s["value"]] = fv
                        resolved += 1
                if resolved == 2:
                    continue
        if side is None or not ok_col or f is None or not on_rank:
            ck.fail("U1.form", "rook@L%d" % s["line"], b.where(s["line"]), "rook update is not map[mover's rook].set(Square::from((mv.origin().rank(), File::X)), _) under is_castle(side)")
            continue
        moves.setdefault(side, {})[s["value"]] = f
    ck.floor("U1", sum(len(v) for v in moves.values()), 4, "rook relocation updates")
    for side, kfile_dest in (("King", 6), ("Queen", 2)):
        corner = 7 if side == "King" else 0
        passes = (4 + kfile_dest) // 2
        got = moves.get(side, {})
        ck.req(got.get(False) == corner, "U1.start", side, b.where(), "%s-side castling removes the rook from file %s, the corner is file %s" % (side, got.get(False), "abcdefgh"[corner]), "abcdefgh"[corner])
        ck.req(got.get(True) == passes, "U1.end", side, b.where(), "%s-side castling puts the rook on file %s, the king passes file %s" % (side, got.get(True), "abcdefgh"[passes]), "abcdefgh"[passes])


def u2_rights(ck, ctx):
    prog = ck.prog
    b = ctx["b"]
    tb = ctx["tb"]
    updates = []
    for bb, blk in enumerate(b.blocks):
        for s in blk["stmts"]:
            if s["k"] != "assign":
                continue
            pl = s["place"]
            fld = [e for e in pl["p"] if isinstance(e, dict) and e.get("f") in ("kingside", "queenside")]
            if not fld:
                continue
            dest = tb.place({"l": pl["l"], "p": []})
            val = tb.rvalue(s["rv"])
            updates.append((bb, s, fld[0]["f"], dest, val))
    ck.floor("U2", len(updates), 4, "castling right updates (and-with-rook-on-corner)")
    corners = {("Black", "kingside"): 63, ("Black", "queenside"): 56, ("White", "kingside"): 7, ("White", "queenside"): 0}
    seen = set()
    nb = live_calls(b, names=(BOARD + "new",))
    new_board = tb.local(nb[0][1]["dest"]["l"]) if nb else None
    for bb, s, fld, dest, val in updates:
        colour = None
        if is_call(dest, "IndexMut<I>>::index_mut"):
            colour = variant_name(dest[2][1])
        good = val[0] == "bin" and val[1] == "BitAnd"
        test = None
        if good:
            for x in (val[2], val[3]):
                if is_call(x, BB + "::test"):
                    test = x
        if colour is None or test is None:
            ck.fail("U2.form", "%s@L%d" % (fld, s["line"]), b.where(s["line"]), "right update is not `rights[Color::C].%s &= <rook bitboard>.test(<corner>)`" % fld)
            continue
        occ, sqc = test[2]
        rook_col, rook_pc = piece_parts(occ[2][1]) if is_call(occ, BOARD + "piece_occupancy") else (None, None)
        on_new_board = is_call(occ, BOARD + "piece_occupancy") and (occ[2][0] == new_board or any(is_call(x, BOARD + "new") for x in walk(occ[2][0])))
        want = corners[(colour, fld)]
        ck.req(variant_name(rook_col) == colour and variant_name(rook_pc) == "Rook", "U2.own_rook", "%s.%s" % (colour, fld), b.where(s["line"]),
               "the %s %s right depends on a %s %s" % (colour, fld, variant_name(rook_col), variant_name(rook_pc)))
        ck.req(const_value(sqc) == want, "U2.corner", "%s.%s" % (colour, fld), b.where(s["line"]),
               "the %s %s right is tied to square %s, the rook's corner is %s" % (colour, fld, G.name(const_value(sqc)) if isinstance(const_value(sqc), int) else show(sqc), G.name(want)), G.name(want))
        ck.req(on_new_board, "U2.successor_board", "%s.%s" % (colour, fld), b.where(s["line"]), "the rook test is not made on the successor board (a captured rook would keep the right)")
        ck.req(not guards_of(prog, b, bb, tb), "U2.unconditional", "%s.%s" % (colour, fld), b.where(s["line"]), "the right update is conditional: %s" % [(show(c)[:60], tk) for c, tk in guards_of(prog, b, bb, tb)])
        seen.add((colour, fld))
    ck.req(seen == set(corners), "U2.all_four", "rights", b.where(), "rights updated: %s (expected all four)" % sorted(seen))
    # king move clears the mover's rights
    cleared = False
    for bb, blk in enumerate(b.blocks):
        for s in blk["stmts"]:
            if s["k"] == "assign" and s["place"]["p"] == ["*"]:
                v = tb.rvalue(s["rv"])
                if v[0] == "const" and v[1] == "weechess_core::state::CastleRights::NONE":
                    dest = tb.local(s["place"]["l"])
                    g = guards_of(prog, b, bb, tb)
                    kingmove = any(tk is True and c[0] == "call" and c[1].endswith("::eq") and any(mv_call(x, "piece") for x in c[2]) and any(variant_name(x) == "King" for x in c[2]) for c, tk in g)
                    own = is_call(dest, "IndexMut<I>>::index_mut") and mover_color(dest[2][1])
                    cleared = cleared or (kingmove and own)
    ck.req(cleared, "U2.king_move", "rights", b.where(), "a king move does not clear the mover's castling rights")
    nv = ck.const("weechess_core::state::CastleRights::NONE", "U2")
    ck.req(nv == {"$ty": "weechess_core::state::CastleRights", "kingside": False, "queenside": False}, "U2.none", "CastleRights::NONE", "", "CastleRights::NONE = %s" % nv)


def _is_increment(t, old):
    """old + 1, in the forms that agree with it wherever old + 1 exists: plain (checked) addition, saturating_add, checked_add(..).unwrap_or(MAX)."""
    if t[0] == "bin" and t[1] in ("Add", "AddUnchecked"):
        return old in (t[2], t[3]) and 1 in (const_value(t[2]), const_value(t[3]))
    if t[0] == "call" and t[1].startswith("core::num::<impl ") and t[1].split("::")[-1] == "saturating_add":
        return t[2][0] == old and const_value(t[2][1]) == 1
    if t[0] == "call" and t[1].endswith("Option::<T>::unwrap_or") and t[2][0][0] == "call" and t[2][0][1].split("::")[-1] == "checked_add":
        inner = t[2][0]
        return inner[2][0] == old and const_value(inner[2][1]) == 1 and t[2][1][0] == "const"
    return False


def u3_u5_state_fields(ck, ctx):
    prog = ck.prog
    b = ctx["b"]
    paths = decision_table(prog, b, max_paths=6000)
    oks = [p for p in paths if p.ret[0] == "agg" and p.ret[1].endswith("Result::Ok")]
    ck.floor("U5", len(oks), 8, "Ok paths of by_performing_move")
    adt = ck.adt("weechess_core::state::State", "U5")
    fields = [f["name"] for f in adt["variants"][0]["fields"]]
    bad = {"turn": 0, "ep": 0, "half": 0, "full": 0}
    for p in oks:
        st = p.ret[2][0]
        if not (st[0] == "agg" and st[1].endswith("State::State")):
            ck.fail("U5.form", "return", b.where(), "Ok value is not a State struct expression")
            return
        vals = dict(zip(fields, st[2]))
        conds = p.conds
        # side to move
        t = vals["turn_to_move"]
        if not (is_call(t, "Color::opposing_color") and mover_color(t[2][0])):
            bad["turn"] += 1
        # en passant target
        dbl = [tk for c, tk in conds if mv_call(c, "is_double_pawn")]
        e = vals["en_passant_target"]
        if dbl and dbl[0] != 0:
            ok = is_call(e, "Square::offset") and mv_call(e[2][0], "destination") and is_call(e[2][1], "Color::backward") and mover_color(e[2][1][2][0])
        else:
            ok = e == ("agg", "core::option::Option::None", ())
        if not ok or not dbl:
            bad["ep"] += 1
        # clock
        c = vals["clock"]
        if not (c[0] == "agg" and c[1].endswith("Clock::Clock")):
            bad["half"] += 1
            continue
        half, full = c[2]
        cap = [tk for cc, tk in conds if mv_call(cc, "is_capture")]
        pawn = [tk for cc, tk in conds if cc[0] == "call" and cc[1].endswith("::eq") and any(mv_call(x, "piece") for x in cc[2]) and any(variant_name(x) == "Pawn" for x in cc[2])]
        resets = (cap and cap[0] != 0) or (pawn and pawn[-1] != 0)
        old_half = ("field", ("field", ("param", 1), "clock"), "halfmove_clock")
        if resets:
            okh = const_value(half) == 0
        else:
            okh = _is_increment(half, old_half)
        if not okh or not cap:
            bad["half"] += 1
        blk = [tk for cc, tk in conds if cc[0] == "call" and cc[1].endswith("::eq") and any(mover_color(x) for x in cc[2]) and any(variant_name(x) == "Black" for x in cc[2])]
        old_full = ("field", ("field", ("param", 1), "clock"), "fullmove_number")
        if blk and blk[0] != 0:
            okf = _is_increment(full, old_full)
        else:
            okf = full == old_full
        if not okf or not blk:
            bad["full"] += 1
    ck.req(bad["turn"] == 0, "U5.side_to_move", "turn_to_move", b.where(), "on %d path(s) the successor's side to move is not the opposing colour of the mover" % bad["turn"])
    ck.req(bad["ep"] == 0, "U3.new_target", "en_passant_target", b.where(),
           "on %d path(s) the new en passant target is not `destination.offset(mover.backward())` exactly on a double pawn step (None otherwise)" % bad["ep"])
    ck.req(bad["half"] == 0, "U5.halfmove", "halfmove_clock", b.where(), "on %d path(s) the halfmove clock is not 0 on capture/pawn move and old+1 otherwise" % bad["half"])
    ck.req(bad["full"] == 0, "U5.fullmove", "fullmove_number", b.where(), "on %d path(s) the fullmove number is not old+1 exactly after Black's move" % bad["full"])
    ck.extra["ok_paths_checked"] = len(oks)


def u6_unique_resolution(ck):
    prog = ck.prog
    b = ck.body(STATE + "by_performing_moves", "U6")
    tb = TermBuilder(prog, b)
    ap = live_calls(b, names=(STATE + "by_performing_move",))
    ck.req(len(ap) == 1, "U6.single_apply", "by_performing_moves", b.where(), "expected one by_performing_move call, found %d" % len(ap))
    if len(ap) != 1:
        return
    bb, t = ap[0]
    a = [tb.operand(x) for x in t["args"]]
    g = guards_of(prog, b, bb, tb)
    # guard: number of matches == 1
    uniq = None
    for c, tk in g:
        if c[0] == "bin" and c[1] == "Eq" and tk is True and 1 in (const_value(c[2]), const_value(c[3])):
            other = c[3] if const_value(c[2]) == 1 else c[2]
            if (other[0] == "un" and other[1] == "PtrMetadata") or is_call(other, "::len"):
                uniq = other
    ck.req(uniq is not None, "U6.exactly_one", "by_performing_moves", b.where(t["line"]),
           "a move is applied without the guard `number of matching legal moves == 1`: ambiguous coordinate text is resolved silently",
           "applied only when exactly one legal move matches")
    matches = None
    if uniq is not None:
        m = uniq[2] if uniq[0] == "un" else uniq[2][0]
        flt = [x for x in walk(m) if is_call(x, "MoveSet::filter")]
        good = bool(flt)
        if good:
            f = flt[0]
            ms, q = f[2]
            good = is_call(ms, "MoveGenerator::compute_legal_moves") and any(is_iter_next(x[1]) for x in walk(q) if x[0] == "call")
            # legal moves of the *current* accumulated state
            cur = ms[2][0]
            good = good and cur[0] == "var" and a[0] == cur
            matches = m
        ck.req(good, "U6.matches", "by_performing_moves", b.where(t["line"]), "the match set is not filter(compute_legal_moves(current state), query)")
        # applied move = element 0 of the matches
        mv = a[1]
        ck.req(mv[0] == "field" and mv[2] == "0" and mv[1][0] == "cindex" and mv[1][2] == 0 and matches is not None and any(x == matches for x in walk(mv)),
               "U6.applied", "by_performing_moves", b.where(t["line"]), "the applied move is %s, not the single match" % show(mv)[:160])
    # error arms
    errs = {}
    for bb2, blk in enumerate(b.blocks):
        for s in blk["stmts"]:
            if s["k"] == "assign" and "agg" in s["rv"] and s["rv"]["agg"].get("adt", "").endswith("MovePerformError"):
                errs[s["rv"]["agg"]["variant"]] = guards_of(prog, b, bb2, tb)
    unk = errs.get("UnknownMove")
    amb = errs.get("AmbiguousMove")
    ok_unk = unk is not None and any(c[0] == "bin" and c[1] == "Eq" and tk is True and 0 in (const_value(c[2]), const_value(c[3])) for c, tk in unk)
    ok_amb = amb is not None and any(c[0] == "bin" and c[1] == "Eq" and tk is False and 0 in (const_value(c[2]), const_value(c[3])) for c, tk in amb) \
        and any(c[0] == "bin" and c[1] == "Eq" and tk is False and 1 in (const_value(c[2]), const_value(c[3])) for c, tk in amb)
    ck.req(ok_unk, "U6.unknown", "by_performing_moves", b.where(), "zero matches do not yield MovePerformError::UnknownMove")
    ck.req(ok_amb, "U6.ambiguous", "by_performing_moves", b.where(), "several matches do not yield MovePerformError::AmbiguousMove")
    # input untouched: works on a clone, returns an owned value
    cl = [t2 for bb2, t2 in live_calls(b) if callee_name(t2).endswith("State as core::clone::Clone>::clone") and tb.operand(t2["args"][0]) == ("param", 1)]
    ck.req(bool(cl) and b.locals[1]["ty"].startswith("&weechess_core::state::State"), "U6.input_untouched", "by_performing_moves", b.where(),
           "by_performing_moves does not work on a clone of the caller's state")


from .common import is_iter_next  # noqa: E402
