"""C12 - Move text resolves to exactly the intended move (structural clauses Q1-Q6).

NOT decided: uniqueness of the match and rejection of illegal spellings over all positions."""
from facts import callee_name
from terms import TermBuilder, return_term, show, walk, const_value, thaw, scalar
import cfg
from .common import live_calls, guards_of, closure_upvar_terms, is_upvar, resolve_upvars
from .c01 import is_call, variant_name

LEVEL = "other"
SAN = "<weechess_core::notation::san::San as weechess_core::notation::TryFromNotation<weechess_core::moves::MoveQuery>>::try_from_notation"
MQ = "weechess_core::moves::MoveQuery::"
MOVE = "weechess_core::moves::Move::"
PIECES = "<weechess_core::piece::Piece as core::convert::Into<char>>::into::PIECES"


def run(ck):
    ck.explanation = (
        "Q1: each of the 42 character arms of the SAN scanner sets the rank/file/piece that the character denotes (c-'1', c-'a', the piece letters of the writer's "
        "table). Q2: the UCI promotion letters are the lower-case writer letters. Q3: MoveQuery::test compares each of its 8 fields with the like-named attribute of "
        "the move, and `true` is only returned after all 8 tests. Q4: the scanner consumes promotion, destination rank, destination file, capture mark, origin rank, "
        "origin file, piece in that order, rejects left-over input and defaults the piece to Pawn. Q5: castling is recognised by prefix, O-O-O before O-O, mapped to "
        "Queen/King side. Q6: the LAN writer and the UCI bestmove printer emit origin, destination, lower-case promotion letter. NOT decided: uniqueness of SAN "
        "resolution and rejection of illegal spellings over all positions.")
    ck.trusted = ["rustc front end and MIR construction", "extractor decoding", "C20 (move attribute accessors)"]
    ck.not_decided = ["uniqueness of the matched move and rejection of illegal spellings over all positions and spellings"]
    ck.run_rule(q1_q4_q5_scanner)
    ck.run_rule(q2_uci_promotion)
    ck.run_rule(q7_uci_query)
    ck.run_rule(q3_query_matching)
    ck.run_rule(q6_writers)
    # the "matches exactly one legal move" clause rests on the resolution step of C02: the query is tested against the legal move set of the
    # current position, one match is applied, none / several are the two errors
    from . import c02 as _c02
    ck.run_rule(_c02.u6_unique_resolution)
    # coordinate text is the squares' own text: the file / rank letter tables and Square's Display (C11's F4)
    from .c11 import f4_squares
    ck.run_rule(f4_squares)
    # coordinate text is re-read by the `position` command against the session's position: base and moves of every command (C07's I9)
    from .c07 import i9_position
    ck.run_rule(i9_position)


def piece_letters(ck):
    v = ck.const(PIECES, "Q1")
    padt = ck.adt("weechess_core::piece::Piece", "Q1")
    return {x["name"]: chr(v[x["discr"]]) for x in padt["variants"] if x["discr"] < len(v)}


def rank_file_const(t):
    if t[0] == "const" and t[1]:
        for pre, kind in (("weechess_core::board::Rank::", "rank"), ("weechess_core::board::File::", "file")):
            if t[1].startswith(pre):
                return kind, const_value(t)
    return None, None


def q1_q4_q5_scanner(ck):
    prog = ck.prog
    b = ck.body(SAN, "Q1")
    tb = TermBuilder(prog, b)
    letters = piece_letters(ck)
    groups = {}
    order = []
    for bb, t in live_calls(b):
        n = callee_name(t)
        if not n.startswith(MQ + "set_"):
            continue
        setter = n[len(MQ):]
        arg = tb.operand(t["args"][1])
        g = guards_of(prog, b, bb, tb)
        ch = None
        for c, tk in g:
            if isinstance(tk, int) and not isinstance(tk, bool) and c[0] in ("field", "call", "var") and 32 <= tk < 127:
                ch = chr(tk)
        groups.setdefault(setter, []).append((ch, arg, bb, t["line"], g))
        if setter not in order:
            order.append(setter)
    n_entries = 0
    for setter, ents in groups.items():
        for ch, arg, bb, line, g in ents:
            if setter in ("set_destination_rank", "set_origin_rank"):
                kind, v = rank_file_const(arg)
                n_entries += 1
                ck.req(ch is not None and kind == "rank" and v == ord(ch) - ord("1"), "Q1.rank", "%s:'%s'" % (setter, ch), b.where(line),
                       "character '%s' sets %s %s (expected rank index %s)" % (ch, kind, v, (ord(ch) - ord("1")) if ch else "?"), "'%s' -> rank %s" % (ch, v))
            elif setter in ("set_destination_file", "set_origin_file"):
                kind, v = rank_file_const(arg)
                n_entries += 1
                ck.req(ch is not None and kind == "file" and v == ord(ch) - ord("a"), "Q1.file", "%s:'%s'" % (setter, ch), b.where(line),
                       "character '%s' sets %s %s (expected file index %s)" % (ch, kind, v, (ord(ch) - ord("a")) if ch else "?"), "'%s' -> file %s" % (ch, v))
            elif setter in ("set_promotion", "set_piece"):
                pv = variant_name(arg)
                if ch is None:
                    # default: no piece letter => Pawn
                    isdef = setter == "set_piece" and pv == "Pawn" and any(is_call(c, "Option::<T>::is_none") and tk is True for c, tk in g)
                    ck.req(isdef, "Q4.default_pawn", setter, b.where(line), "a piece is set without a character test and it is not the `no piece => Pawn` default")
                    continue
                n_entries += 1
                ck.req(letters.get(pv) == ch, "Q1.piece", "%s:'%s'" % (setter, ch), b.where(line),
                       "character '%s' sets piece %s, whose letter in the writer's table is '%s'" % (ch, pv, letters.get(pv)), "'%s' -> %s" % (ch, pv))
            elif setter == "set_is_capture":
                cap = any(c[0] == "call" and c[1].endswith("::eq") and any(const_value(x) == "x" or (x[0] == "const" and "'x'" in show(x)) or _is_char_some(x, "x") for x in walk(c)) and tk is True for c, tk in g)
                # `if iter.next_if_eq(&'x').is_some()`
                cap = cap or any(tk is True and is_call(c, "Option::<T>::is_some") and any(
                    is_call(y, "next_if_eq") and any(const_value(z) == "x" or (z[0] == "const" and "'x'" in show(z)) for z in walk(y)) for y in walk(c)) for c, tk in g)
                ck.req(cap and const_value(arg) is True, "Q1.capture", setter, b.where(line), "the capture flag is not set exactly on the character 'x'")
    ck.floor("Q1", n_entries, 42, "character arms of the SAN scanner")
    want = {"set_promotion": {"Q", "R", "B", "N"}, "set_piece": {"K", "Q", "R", "B", "N", "P"}}
    for setter, chars in want.items():
        got = {ch for ch, *_ in groups.get(setter, []) if ch}
        ck.req(got == chars, "Q1.complete", setter, b.where(), "%s handles characters %s, expected %s" % (setter, sorted(got), sorted(chars)))
    for setter in ("set_destination_rank", "set_origin_rank"):
        got = {ch for ch, *_ in groups.get(setter, [])}
        ck.req(got == set("12345678"), "Q1.complete", setter, b.where(), "%s handles %s" % (setter, sorted(x for x in got if x)))
    for setter in ("set_destination_file", "set_origin_file"):
        got = {ch for ch, *_ in groups.get(setter, [])}
        ck.req(got == set("abcdefgh"), "Q1.complete", setter, b.where(), "%s handles %s" % (setter, sorted(x for x in got if x)))
    # Q4 order: each group is reachable from the previous one, never the other way round (right-to-left scan)
    seq = ["set_promotion", "set_destination_rank", "set_destination_file", "set_is_capture", "set_origin_rank", "set_origin_file", "set_piece"]
    bes = cfg.back_edges(b)
    for a, c in zip(seq, seq[1:]):
        ba = [e[2] for e in groups.get(a, [])]
        bc = [e[2] for e in groups.get(c, [])]
        fwd = bool(ba) and bool(bc) and all(set(bc) & cfg.reachable(b, [x], avoid_edges=bes) for x in ba)
        back = any(set(ba) & cfg.reachable(b, [x], avoid_edges=bes) for x in bc)
        ck.req(fwd and not back, "Q4.order", "%s<%s" % (a, c), b.where(), "the scanner does not handle %s strictly before %s" % (a[4:], c[4:]))
    # left-over input is rejected: an Err return guarded by peek().is_some() after the piece group
    errs = []
    for bb, blk in enumerate(b.blocks):
        for s in blk["stmts"]:
            if s["k"] == "assign" and s["place"] == {"l": 0, "p": []} and "agg" in s["rv"] and s["rv"]["agg"].get("variant") == "Err":
                g = guards_of(prog, b, bb, tb)
                if any(is_call(c, "Option::<T>::is_some") and tk is True and any(is_call(x, "Peekable::<I>::peek") for x in walk(c)) for c, tk in g):
                    errs.append(bb)
    ck.req(bool(errs), "Q4.leftover", "San::try_from_notation", b.where(), "left-over characters are not rejected (no Err under `iter.peek().is_some()`)")
    # the scan runs over the reversed characters
    rev = any(callee_name(t).endswith("Iterator::rev") for bb, t in live_calls(b))
    ck.req(rev, "Q4.reversed", "San::try_from_notation", b.where(), "the scanner does not read the text from the right")
    # Q5 castling
    cs = []
    for bb, t in live_calls(b, names=(MQ + "by_castling",)):
        g = guards_of(prog, b, bb, tb)
        side = variant_name(tb.operand(t["args"][0]))
        cs.append((side, g, t["line"]))
    good = len(cs) == 2
    table = {}
    for side, g, line in cs:
        pos = [c for c, tk in g if tk is True and is_call(c, "<impl str>::starts_with")]
        neg = [c for c, tk in g if tk is False and is_call(c, "<impl str>::starts_with")]
        if len(pos) != 1:
            good = False
            continue
        lit = _str_of(pos[0][2][1])
        table[lit] = (side, [_str_of(c[2][1]) for c in neg])
    ck.req(good and table.get("O-O-O", (None,))[0] == "Queen" and table.get("O-O", (None,))[0] == "King" and table.get("O-O", (None, []))[1] == ["O-O-O"], "Q5.castle", "San::try_from_notation", b.where(),
           "castling is not recognised as prefix O-O-O (queen side) tested before prefix O-O (king side): %s "
           "(an exact comparison would reject the check/mate suffixes)" % {k: v for k, v in table.items()}, str(table))
    bc = ck.body(MQ + "by_castling", "Q5")
    ctb = TermBuilder(prog, bc)
    sc = live_calls(bc, names=(MQ + "set_castle",))
    ck.req(len(sc) == 1 and ctb.operand(sc[0][1]["args"][1]) == ("param", 1), "Q5.query", "MoveQuery::by_castling", bc.where(), "by_castling does not set the castle field to its argument")
    ck.sample({"rule": "Q1", "entries": n_entries, "castle": {k: v[0] for k, v in table.items()}})


def _is_char_some(x, ch):
    if x[0] == "const":
        v = thaw(x[2])
        while isinstance(v, dict) and "$ref" in v and len(v) == 1:
            v = v["$ref"]
        if isinstance(v, dict) and v.get("$variant") == "Some":
            inner = [vv for k, vv in v.items() if not k.startswith("$")]
            return bool(inner) and scalar(inner[0]) == ch or any(isinstance(i, dict) and scalar(i) == ch for i in inner)
    return False


def _str_of(t):
    if t[0] == "const":
        v = thaw(t[2])
        if isinstance(v, dict) and "$str" in v:
            return v["$str"]
    return None


def q2_uci_promotion(ck):
    prog = ck.prog
    letters = piece_letters(ck)
    ex = "weechess_engine::uci::Client::exec"
    found = {}
    for cn in prog.closures_of(ex):
        c = prog.body(cn)
        tb = TermBuilder(prog, c)
        for bb, blk in enumerate(c.blocks):
            for s in blk["stmts"]:
                if s["k"] == "assign" and "agg" in s["rv"] and s["rv"]["agg"].get("adt") == "core::option::Option" and s["rv"]["agg"].get("variant") == "Some":
                    v = tb.operand(s["rv"]["ops"][0])
                    pv = variant_name(v)
                    if pv in letters and v[0] == "agg":
                        g = guards_of(prog, c, bb, tb)
                        for cnd, tk in g:
                            if isinstance(tk, int) and not isinstance(tk, bool) and 32 <= tk < 127:
                                found[chr(tk)] = pv
        # second form: set_promotion(query, Piece::X) called directly under the character test
        for bb, t in live_calls(c, names=(MQ + "set_promotion",)):
            v = tb.operand(t["args"][1])
            pv = variant_name(v)
            if pv in letters:
                for cnd, tk in guards_of(prog, c, bb, tb):
                    if isinstance(tk, int) and not isinstance(tk, bool) and 32 <= tk < 127:
                        found[chr(tk)] = pv
    ck.floor("Q2", len(found), 4, "UCI promotion letters")
    for ch, pv in sorted(found.items()):
        ck.req(letters.get(pv, "").lower() == ch, "Q2.letter", "'%s'" % ch, "", "UCI letter '%s' selects %s, whose writer letter is '%s'" % (ch, pv, letters.get(pv, "?").lower()), "'%s' -> %s" % (ch, pv))
    ck.req(set(found.values()) == {"Queen", "Rook", "Bishop", "Knight"}, "Q2.complete", "uci promotions", "", "UCI promotion letters cover %s" % sorted(found.values()))


def q7_uci_query(ck):
    """The coordinate token -> MoveQuery conversion of `position ... moves`: on every path that yields a query, the query was
    given the origin parsed from characters 0..2 and the destination parsed from characters 2..4; no MoveQuery constructor or
    setter other than new / by_moving_from_to / set_origin / set_destination / set_promotion takes part (a castle, piece or
    capture constraint is not in the token and would select a different move or none)."""
    prog = ck.prog
    ex = "weechess_engine::uci::Client::exec"
    conv = []
    for cn in prog.closures_of(ex):
        c = prog.body(cn)
        if "MoveQuery" in c.local_ty(0) and "Option<" in c.local_ty(0):
            conv.append(c)
    ck.req(len(conv) == 1, "Q7.converter", "uci", "", "expected one closure of Client::exec producing Option<MoveQuery>, found %d" % len(conv))
    if len(conv) != 1:
        return
    c = conv[0]
    tb = TermBuilder(prog, c)
    allowed = {"new", "by_moving_from_to", "set_origin", "set_destination", "set_promotion"}
    used = {}
    org, dst = [], []

    def from_chars(t, lo, hi):
        # Square::try_from(get(token, lo..hi)) possibly through `?` (Try::branch / Option::ok)
        for x in walk(t):
            if x[0] == "call" and x[1].endswith("::get") and len(x[2]) == 2:
                r = x[2][1]
                if r[0] == "agg" and "Range" in str(r[1]) and len(r[2]) == 2 and const_value(r[2][0]) == lo and const_value(r[2][1]) == hi:
                    return any(y[0] == "call" and "TryFrom<&str>>::try_from" in y[1] and "Square" in y[1] for y in walk(t))
        return False
    for bb, t in live_calls(c):
        n = callee_name(t)
        if n.startswith(MQ):
            m = n[len(MQ):]
            used.setdefault(m, []).append(bb)
            a = [tb.operand(x) for x in t["args"]]
            if m == "set_origin":
                ck.req(from_chars(a[1], 0, 2), "Q7.origin", "set_origin", c.where(t["line"]), "the query's origin is %s, not the square spelled by characters 0..2 of the token" % show(a[1])[:80])
                org.append(bb)
            elif m == "set_destination":
                ck.req(from_chars(a[1], 2, 4), "Q7.destination", "set_destination", c.where(t["line"]),
                       "the query's destination is %s, not the square spelled by characters 2..4 of the token" % show(a[1])[:80])
                dst.append(bb)
            elif m == "by_moving_from_to":
                ck.req(from_chars(a[0], 0, 2) and from_chars(a[1], 2, 4), "Q7.origin", "by_moving_from_to", c.where(t["line"]),
                       "by_moving_from_to is not given (characters 0..2, characters 2..4)")
                org.append(bb)
                dst.append(bb)
    extra = sorted(set(used) - allowed)
    ck.req(not extra, "Q7.only_token_fields", "uci", c.where(), "the query built from a coordinate token is also constrained through MoveQuery::%s, which the token does not spell" % extra)
    somes = []
    rets = {0}      # the return place and locals moved into it as a whole (return values of spliced-in helpers)
    grew = True
    while grew:
        grew = False
        for blk in c.blocks:
            for s_ in blk["stmts"]:
                if s_["k"] == "assign" and not s_["place"]["p"] and s_["place"]["l"] in rets and "use" in s_["rv"]:
                    q = s_["rv"]["use"].get("move") or s_["rv"]["use"].get("copy")
                    if q is not None and not q["p"] and q["l"] not in rets:
                        rets.add(q["l"])
                        grew = True
    for bb, blk in enumerate(c.blocks):
        if blk.get("cleanup"):
            continue
        for s_ in blk["stmts"]:
            if s_["k"] == "assign" and not s_["place"]["p"] and s_["place"]["l"] in rets and "agg" in s_["rv"] and s_["rv"]["agg"].get("variant") == "Some":
                somes.append(bb)
    ck.floor("Q7", len(somes), 1, "paths of the converter that yield a query")
    ck.req(bool(org) and cfg.must_pass(c, [0], somes, org), "Q7.always_origin", "uci", c.where(), "a query can be produced without the origin square having been set")
    ck.req(bool(dst) and cfg.must_pass(c, [0], somes, dst), "Q7.always_destination", "uci", c.where(), "a query can be produced without the destination square having been set")
    # set_origin / set_destination store rank and file of their argument in the like-named fields
    for m, fields in (("set_origin", ("origin_rank", "origin_file")), ("set_destination", ("dest_rank", "dest_file"))):
        b = ck.body(MQ + m, "Q7")
        tbb = TermBuilder(prog, b)
        got = {}
        for blk in b.blocks:
            for s_ in blk["stmts"]:
                if s_["k"] == "assign" and s_["place"]["p"] and s_["place"]["p"][0] == "*":
                    f = [e["f"] for e in s_["place"]["p"] if isinstance(e, dict) and "f" in e]
                    if f:
                        got[f[0]] = tbb.rvalue(s_["rv"])
        for f, acc in zip(fields, ("Square::rank", "Square::file")):
            v = got.get(f)
            ok = v is not None and v[0] == "agg" and str(v[1]).endswith("Some") and is_call(v[2][0], acc) and v[2][0][2][0] == ("param", 2)
            ck.req(ok, "Q7.setter", "%s.%s" % (m, f), b.where(), "%s does not store Some(square.%s()) in %s" % (m, acc.split("::")[-1], f))


FIELD_ATTR = {
    # MoveQuery field -> predicate on the closure's result term (m = captured move)
    "piece": lambda t, m: _eq_of(t, lambda x: is_call(x, MOVE + "piece") and x[2][0] == m),
    "origin_rank": lambda t, m: _eq_of(t, lambda x: is_call(x, "Square::rank") and is_call(x[2][0], MOVE + "origin") and x[2][0][2][0] == m),
    "origin_file": lambda t, m: _eq_of(t, lambda x: is_call(x, "Square::file") and is_call(x[2][0], MOVE + "origin") and x[2][0][2][0] == m),
    "dest_rank": lambda t, m: _eq_of(t, lambda x: is_call(x, "Square::rank") and is_call(x[2][0], MOVE + "destination") and x[2][0][2][0] == m),
    "dest_file": lambda t, m: _eq_of(t, lambda x: is_call(x, "Square::file") and is_call(x[2][0], MOVE + "destination") and x[2][0][2][0] == m),
    "promotion": lambda t, m: _eq_of(t, lambda x: is_call(x, "Option::<T>::unwrap_or") and is_call(x[2][0], MOVE + "promotion") and x[2][0][2][0] == m and is_call(x[2][1], MOVE + "piece")),
    "castle": lambda t, m: is_call(t, MOVE + "is_castle") and t[2][0] == m and t[2][1] == ("param", 2),
    "is_capture": lambda t, m: _eq_of(t, lambda x: is_call(x, MOVE + "is_capture") and x[2][0] == m),
}


def _unalias_move(prog, t):
    """`m.resulting_piece()` is `m.promotion().unwrap_or(m.piece())` when its body says so."""
    if is_call(t, MOVE + "resulting_piece") and len(t[2]) == 1:
        rb = prog.bodies.get(MOVE + "resulting_piece")
        if rb is not None:
            rt = return_term(prog, prog.raw_body(MOVE + "resulting_piece"))
            if rt is not None and is_call(rt, "Option::<T>::unwrap_or") and is_call(rt[2][0], MOVE + "promotion") and is_call(rt[2][1], MOVE + "piece"):
                from terms import subst
                return subst(rt, {1: t[2][0]})
    return t


def _unalias_all(prog, t):
    """_unalias_move applied to every sub-term."""
    if not isinstance(t, tuple) or not t or t[0] == "const":
        return t
    t2 = _unalias_move(prog, t) if isinstance(t[0], str) else t
    if t2 is not t:
        return t2
    return tuple(_unalias_all(prog, x) if isinstance(x, tuple) else x for x in t)


def _eq_of(t, pred):
    """t is `param2 == <expr>` (derived PartialEq call or primitive Eq) with pred(expr)."""
    if t[0] == "call" and t[1].endswith("::eq") and len(t[2]) == 2:
        a, b = t[2]
    elif t[0] == "bin" and t[1] == "Eq":
        a, b = t[2], t[3]
    else:
        return False
    return (a == ("param", 2) and pred(b)) or (b == ("param", 2) and pred(a))


def q3_query_matching(ck):
    prog = ck.prog
    b = ck.body(MQ + "test", "Q3")
    tb = TermBuilder(prog, b)
    maps = []
    for bb, t in live_calls(b):
        if callee_name(t).endswith("Option::<T>::map_or"):
            a = [tb.operand(x) for x in t["args"]]
            # form 3: field.map_or(true, |x| x == attr)
            if len(a) == 3 and a[0][0] == "field" and a[0][1] == ("param", 1) and const_value(a[1]) is True and a[2][0] == "agg" and str(a[2][1]).startswith("closure:"):
                maps.append((a[0][2], a[2][1][len("closure:"):], bb, t, False))
        if callee_name(t).endswith("Option::<T>::map") or callee_name(t).endswith("Option::<T>::is_some_and"):
            a = [tb.operand(x) for x in t["args"]]
            if a[0][0] == "field" and a[0][1] == ("param", 1) and a[1][0] == "agg" and a[1][1].startswith("closure:"):
                # form 1: field.map(|x| x == attr).unwrap_or(true) negated;  form 2: field.is_some_and(|x| x != attr)
                maps.append((a[0][2], a[1][1][len("closure:"):], bb, t, callee_name(t).endswith("is_some_and")))
    # form 4, written out in the function: `match self.field { Some(x) if x != attr(m) => return false, _ => {} }`
    inline_tests = []
    for bb, blk in enumerate(b.blocks):
        t = blk["term"]
        if t["k"] != "switch" or blk.get("cleanup"):
            continue
        c = tb.operand(t["discr"])
        neg = False
        while c[0] == "un" and c[1] == "Not":
            c = c[2]
            neg = not neg
        cmpf = None
        if c[0] == "bin" and c[1] in ("Eq", "Ne"):
            cmpf, ops = c[1], (c[2], c[3])
        elif c[0] == "call" and (c[1].endswith("::eq") or c[1].endswith("::ne")) and len(c[2]) == 2:
            cmpf, ops = ("Eq" if c[1].endswith("::eq") else "Ne"), c[2]
        if cmpf is None:
            continue
        for payload, other in (ops, ops[::-1]):
            if payload[0] == "field" and payload[1][0] == "variant" and payload[1][2] == "Some" and payload[1][1][0] == "field" and payload[1][1][1] == ("param", 1):
                fld = payload[1][1][2]
                # equality term in the shape the closure predicates expect: param 2 of a closure is the payload
                eq = ("bin", "Eq", ("param", 2), _unalias_move(prog, other))
                # the mismatch edge must lead to `return false`: decided below by Q3.true_after_all over test_blocks
                # the test as a whole starts at the switch over the field's discriminant (a None field needs no comparison)
                dom_ = cfg.dominators(b)
                start = bb
                for d in sorted(dom_.get(bb, ())):
                    td = b.blocks[d]["term"]
                    if td["k"] == "switch":
                        cd = tb.operand(td["discr"])
                        if cd == ("discr", ("field", ("param", 1), fld)):
                            start = d
                inline_tests.append((fld, eq, start))
    ck.floor("Q3", len(maps) + len(inline_tests), 8, "field tests in MoveQuery::test")
    adt = ck.adt("weechess_core::moves::MoveQuery", "Q3")
    fields = [f["name"] for f in adt["variants"][0]["fields"]]
    tested = set()
    test_blocks = []
    for fld, eq, bb in inline_tests:
        pred = FIELD_ATTR.get(fld)
        good = pred is not None and pred(eq, ("param", 2))
        ck.req(good, "Q3.field", fld, b.where(), "query field `%s` is compared with %s, not with the like-named attribute of the move" % (fld, show(eq)[:160]), show(eq)[:100])
        tested.add(fld)
        test_blocks.append(bb)
    for fld, cname, bb, t, negated in maps:
        cb = prog.body(cname)
        rt = return_term(prog, cb)
        if negated and rt is not None:
            # the closure states the mismatch: turn it into the match predicate
            if rt[0] == "bin" and rt[1] == "Ne":
                rt = ("bin", "Eq") + tuple(rt[2:])
            elif rt[0] == "call" and rt[1].endswith("::ne"):
                rt = ("call", rt[1][:-2] + "eq", rt[2])
            elif rt[0] == "un" and rt[1] == "Not":
                rt = rt[2]
            else:
                rt = ("opaque", "mismatch predicate of unrecognised form")
        if rt is not None:
            rt = _unalias_all(prog, rt)
        ups = closure_upvar_terms(prog, b, cname, tb) or []
        m_up = [i for i, u in enumerate(ups) if u == ("param", 2)]
        mterm = ("field", ("param", 1), str(m_up[0])) if m_up else None
        pred = FIELD_ATTR.get(fld)
        good = rt is not None and pred is not None and mterm is not None and pred(rt, mterm)
        ck.req(good, "Q3.field", fld, cb.where(), "query field `%s` is compared with %s, not with the like-named attribute of the move" % (fld, show(rt)[:160] if rt else "?"),
               show(rt)[:100] if rt else "")
        tested.add(fld)
        test_blocks.append(bb)
    ck.req(tested == set(fields), "Q3.all_fields", "MoveQuery::test", b.where(), "fields tested: %s; fields of MoveQuery: %s" % (sorted(tested), sorted(fields)))
    # every `true` return lies behind all the tests; every failed test returns false
    trues = []
    falses = []
    for bb, blk in enumerate(b.blocks):
        if blk.get("cleanup"):
            continue
        for s in blk["stmts"]:
            if s["k"] == "assign" and s["place"] == {"l": 0, "p": []}:
                v = const_value(tb.rvalue(s["rv"]))
                (falses if v is False else trues).append(bb)
        t = blk["term"]
        if t["k"] == "call" and t["dest"] == {"l": 0, "p": []}:
            trues.append(bb)
    ck.req(len(trues) == 1, "Q3.single_true", "MoveQuery::test", b.where(), "expected a single return that can yield `true` (after all tests), found %d" % len(trues))
    for tb_ in test_blocks:
        ck.req(all(cfg.must_pass(b, [0], [x], [tb_]) for x in trues), "Q3.true_after_all", "test@bb%d" % tb_, b.where(),
               "`true` can be returned without performing one of the field tests: a query can match a move that differs in that field")
    ck.req(len(falses) >= len(maps), "Q3.mismatch_returns_false", "MoveQuery::test", b.where(), "fewer `false` returns (%d) than field tests (%d)" % (len(falses), len(maps)))
    # MoveSet::filter / find apply test to the move of each result
    for nm in ("filter", "find"):
        fb = ck.body("weechess_core::moves::MoveSet::" + nm, "Q3")
        ok = False
        given = []
        for cn in prog.closures_of(fb.name):
            c = prog.body(cn)
            for bb, t in live_calls(c, names=(MQ + "test",)):
                ctb = TermBuilder(prog, c)
                a = [ctb.operand(x) for x in t["args"]]
                ok = a[1][0] == "field" and a[1][2] == "0"
                # ... and the query that is tested is the caller's query itself, not one derived from it (a relaxed retry selects a
                # legal move for the text of an illegal one)
                q = resolve_upvars(prog, c, a[0])[0]
                while isinstance(q, tuple) and q and q[0] in ("ref", "deref", "copy") and len(q) >= 2:
                    q = q[1]
                given.append(q)
        ck.req(ok, "Q3.moveset_" + nm, "MoveSet::" + nm, fb.where(), "MoveSet::%s does not test the query against the move of each result" % nm)
        ck.req(bool(given) and all(q == ("param", 2) for q in given), "Q3.given_query", "MoveSet::" + nm, fb.where(),
               "MoveSet::%s tests %s instead of the query it was given: text that matches no legal move may still select one" % (
                   nm, ", ".join(show(q) for q in given) or "nothing"), "the query parameter itself is tested")


def q6_writers(ck):
    prog = ck.prog
    letters = piece_letters(ck)
    lan = None
    for n, body in prog.bodies.items():
        if n.endswith("IntoNotation<weechess_core::moves::Move>>::into_notation") and "lan::Lan" in n:
            lan = body
    if lan is None:
        ck.missing("Q6", "Lan writer for Move")
        return
    # what is written, in output order: the Display arguments of the write!/println! calls, ordered by dominance of their
    # blocks (then by argument position) - never by source position
    def written(body):
        tb = TermBuilder(prog, body)
        dom = cfg.dominators(body)
        items = []
        for bb, t in live_calls(body, names=("core::fmt::rt::Argument::<'_>::new_display",)):
            items.append((bb, tb.operand(t["args"][0])))
        # stable topological order by dominance
        out = []
        rest = list(items)
        while rest:
            first = [x for x in rest if not any(y is not x and y[0] in dom.get(x[0], ()) and y[0] != x[0] for y in rest)]
            pick = min(first or rest, key=lambda x: x[0])
            out.append(pick)
            rest.remove(pick)
        return tb, out

    def kind_of(body, tb, t, seen=None):
        """origin / destination / promotion / None for a displayed term (following whole-local moves and call results)."""
        seen = seen if seen is not None else set()
        names = [x[1][len(MOVE):] for x in walk(t) if x[0] == "call" and x[1].startswith(MOVE)]
        for k in ("origin", "destination", "promotion"):
            if k in names:
                return k
        if t[0] == "var" and t[1] not in seen:
            seen.add(t[1])
            for d in tb.d.defs.get(t[1], []):
                dt = tb.call_term(d[2]) if d[0] == "call" else tb.rvalue(d[3])
                k = kind_of(body, tb, dt, seen)
                if k:
                    return k
        return None
    tbl, seq = written(lan)
    kinds = [kind_of(lan, tbl, t) for bb, t in seq]
    ck.req([k for k in kinds if k] == ["origin", "destination", "promotion"], "Q6.lan", "Lan", lan.where(), "LAN writer writes %s" % kinds)
    low = [callee_name(t) for bb, t in live_calls(lan) if callee_name(t).endswith("to_ascii_lowercase")]
    ck.req(bool(low), "Q6.lan_lowercase", "Lan", lan.where(), "LAN writer does not lower-case the promotion letter")
    # UCI bestmove writer: closure of Search::spawn that prints "bestmove"
    sp = "weechess_engine::uci::Search::spawn"
    w = None
    from .common import printed_texts
    for cn in prog.closures_of(sp):
        c = prog.body(cn)
        if any(txt and txt.startswith("bestmove") for _, _, _, txt in printed_texts(prog, c)):
            w = c
    if w is None:
        ck.fail("Q6.uci", "Search::spawn", "", "cannot find the bestmove printer")
        return
    tbw = TermBuilder(prog, w)
    pb = [(bb, t) for bb, t in live_calls(w, names=("std::io::stdio::_print",)) if any(
        txt and txt.startswith("bestmove") and b2 == bb for b2, _, _, txt in printed_texts(prog, w))]
    kinds = []
    if pb:
        a0 = tbw.operand(pb[0][1]["args"][0])
        for x in walk(a0):
            if x[0] == "call" and x[1] == "core::fmt::rt::Argument::<'_>::new_display":
                kinds.append(kind_of(w, tbw, x[2][0]))
    lan_print = [t for bb, t in live_calls(w) if callee_name(t).endswith("notation::into_notation") and "lan::Lan" in " ".join(t.get("generics", []))]
    if kinds == [None] and lan_print:
        # the bestmove text is produced by the Lan writer itself (checked above)
        ck.ok("Q6.uci", "bestmove printer", w.where(), "bestmove is printed through into_notation::<_, Lan>")
        ck.ok("Q6.uci_lowercase", "bestmove printer", w.where(), "lower-casing is the Lan writer's")
    else:
        ck.req(kinds == ["origin", "destination", "promotion"], "Q6.uci", "bestmove printer", w.where(), "the bestmove printer writes %s" % kinds)
        low = [callee_name(t) for bb, t in live_calls(w) if callee_name(t).endswith("to_ascii_lowercase")]
        ck.req(bool(low), "Q6.uci_lowercase", "bestmove printer", w.where(), "the bestmove printer does not lower-case the promotion letter")
    # the book branch of `go` prints through the LAN writer
    ex = ck.body("weechess_engine::uci::Client::exec", "Q6")
    uses_lan = any("lan::Lan" in " ".join(t.get("generics", [])) for bb, t in live_calls(ex) if callee_name(t).endswith("notation::into_notation"))
    ck.req(uses_lan, "Q6.book_branch", "Client::exec", ex.where(), "the book branch does not print its move through the LAN writer")
