#!/usr/bin/env python3
"""Entry point:  main.py <Cxx> [--tier quick|thorough] [--replay file] [--facts dir] | --warm

exit 0: every obligation discharged (or exactly listed in known_findings.json)
exit 1: VIOLATION property=<id> replay=<path>
exit 2: ERROR (tree does not build / extractor failed) - neither a pass nor a violation"""
import argparse
import importlib
import json
import os
import sys
import time

HERE = os.path.dirname(os.path.abspath(__file__))
sys.path.insert(0, HERE)

import engine  # noqa: E402
import extract  # noqa: E402
import facts  # noqa: E402

LEVELS = {
    "C08": "proof", "C09": "proof", "C15": "proof", "C18": "proof", "C19": "proof", "C20": "proof", "C14": "proof",
}


def main():
    ap = argparse.ArgumentParser()
    ap.add_argument("prop", nargs="?")
    ap.add_argument("--tier", default=os.environ.get("VERIF_TIER", "quick"))
    ap.add_argument("--replay")
    ap.add_argument("--facts", help="use an existing fact directory (variant kits)")
    ap.add_argument("--warm", action="store_true")
    ap.add_argument("--no-evidence", action="store_true")
    a = ap.parse_args()
    t0 = time.time()
    seed = int(os.environ.get("VERIF_SEED", "0") or 0)
    try:
        if a.warm:
            d, info = extract.ensure_facts("dev")
            print("facts ready:", d, info)
            return 0
        if a.facts:
            fdir, info = a.facts, {"hash": "scratch", "profile": "dev", "cached": True}
        else:
            fdir, info = extract.ensure_facts("dev")
    except extract.ExtractError as e:
        print("ERROR %s" % e)
        return 2
    pid = a.prop
    if not pid:
        ap.error("property id required")
    prog = facts.Program(fdir)
    mod = importlib.import_module("props.%s" % pid.lower())
    prog.inlining = getattr(mod, "INLINE", True)
    level = getattr(mod, "LEVEL", LEVELS.get(pid, "other"))
    ck = engine.Check(pid, prog, tier=a.tier, seed=seed, level=level)
    ck.facts_dir = fdir
    mod.run(ck)
    if a.tier == "thorough" and not a.facts:
        # (1) the same rules on the release configuration (no overflow checks, no debug assertions: different MIR)
        try:
            rdir, rinfo = extract.ensure_facts("release")
        except extract.ExtractError as e:
            print("ERROR %s" % e)
            return 2
        dev_prog = ck.prog
        rprog = facts.Program(rdir)
        rprog.inlining = getattr(mod, "INLINE", True)
        ck.begin_config("release", rprog)
        mod.run(ck)
        ck.prog = dev_prog
        info = dict(info, release=rinfo)
        if hasattr(mod, "run_thorough"):
            mod.run_thorough(ck)
        # (2) self-validation of the rules on the current tree: every breaking variant of the kit must be reported by the
        # named rule and every benign variant must stay silent.  Only meaningful when the tree itself passes; the result is
        # evidence about the checker, never a property violation.
        if not engine.split_known(ck)[0] and not a.replay:
            import variants
            jobs = int(os.environ.get("VERIF_JOBS", "8"))
            n_ok, n_bad, lines, n_skip = variants.run_kit(pid, verbose=False, jobs=jobs)
            ck.extra["selftest"] = {"variants_ok": n_ok, "variants_bad": n_bad, "variants_skipped": n_skip, "report": [l[:300] for l in lines]}
            print("selftest %s: %d variant expectation(s) met, %d not met, %d skipped" % (pid, n_ok, n_bad, n_skip))
            for l in lines:
                if l.startswith("BAD"):
                    print("  SELFTEST " + l[:300])
    if a.replay:
        with open(a.replay) as fh:
            want = {(o["rule"], o["key"]) for o in json.load(fh).get("failed", [])}
        still = [o for o in ck.failed() if (o.rule, o.key) in want]
        for o in still:
            print("  [still failing] %s %s %s: %s" % (o.rule, o.where, o.key, o.reason))
        if still:
            print("VIOLATION property=%s replay=%s" % (pid, a.replay))
            return 1
        print("OK replay: none of the %d recorded obligations fails on the current tree" % len(want))
        return 0
    cmd = "./check %s --tier %s" % (pid, a.tier)
    if a.no_evidence:
        bad, listed, _k = engine.split_known(ck)
        for o in listed:
            print("  KNOWN-FINDING %s %s" % (o.rule, o.key))
        for o in bad:
            print("  [%s] %s %s %s: %s" % (o.status, o.rule, o.where, o.key, o.reason))
        print("%s obligations=%d failed=%d" % (pid, len(ck.obs), len(bad)))
        return 1 if bad else 0
    return engine.finish(ck, t0, info, cmd)


if __name__ == "__main__":
    sys.exit(main())
