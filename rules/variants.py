#!/usr/bin/env python3
"""Self-validation: apply a patch to a scratch copy of /repo (outside /repo and /verif), extract
facts there and run property rules against it.

  variants.py run <patch> <Cxx> [<Cxx>...]     -> prints per property: FIRES / silent (+ failed obligations)
  variants.py kit <Cxx>                        -> runs variants/<Cxx>/*.patch with expectations from their header

Patch header lines (comments before the diff):
  # expect: fires C20 L4.disjoint      (breaking variant: the named rule must report)
  # expect: silent C20                 (benign variant: no obligation may fail)
"""
import glob
import os
import re
import shutil
import subprocess
import sys
import tempfile

HERE = os.path.dirname(os.path.abspath(__file__))
sys.path.insert(0, HERE)
import extract  # noqa: E402

VERIF = os.path.dirname(HERE)


def make_scratch(repo=extract.REPO):
    d = tempfile.mkdtemp(prefix="wcxv.", dir=os.environ.get("WCX_SCRATCH", "/tmp"))
    for name in os.listdir(repo):
        if name in (".git", "target", "_out"):
            continue
        src = os.path.join(repo, name)
        dst = os.path.join(d, name)
        if os.path.isdir(src):
            shutil.copytree(src, dst, symlinks=True)
        else:
            shutil.copy2(src, dst)
    return d


def apply_patch(scratch, patch):
    r = subprocess.run(["git", "apply", "--whitespace=nowarn", os.path.abspath(patch)], cwd=scratch,
                       stdout=subprocess.PIPE, stderr=subprocess.STDOUT, text=True)
    if r.returncode != 0:
        r2 = subprocess.run(["patch", "-p1", "-i", os.path.abspath(patch)], cwd=scratch,
                            stdout=subprocess.PIPE, stderr=subprocess.STDOUT, text=True)
        if r2.returncode != 0:
            raise RuntimeError("patch does not apply: %s\n%s\n%s" % (patch, r.stdout, r2.stdout))


def run_props(facts_dir, props):
    out = {}
    for p in props:
        r = subprocess.run([sys.executable, os.path.join(HERE, "main.py"), p, "--facts", facts_dir, "--no-evidence"],
                           stdout=subprocess.PIPE, stderr=subprocess.STDOUT, text=True)
        failed = [l.strip() for l in r.stdout.splitlines() if l.startswith("  [")]
        out[p] = (r.returncode, failed, r.stdout)
    return out


def run_variant(patch, props, keep=False):
    scratch = make_scratch()
    try:
        apply_patch(scratch, patch)
        try:
            facts = extract.extract_scratch(scratch)
        except extract.ExtractError as e:
            return {"_error": str(e)[-400:]}
        return run_props(facts, props)
    finally:
        if not keep:
            shutil.rmtree(scratch, ignore_errors=True)


def expectations(patch):
    ex = []
    with open(patch) as fh:
        for line in fh:
            if line.startswith("diff ") or line.startswith("--- "):
                break
            m = re.match(r"#\s*expect:\s*(fires|silent)\s+(C\d+)\s*(.*)", line)
            if m:
                ex.append((m.group(1), m.group(2), m.group(3).strip()))
    return ex


def run_kit(pid, verbose=True):
    """Returns (n_ok, n_bad, report lines)."""
    lines = []
    n_ok = n_bad = 0
    for patch in sorted(glob.glob(os.path.join(VERIF, "variants", pid, "*.patch"))):
        ex = expectations(patch)
        props = sorted({e[1] for e in ex}) or [pid]
        res = run_variant(patch, props)
        name = os.path.basename(patch)
        if "_error" in res:
            n_bad += 1
            lines.append("BAD  %s: scratch build failed: %s" % (name, res["_error"][-300:]))
            continue
        for kind, p, rule in ex:
            rc, failed, _ = res[p]
            if kind == "fires":
                hit = [f for f in failed if (not rule) or (" " + rule + " ") in (" " + f + " ") or ("] " + rule) in f]
                if rc == 1 and hit:
                    n_ok += 1
                    lines.append("ok   %s: %s fires %s (%d obligation(s)), e.g. %s" % (name, p, rule, len(hit), hit[0][:160]))
                else:
                    n_bad += 1
                    lines.append("BAD  %s: expected %s to fire %s; rc=%d failed=%s" % (name, p, rule, rc, failed[:3]))
            else:
                if rc == 0:
                    n_ok += 1
                    lines.append("ok   %s: %s silent" % (name, p))
                else:
                    n_bad += 1
                    lines.append("BAD  %s: expected %s silent; failed=%s" % (name, p, failed[:3]))
    if verbose:
        for l in lines:
            print(l)
    return n_ok, n_bad, lines


if __name__ == "__main__":
    if sys.argv[1] == "run":
        res = run_variant(sys.argv[2], sys.argv[3:])
        if "_error" in res:
            print("BUILD ERROR", res["_error"])
            sys.exit(2)
        for p, (rc, failed, out) in res.items():
            print("== %s: %s" % (p, "FIRES" if rc == 1 else ("silent" if rc == 0 else "rc=%d" % rc)))
            for f in failed:
                print("   ", f[:300])
            if rc not in (0, 1):
                print(out[-2000:])
    elif sys.argv[1] == "kit":
        ok, bad, _ = run_kit(sys.argv[2])
        print("kit %s: %d ok, %d bad" % (sys.argv[2], ok, bad))
        sys.exit(1 if bad else 0)
