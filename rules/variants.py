#!/usr/bin/env python3
"""Self-validation: apply a patch to a scratch copy of /repo (outside /repo and /verif), extract
facts there and run property rules against it.

  variants.py run <patch> <Cxx> [<Cxx>...]     -> prints per property: FIRES / silent (+ failed obligations)
  variants.py kit <Cxx>                        -> runs variants/<Cxx>/*.patch with expectations from their header

Patch header lines (comments before the diff):
  # expect: fires C20 L4.disjoint      (breaking variant: the named rule must report)
  # expect: silent C20                 (benign variant: no obligation may fail)
"""
import glob
import os
import re
import shutil
import subprocess
import sys
import tempfile

HERE = os.path.dirname(os.path.abspath(__file__))
sys.path.insert(0, HERE)
import extract  # noqa: E402

VERIF = os.path.dirname(HERE)


def make_scratch(repo=extract.REPO):
    d = tempfile.mkdtemp(prefix="wcxv.", dir=os.environ.get("WCX_SCRATCH", "/tmp"))
    for name in os.listdir(repo):
        if name in (".git", "target", "_out"):
            continue
        src = os.path.join(repo, name)
        dst = os.path.join(d, name)
        if os.path.isdir(src):
            shutil.copytree(src, dst, symlinks=True)
        else:
            shutil.copy2(src, dst)
    return d


def apply_patch(scratch, patch):
    r = subprocess.run(["git", "apply", "--whitespace=nowarn", os.path.abspath(patch)], cwd=scratch,
                       stdout=subprocess.PIPE, stderr=subprocess.STDOUT, text=True)
    if r.returncode != 0:
        r2 = subprocess.run(["patch", "-p1", "-i", os.path.abspath(patch)], cwd=scratch,
                            stdout=subprocess.PIPE, stderr=subprocess.STDOUT, text=True)
        if r2.returncode != 0:
            raise RuntimeError("patch does not apply: %s\n%s\n%s" % (patch, r.stdout, r2.stdout))
    # `git apply` can succeed without touching anything (for instance when the scratch directory happens to lie inside another work tree):
    # a patch that left every file it names identical to the original was not applied, and its verdict would be the base tree's
    touched = [l[6:].strip() for l in open(patch, errors="replace") if l.startswith("+++ b/")]
    changed = 0
    for rel in touched:
        a, b = os.path.join(scratch, rel), os.path.join(extract.REPO, rel)
        if os.path.exists(a) != os.path.exists(b) or (os.path.exists(a) and open(a, "rb").read() != open(b, "rb").read()):
            changed += 1
    if touched and not changed:
        raise RuntimeError("patch had no effect on the scratch copy: %s" % patch)


def run_props(facts_dir, props):
    out = {}
    for p in props:
        r = subprocess.run([sys.executable, os.path.join(HERE, "main.py"), p, "--facts", facts_dir, "--no-evidence"],
                           stdout=subprocess.PIPE, stderr=subprocess.STDOUT, text=True)
        failed = [l.strip() for l in r.stdout.splitlines() if l.startswith("  [")]
        out[p] = (r.returncode, failed, r.stdout)
    return out


class PatchDoesNotApply(Exception):
    pass


def run_variant(patch, props, keep=False, target=None):
    scratch = make_scratch()
    try:
        try:
            apply_patch(scratch, patch)
        except RuntimeError as e:
            return {"_skipped": str(e)[:300]}
        try:
            facts = extract.extract_scratch(scratch, target=target)
        except extract.ExtractError as e:
            return {"_error": str(e)[-400:]}
        return run_props(facts, props)
    finally:
        if not keep:
            shutil.rmtree(scratch, ignore_errors=True)


def expectations(patch):
    ex = []
    with open(patch) as fh:
        for line in fh:
            if line.startswith("diff ") or line.startswith("--- "):
                break
            m = re.match(r"#\s*expect:\s*(fires|silent)\s+(C\d+)\s*(.*)", line)
            if m:
                ex.append((m.group(1), m.group(2), m.group(3).strip()))
    return ex


def _judge(patch, pid, res):
    """-> list of (status, line) with status in ok/bad/skipped"""
    ex = expectations(patch)
    name = os.path.basename(patch)
    out = []
    if "_skipped" in res:
        return [("skipped", "skip %s: patch does not apply to the current tree" % name)]
    if "_error" in res:
        return [("skipped", "skip %s: the patched tree does not build: %s" % (name, res["_error"][-200:].replace("\n", " ")))]
    for kind, p, rule in ex:
        rc, failed, _ = res[p]
        if kind == "fires":
            hit = [f for f in failed if (not rule) or (" " + rule + " ") in (" " + f + " ") or ("] " + rule) in f]
            if rc == 1 and hit:
                out.append(("ok", "ok   %s: %s fires %s (%d obligation(s)), e.g. %s" % (name, p, rule, len(hit), hit[0][:160])))
            else:
                out.append(("bad", "BAD  %s: expected %s to fire %s; rc=%d failed=%s" % (name, p, rule, rc, failed[:3])))
        else:
            if rc == 0:
                out.append(("ok", "ok   %s: %s silent" % (name, p)))
            else:
                out.append(("bad", "BAD  %s: expected %s silent; failed=%s" % (name, p, failed[:3])))
    return out


def run_kit(pid, verbose=True, jobs=1):
    """Applies every variants/<pid>/*.patch to a scratch copy of the current tree, extracts facts and runs the rules.
    Returns (n_ok, n_bad, report lines, n_skipped)."""
    from concurrent.futures import ThreadPoolExecutor
    import queue
    patches = sorted(glob.glob(os.path.join(VERIF, "variants", pid, "*.patch")))
    slots = queue.Queue()
    for i in range(max(1, jobs)):
        slots.put(i)

    def one(patch):
        ex = expectations(patch)
        props = sorted({e[1] for e in ex}) or [pid]
        i = slots.get()
        try:
            tgt = extract.worker_target(i) if jobs > 1 else None
            res = run_variant(patch, props, target=tgt)
        finally:
            slots.put(i)
        return _judge(patch, pid, res)

    with ThreadPoolExecutor(max_workers=max(1, jobs)) as pool:
        results = list(pool.map(one, patches))
    lines = []
    n = {"ok": 0, "bad": 0, "skipped": 0}
    for r in results:
        for st, line in r:
            n[st] += 1
            lines.append(line)
    if verbose:
        for l in lines:
            print(l)
    return n["ok"], n["bad"], lines, n["skipped"]


if __name__ == "__main__":
    if sys.argv[1] == "run":
        res = run_variant(sys.argv[2], sys.argv[3:])
        if "_error" in res or "_skipped" in res:
            print("BUILD ERROR", res.get("_error") or res.get("_skipped"))
            sys.exit(2)
        for p, (rc, failed, out) in res.items():
            print("== %s: %s" % (p, "FIRES" if rc == 1 else ("silent" if rc == 0 else "rc=%d" % rc)))
            for f in failed:
                print("   ", f[:300])
            if rc not in (0, 1):
                print(out[-2000:])
    elif sys.argv[1] == "kit":
        jobs = int(sys.argv[3]) if len(sys.argv) > 3 else 1
        ok, bad, _, skipped = run_kit(sys.argv[2], jobs=jobs)
        print("kit %s: %d ok, %d bad, %d skipped" % (sys.argv[2], ok, bad, skipped))
        sys.exit(1 if bad else 0)
