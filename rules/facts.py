"""Fact base: loads the JSON fact files written by the extractor (one per compilation unit) and
offers indexed access to bodies (MIR), constants, ADTs and impls, plus a MIR pretty-printer.

Nothing in here looks at source text; file:line values are only carried along for reports."""
import glob
import json
import os
import re


class FactError(Exception):
    pass


WORKSPACE_CRATES = ("weechess_core", "weechess_engine", "weechess", "build_script_build")


def short(name):
    """Shorten fully qualified names for reports."""
    return name.replace("weechess_core::", "core::").replace("weechess_engine::", "engine::")


class Body:
    __slots__ = ("j", "name", "unit", "blocks", "locals", "_succ", "_pred", "crate")

    def __init__(self, j, unit):
        self.j = j
        self.name = j["name"]
        self.unit = unit
        self.crate = unit["crate"]
        self.blocks = j["blocks"]
        self.locals = j["locals"]
        self._succ = None
        self._pred = None

    # -- basic accessors
    @property
    def file(self):
        return self.j["loc"]["file"]

    @property
    def line(self):
        return self.j["loc"]["line"]

    def where(self, line=None):
        f = self.file
        f = re.sub(r"^.*?/(weechess-[a-z]+/)", r"\1", f)
        return "%s:%s" % (f, line if line is not None else self.line)

    @property
    def arg_count(self):
        return self.j["arg_count"]

    def local_name(self, l):
        return self.locals[l].get("name")

    def local_ty(self, l):
        return self.locals[l]["ty"]

    def term(self, bb):
        return self.blocks[bb]["term"]

    def stmts(self, bb):
        return self.blocks[bb]["stmts"]

    def calls(self):
        """Yield (bb, term) for every Call terminator (cleanup blocks included)."""
        for i, b in enumerate(self.blocks):
            t = b["term"]
            if t["k"] == "call":
                yield i, t

    def is_cleanup(self, bb):
        return self.blocks[bb].get("cleanup", False)

    # -- CFG
    def succ(self, bb, with_unwind=False):
        t = self.blocks[bb]["term"]
        k = t["k"]
        out = []
        if k == "goto":
            out = [t["target"]]
        elif k == "switch":
            out = [c[1] for c in t["cases"]] + [t["otherwise"]]
        elif k in ("drop", "assert"):
            out = [t["target"]]
        elif k == "call":
            if t["target"] is not None:
                out = [t["target"]]
        if with_unwind and t.get("unwind") is not None:
            out.append(t["unwind"])
        return out

    def successors(self):
        if self._succ is None:
            self._succ = [self.succ(i) for i in range(len(self.blocks))]
        return self._succ

    def predecessors(self):
        if self._pred is None:
            p = [[] for _ in self.blocks]
            for i, ss in enumerate(self.successors()):
                for s in ss:
                    p[s].append(i)
            self._pred = p
        return self._pred


def callee_name(t):
    """Best (most resolved) callee name of a call terminator, or None for indirect calls."""
    return t.get("resolved") or t.get("callee") or "<indirect>"


class Program:
    def __init__(self, facts_dir, include_tests=False):
        self.dir = facts_dir
        self.units = []
        files = sorted(glob.glob(os.path.join(facts_dir, "*.json")))
        if not files:
            raise FactError("no fact files in %s" % facts_dir)
        seen_units = set()
        for f in files:
            with open(f) as fh:
                u = json.load(fh)
            u["_file"] = f
            key = (u["crate"], u["is_test"])
            if u["is_test"] and not include_tests:
                continue
            if key in seen_units:
                # weechess_core is compiled twice (host build-dependency and target); the two
                # fact files are compared for equality by the harness, one is kept.
                u["_duplicate"] = True
                self.units.append(u)
                continue
            seen_units.add(key)
            u["_duplicate"] = False
            self.units.append(u)
        self.bodies = {}
        self.consts = {}
        self.adts = {}
        self.impls = []
        self.statics = {}
        for u in self.units:
            if u["_duplicate"]:
                continue
            for b in u["bodies"]:
                body = Body(b, u)
                # test units may redefine the same names; non-test units come first
                self.bodies.setdefault(body.name, body)
            for c in u["consts"]:
                self.consts.setdefault(c["name"], c)
            for a in u["adts"]:
                self.adts.setdefault(a["name"], a)
            for i in u["impls"]:
                i["_crate"] = u["crate"]
                self.impls.append(i)
            for s in u["statics"]:
                self.statics.setdefault(s["name"], s)
        self._children = None
        self.touched_bodies = set()   # names looked up by the rules of this run (evidence: what was analysed)
        self.touched_consts = set()
        self.inlining = False         # when set, body() splices helpers unknown to the rules into their callers (rules/inline.py)
        self._inlined = {}
        self.inlined_helpers = {}     # body name -> [helper names spliced in]

    # -- lookups (fail closed through Check.anchor, these return None when missing)
    def body(self, name):
        b = self.bodies.get(name)
        if b is not None:
            self.touched_bodies.add(name)
            if self.inlining:
                if name not in self._inlined:
                    import inline
                    j, names = inline.inline_body(self, b)
                    self._inlined[name] = Body(j, b.unit) if j is not None else b
                    if names:
                        self.inlined_helpers[name] = names
                return self._inlined[name]
        return b

    def raw_body(self, name):
        return self.bodies.get(name)

    def const(self, name):
        c = self.consts.get(name)
        if c is not None:
            self.touched_consts.add(name)
        return None if c is None else c["value"]

    def adt(self, name):
        return self.adts.get(name)

    def unit_names(self):
        return [(u["crate"], u["pkg"], u["is_test"], u["_duplicate"]) for u in self.units]

    def closures_of(self, name):
        """Closure bodies (transitively) defined inside the function `name`."""
        if self._children is None:
            ch = {}
            for b in self.bodies.values():
                p = b.j.get("direct_parent")
                if p:
                    ch.setdefault(p, []).append(b.name)
            self._children = ch
        out = []
        stack = [name] + (list(self.inlined_helpers.get(name, [])) if self.inlining else [])
        while stack:
            n = stack.pop()
            for c in self._children.get(n, []):
                if c not in out:
                    out.append(c)
                    stack.append(c)
        return sorted(out)

    def bodies_in_crates(self, crates):
        return [b for b in self.bodies.values() if b.crate in crates]

    def impls_of(self, self_ty=None, trait=None):
        out = []
        for i in self.impls:
            if self_ty is not None and i["self_ty"] != self_ty:
                continue
            if trait is not None and i["trait"] != trait:
                continue
            out.append(i)
        return out


# ------------------------------------------------------------------------------------------
# pretty printing (debugging aid and evidence samples)


def pp_place(body, p):
    s = "_%d" % p["l"]
    n = body.local_name(p["l"]) if body is not None else None
    if n:
        s = "%s{%s}" % (s, n)
    for e in p["p"]:
        if e == "*":
            s = "(*%s)" % s
        elif "f" in e:
            s = "%s.%s" % (s, e["f"])
        elif "index" in e:
            s = "%s[_%d]" % (s, e["index"])
        elif "cindex" in e:
            s = "%s[%s%d]" % (s, "-" if e["from_end"] else "", e["cindex"])
        elif "downcast" in e:
            s = "(%s as %s)" % (s, e["downcast"] or e["v"])
        elif "subslice" in e:
            s = "%s[%d..%s%d]" % (s, e["subslice"][0], "-" if e["from_end"] else "", e["subslice"][1])
        else:
            s = "%s.<%s>" % (s, list(e.keys())[0])
    return s


def pp_val(v, limit=80):
    s = json.dumps(v, separators=(",", ":"))
    return s if len(s) <= limit else s[: limit - 3] + "..."


def pp_const(c):
    if "fn" in c:
        f = c["fn"]
        return "fn:" + short(f.get("resolved") or f["$fn"])
    s = ""
    if "path" in c:
        s = short(c["path"])
        if "promoted" in c:
            s += "::promoted[%d]" % c["promoted"]
    if "val" in c:
        s += ("=" if s else "") + pp_val(c["val"])
    return "const " + (s or c["ty"])


def pp_op(body, o):
    if "copy" in o:
        return pp_place(body, o["copy"])
    if "move" in o:
        return "move " + pp_place(body, o["move"])
    if "const" in o:
        return pp_const(o["const"])
    return str(o)


def pp_rv(body, rv):
    if "use" in rv:
        return pp_op(body, rv["use"])
    if "ref" in rv:
        return "&%s%s" % ("mut " if rv["mutbl"] else "", pp_place(body, rv["ref"]))
    if "rawptr" in rv:
        return "&raw %s" % pp_place(body, rv["rawptr"])
    if "cast" in rv:
        return "%s as %s (%s)" % (pp_op(body, rv["cast"]), short(rv["to"]), rv["kind"])
    if "binop" in rv:
        return "%s(%s, %s)" % (rv["binop"], pp_op(body, rv["a"]), pp_op(body, rv["b"]))
    if "unop" in rv:
        return "%s(%s)" % (rv["unop"], pp_op(body, rv["a"]))
    if "discr" in rv:
        return "discriminant(%s)" % pp_place(body, rv["discr"])
    if "agg" in rv:
        k = rv["agg"]
        ops = ", ".join(pp_op(body, o) for o in rv["ops"])
        if "adt" in k:
            return "%s::%s{%s}" % (short(k["adt"]), k["variant"], ops)
        if "closure" in k:
            return "closure %s [%s]" % (short(k["closure"]), ops)
        if "array" in k:
            return "[%s]" % ops
        return "(%s)" % ops
    if "repeat" in rv:
        return "[%s; %s]" % (pp_op(body, rv["repeat"]), rv["count"])
    return str(rv)


def pp_term(body, t):
    k = t["k"]
    if k == "goto":
        return "goto -> bb%d" % t["target"]
    if k == "switch":
        cs = ", ".join("%d: bb%d" % (c[0], c[1]) for c in t["cases"])
        return "switchInt(%s) -> [%s, otherwise: bb%d]" % (pp_op(body, t["discr"]), cs, t["otherwise"])
    if k == "call":
        if "callee" in t:
            f = short(callee_name(t))
        else:
            f = "(indirect %s)" % pp_op(body, t["indirect"])
        return "%s = %s(%s) -> %s%s" % (
            pp_place(body, t["dest"]),
            f,
            ", ".join(pp_op(body, a) for a in t["args"]),
            ("bb%d" % t["target"]) if t["target"] is not None else "!",
            "" if not t.get("doc_panics") else "  [doc:# Panics]",
        )
    if k == "assert":
        return "assert(%s%s, %s(%s)) -> bb%d" % (
            "" if t["expected"] else "!",
            pp_op(body, t["cond"]),
            t["msg"],
            ", ".join(pp_op(body, o) for o in t["msg_ops"]),
            t["target"],
        )
    if k == "drop":
        return "drop(%s) -> bb%d" % (pp_place(body, t["place"]), t["target"])
    return k


def pp_body(body):
    out = ["fn %s  // %s" % (body.name, body.where())]
    for i, l in enumerate(body.locals):
        out.append("    let _%d: %s;%s" % (i, short(l["ty"]), (" // " + l["name"]) if l.get("name") else ""))
    for i, b in enumerate(body.blocks):
        out.append("  bb%d%s:" % (i, " (cleanup)" if b.get("cleanup") else ""))
        for s in b["stmts"]:
            if s["k"] == "assign":
                out.append("    %s = %s;  // L%d" % (pp_place(body, s["place"]), pp_rv(body, s["rv"]), s["line"]))
            else:
                out.append("    %s %s" % (s["k"], s.get("text", "")))
        t = b["term"]
        m = (" macros=" + ",".join(t["macros"])) if t.get("macros") else ""
        out.append("    %s;  // L%d%s" % (pp_term(body, t), t["line"], m))
    return "\n".join(out)


if __name__ == "__main__":
    import sys

    prog = Program(sys.argv[1], include_tests=True)
    if len(sys.argv) > 2:
        pat = re.compile(sys.argv[2])
        for n in sorted(prog.bodies):
            if pat.search(n):
                print(pp_body(prog.bodies[n]))
                print()
        for n in sorted(prog.consts):
            if pat.search(n):
                print("const", n, "=", pp_val(prog.consts[n]["value"], 4000))
    else:
        for u in prog.unit_names():
            print(u)
        print(len(prog.bodies), "bodies", len(prog.consts), "consts")
