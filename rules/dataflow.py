"""Dependence analysis on one MIR body: data dependences between locals (flow-insensitive,
all definitions), control dependences (from post-dominators) and backward slices.

Used for read-set / influence rules: "which accessor results can influence this value"."""
import cfg
from facts import callee_name


def operand_locals(o):
    """Locals read by an operand (including index locals of its place)."""
    if "const" in o:
        return set()
    p = o.get("copy") or o.get("move")
    return place_locals(p)


def place_locals(p):
    s = {p["l"]}
    for e in p["p"]:
        if isinstance(e, dict) and "index" in e:
            s.add(e["index"])
    return s


def rvalue_locals(rv):
    out = set()
    for k in ("use", "cast", "a", "b", "repeat"):
        if k in rv and isinstance(rv[k], dict):
            out |= operand_locals(rv[k])
    for k in ("ref", "rawptr", "discr"):
        if k in rv:
            out |= place_locals(rv[k])
    if "ops" in rv:
        for o in rv["ops"]:
            out |= operand_locals(o)
    return out


def postdominators(body):
    """pdom[b] = set of blocks that post-dominate b (normal edges; virtual exit after every return;
    blocks that cannot reach a return are given only themselves)."""
    succ = body.successors()
    n = len(body.blocks)
    rs = cfg.reachable_blocks(body)
    EXIT = n
    can_exit = set()
    # blocks that can reach a return
    pred = body.predecessors()
    stack = [b for b in rs if body.term(b)["k"] == "return"]
    while stack:
        b = stack.pop()
        if b in can_exit:
            continue
        can_exit.add(b)
        stack.extend(p for p in pred[b] if p in rs)
    nodes = set(can_exit)
    pdom = {b: set(nodes) | {EXIT} for b in nodes}
    pdom[EXIT] = {EXIT}
    changed = True
    while changed:
        changed = False
        for b in sorted(nodes, reverse=True):
            ss = [s for s in succ[b] if s in nodes]
            if body.term(b)["k"] == "return":
                ss = ss + [EXIT]
            new = None
            for s in ss:
                new = set(pdom[s]) if new is None else new & pdom[s]
            new = (new or set()) | {b}
            if new != pdom[b]:
                pdom[b] = new
                changed = True
    return pdom


def control_deps(body):
    """cd[b] = set of branch blocks (with a switch terminator) that b is control dependent on."""
    succ = body.successors()
    pdom = postdominators(body)
    cd = {b: set() for b in range(len(body.blocks))}
    for a in pdom:
        if a == len(body.blocks):
            continue
        if body.term(a)["k"] != "switch":
            continue
        for s in set(succ[a]):
            if s not in pdom:
                continue
            # walk up the post-dominator "tree" from s until reaching ipdom(a): every block that post-dominates s
            # but does not strictly post-dominate a is control dependent on a
            for x in pdom[s]:
                if x == len(body.blocks):
                    continue
                if x not in pdom[a] or x == a:
                    cd[x].add(a)
    return cd


class Deps:
    """Flow-insensitive dependence graph over locals of one body, with control dependence."""

    def __init__(self, body):
        self.body = body
        self.data = {}     # local -> set(locals)
        self.def_blocks = {}  # local -> set(blocks where defined)
        self.call_defs = {}   # local -> list of call terms (json) defining it (dest or &mut arg)
        self.cd = control_deps(body)
        rs = cfg.reachable_blocks(body)
        # which locals hold a (mutable) reference to which local: r -> {targets}
        self.points_to = {}
        for bb, blk in enumerate(body.blocks):
            if bb not in rs:
                continue
            for s in blk["stmts"]:
                if s["k"] != "assign":
                    continue
                rv = s["rv"]
                dst = s["place"]["l"]
                if "ref" in rv and not s["place"]["p"]:
                    tgt = rv["ref"]
                    if tgt["p"] and tgt["p"][0] == "*":
                        # reborrow of what tgt.l points to
                        self.points_to.setdefault(dst, set()).update(self.points_to.get(tgt["l"], {tgt["l"]}))
                    else:
                        self.points_to.setdefault(dst, set()).add(tgt["l"])
                elif "use" in rv and not s["place"]["p"]:
                    for l in operand_locals(rv["use"]):
                        if l in self.points_to:
                            self.points_to.setdefault(dst, set()).update(self.points_to[l])
        for bb, blk in enumerate(body.blocks):
            if bb not in rs:
                continue
            for s in blk["stmts"]:
                if s["k"] != "assign":
                    continue
                dst = s["place"]
                srcs = rvalue_locals(s["rv"]) | (place_locals(dst) - {dst["l"]})
                targets = {dst["l"]}
                if dst["p"] and dst["p"][0] == "*":
                    targets |= self.points_to.get(dst["l"], set())
                for t in targets:
                    self._add(t, srcs, bb)
            t = blk["term"]
            if t["k"] == "call":
                srcs = set()
                for a in t["args"]:
                    srcs |= operand_locals(a)
                if "indirect" in t:
                    srcs |= operand_locals(t["indirect"])
                # values behind references passed in also flow into the result
                for l in list(srcs):
                    srcs |= self.points_to.get(l, set())
                d = t["dest"]
                targets = {d["l"]}
                # &mut arguments: the pointee may be updated from all arguments
                for a in t["args"]:
                    for l in operand_locals(a):
                        ty = body.local_ty(l)
                        if ty.startswith("&mut "):
                            targets |= self.points_to.get(l, set())
                for x in targets:
                    self._add(x, srcs, bb)
                    self.call_defs.setdefault(x, []).append(t)

    def _add(self, dst, srcs, bb):
        self.data.setdefault(dst, set()).update(srcs)
        self.def_blocks.setdefault(dst, set()).add(bb)

    def branch_locals(self, bb):
        t = self.body.term(bb)
        return operand_locals(t["discr"]) if t["k"] == "switch" else set()

    def closure(self, locals_, blocks=(), control=True):
        """All locals that can influence `locals_` (data + control), starting also from the control
        dependences of `blocks`."""
        seen = set()
        seen_blocks = set()
        work = list(locals_)
        bwork = list(blocks)
        while work or bwork:
            while bwork:
                b = bwork.pop()
                if b in seen_blocks:
                    continue
                seen_blocks.add(b)
                for c in self.cd.get(b, ()):
                    work.extend(self.branch_locals(c))
                    bwork.append(c)
            if work:
                l = work.pop()
                if l in seen:
                    continue
                seen.add(l)
                work.extend(self.data.get(l, ()))
                if control:
                    bwork.extend(self.def_blocks.get(l, ()))
        return seen

    def calls_in_closure(self, locals_, blocks=()):
        cl = self.closure(locals_, blocks)
        out = []
        seen = set()
        for l in cl:
            for t in self.call_defs.get(l, ()):
                if id(t) not in seen:
                    seen.add(id(t))
                    out.append(t)
        return out, cl
