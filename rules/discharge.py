"""Discharge rules for panic sites (shared by C14 and C04)."""
import json
import os
import re

from facts import callee_name
from terms import TermBuilder, show, walk, const_value, thaw
import panics
from props.common import live_calls, guards_of

VERIF = os.path.dirname(os.path.dirname(os.path.abspath(__file__)))
ARRAYMAP_INDEX = ("<weechess_core::utils::ArrayMap<I, T> as core::ops::index::Index<I>>::index",
                  "<weechess_core::utils::ArrayMap<I, T> as core::ops::index::IndexMut<I>>::index_mut",
                  "weechess_core::utils::ArrayMap::<I, T>::index")


def body_fingerprint(prog, name):
    """Hash of the multiset of callees of a function (its name and line numbers do not enter): used only to recognise a reviewed
    function after a rename."""
    import hashlib
    from facts import callee_name
    b = prog.raw_body(name) if hasattr(prog, "raw_body") else prog.body(name)
    if b is None:
        return None
    names = sorted(callee_name(t) if "callee" in t else "<indirect>" for bb, t in b.calls())
    return hashlib.sha1("\n".join(names).encode()).hexdigest()[:16]


def site_subject(prog, body_name, site, tb=None):
    """What an `unwrap`/`expect`-like call site unwraps: the receiver expression with parameters by name.  Lets a review follow the
    expression when it is moved into a helper of the same impl / module (call sites carry no operands in their key)."""
    if site.term.get("k") != "call" or not site.term.get("args"):
        return None
    b = prog.raw_body(body_name) if hasattr(prog, "raw_body") else prog.body(body_name)
    if b is None:
        return None
    tb = tb or TermBuilder(prog, site.body)
    try:
        return panics._named(site.body, show(tb.operand(site.term["args"][0])))
    except Exception:
        return None


def load_reviewed(pid):
    with open(os.path.join(VERIF, "tables", "reviewed_sites.json")) as fh:
        return {(e["function"], e["key"]): e for e in json.load(fh)["sites"] if pid in e["properties"]}


def regex_groups(pattern):
    """Capturing groups of a regex literal: index -> always participates in a match?  (None if the pattern cannot be analysed)"""
    groups = {}
    stack = []   # open groups: dict(index or None, has_alt_before=False)
    idx = 0
    i = 0
    n = len(pattern)
    order = []
    while i < n:
        c = pattern[i]
        if c == "\\":
            i += 2
            continue
        if c == "[":
            j = i + 1
            if j < n and pattern[j] == "^":
                j += 1
            if j < n and pattern[j] == "]":
                j += 1
            while j < n and pattern[j] != "]":
                if pattern[j] == "\\":
                    j += 1
                j += 1
            i = j + 1
            continue
        if c == "(":
            cap = True
            if pattern[i + 1:i + 2] == "?":
                cap = False
                if pattern[i + 2:i + 3] == "P" or pattern[i + 2:i + 3] == "<" and pattern[i + 3:i + 4] not in ("=", "!"):
                    cap = True
            g = {"index": None, "alt": False, "start": i}
            if cap:
                idx += 1
                g["index"] = idx
            stack.append(g)
            order.append(g)
            i += 1
            continue
        if c == "|":
            if stack:
                stack[-1]["alt"] = True
            else:
                return None  # top-level alternation: nothing participates always
            i += 1
            continue
        if c == ")":
            if not stack:
                return None
            g = stack.pop()
            # quantifier allowing zero repetitions?
            q = pattern[i + 1:i + 2]
            opt = q in ("?", "*")
            if q == "{":
                m = re.match(r"\{(\d+)", pattern[i + 1:])
                opt = bool(m) and int(m.group(1)) == 0
            g["optional"] = opt
            g["parents"] = [x for x in stack]
            i += 1
            continue
        i += 1
    if stack:
        return None
    for g in order:
        if g["index"] is None:
            continue
        always = not g.get("optional")
        for p in g.get("parents", []):
            # inside an alternation branch of a parent, or inside an optional parent -> may not participate
            if p["alt"]:
                always = False
        groups[g["index"]] = always
    # parents' optional flags are only known after they close: second pass
    for g in order:
        if g["index"] is None:
            continue
        for p in g.get("parents", []):
            if p.get("optional") or p["alt"]:
                groups[g["index"]] = False
    return groups


def discharge_call(prog, ctx, site, fa, tb, eng):
    """Callee-specific rules. Returns reason string if discharged, else None."""
    t = site.term
    n = site.desc
    st = fa.state_before_term(site.bb)
    args = [fa.read_op(st, a) for a in t["args"]] if st is not None else []
    base = n.split("::")[-1]
    if n in panics.BENIGN:
        return "benign: " + panics.BENIGN[n]
    # an adapter's own implementation of an Iterator method (`<Filter<I, P> as Iterator>::count`) is the trait method for this purpose
    m_ = re.match(r"^<.* as core::iter::traits::iterator::Iterator>::(\w+)$", n)
    if m_ and m_.group(1) != "next" and ("core::iter::traits::iterator::Iterator::" + m_.group(1)) in panics.BENIGN and "ops::range::Range" not in n:
        return "benign: " + panics.BENIGN["core::iter::traits::iterator::Iterator::" + m_.group(1)]
    # thread::Builder::spawn(..).unwrap()/expect(): what thread::spawn does internally
    if base in ("unwrap", "expect") and t["args"]:
        recv = tb.operand(t["args"][0])
        if recv[0] == "call" and recv[1].startswith("std::thread::builder::Builder::spawn"):
            return "benign: " + panics.BENIGN["std::thread::spawn"]
    if n.startswith("std::thread::builder::Builder::spawn") or n.startswith("std::thread::builder::Builder::name") or n == "std::thread::builder::Builder::new":
        return "benign: configures / creates a thread and returns Err on failure; no panic of its own"
    if n.startswith("std::thread::functions::spawn") or n.startswith("std::thread::spawn"):
        return "benign: " + panics.BENIGN["std::thread::spawn"]
    if base in ("get_or_init", "get_or_try_init") and ("once_lock::OnceLock" in n or "cell::once::OnceCell" in n) and len(t["args"]) == 2:
        # panics only when the initialiser re-enters the same cell: the initialiser (a closure defined here) cannot reach this function again
        c = tb.operand(t["args"][1])
        if c[0] == "agg" and str(c[1]).startswith("closure:"):
            from callgraph import CallGraph
            cg = ctx.get("_cg")
            if cg is None:
                cg = ctx["_cg"] = CallGraph(prog)
            seen, _ext, _ind = cg.reachable([c[1][len("closure:"):]])
            from props.common import fn_of
            home = fn_of(prog, site.body).name
            if home not in seen and site.body.name not in seen:
                return "the initialiser cannot re-enter this cell (it does not reach %s)" % home.split("::")[-1]
    if base in ("to_digit", "from_digit", "from_str_radix") and len(args) >= 2 and args[1] is not None and not args[1].empty() and 2 <= args[1].lo and args[1].hi <= 36:
        return "radix %s is within 2..=36" % args[1]
    if ("ops::index::Index" in n or "ops::index::IndexMut" in n):
        g = " ".join(t.get("generics", []))
        # x[..]
        if "core::ops::range::RangeFull" in g:
            return "indexing with RangeFull never panics"
        # regex captures by group number
        if "regex::regex::string::Captures" in n:
            body = site.body
            gi = args[1] if len(args) > 1 else None
            pats = ctx.setdefault("regex_patterns", regex_patterns_of(prog, body))
            if gi is not None and gi.lo == gi.hi and len(pats) == 1:
                groups = regex_groups(pats[0])
                if groups is not None and groups.get(gi.lo) is True:
                    return "capture group %d of the regex literal exists and participates in every match" % gi.lo
                if gi.lo == 0:
                    return "group 0 is the whole match"
            return None
        # slice[k..] dominated by a successful first()/len guard on the same slice
        if "core::ops::range::RangeFrom<usize>" in g and st is not None:
            start = None
            rng_t = tb.operand(t["args"][1])
            if rng_t[0] == "agg" and rng_t[1].endswith("RangeFrom::RangeFrom"):
                start = const_value(rng_t[2][0])
            recv = tb.operand(t["args"][0])
            if start == 1:
                for c, tk in guards_of(prog, site.body, site.bb, tb):
                    x = c[1] if c[0] == "discr" else c
                    if x[0] == "call" and x[1].endswith("<impl [T]>::first") and x[2][0] == recv and tk == 1:
                        return "slice is non-empty on this path (first() matched Some) so [1..] is in bounds"
            if start == 0:
                return "[0..] never panics"
        # Vec/slice index by usize with an interval bound
        if len(args) > 1 and args[1] is not None and args[0] is None:
            pass
        return None
    if base in ("unwrap", "expect"):
        r0 = tb.operand(t["args"][0])
        if r0[0] == "call" and ("rwlock::RwLock" in r0[1] or "mutex::Mutex" in r0[1]) and r0[1].split("::")[-1] in ("read", "write", "lock", "into_inner", "get_mut"):
            return ("lock poisoning requires a panic while the guard is held; the guarded sections are the TranspositionTable operations whose own panic sites "
                    "are part of this inventory")
    if base in ("unwrap", "expect") and st is not None:
        # unwrap of a guarded constructor applied to an argument inside its success range
        r = tb.operand(t["args"][0])
        if r[0] == "call":
            sr = eng.success_range(r[1])
            if sr is not None:
                # find the call terminator defining the receiver to evaluate its argument interval
                rl = t["args"][0].get("move") or t["args"][0].get("copy")
                for d in fa.defs.get(rl["l"], []) if rl else []:
                    if "call" in d:
                        st2 = fa.state_before_term(_bb_of_call(site.body, d["call"]))
                        if st2 is not None:
                            av = fa.read_op(st2, d["call"]["args"][sr[0] - 1])
                            if av is not None and av.within(sr[1]):
                                return "argument %s lies inside the success range %s of %s" % (av, sr[1], r[1].split("::")[-2])
    return None


def _bb_of_call(body, term):
    for bb, blk in enumerate(body.blocks):
        if blk["term"] is term:
            return bb
    return None


def regex_patterns_of(prog, body):
    """String literals passed to Regex::new in the body."""
    out = []
    tb = TermBuilder(prog, body)
    for bb, t in live_calls(body):
        if callee_name(t).endswith("Regex::new"):
            a = tb.operand(t["args"][0])
            for x in walk(a):
                if x[0] == "const":
                    v = thaw(x[2])
                    if isinstance(v, dict) and "$str" in v:
                        out.append(v["$str"])
    return out




def rem_by_len(prog, body, tb, index_term, container_term):
    """index term is `x % len(container)` of the very container that is indexed."""
    t = index_term
    if t[0] == "cast":
        t = t[2]
    if t[0] == "bin" and t[1] == "Rem" and t[3][0] == "call" and t[3][1].endswith("::len") and t[3][2]:
        c = t[3][2][0]
        return c == container_term or any(x == container_term for x in walk(c)) or any(x == c for x in walk(container_term))
    return False


def discharge_site(prog, ctx, n, site, fa, tb, eng, reviewed, used_reviews, numeric_out_of_scope=False):
    """-> (category, reason) or (None, None)."""
    if not fa.feasible(site.bb):
        return "infeasible", "block unreachable under the interval analysis"
    if site.kind.startswith("assert"):
        if n in ARRAYMAP_INDEX:
            return "array_key", "ArrayMap access: index < COUNT by rule AK"
        cv = fa.cond_value(site.bb)
        if cv is not None and cv == site.term["expected"]:
            return "interval", "assert condition decided by intervals"
        if site.term["msg"] == "BoundsCheck":
            idx = tb.operand(site.term["msg_ops"][1])
            # container: the place indexed in the block the assert jumps to / the len operand
            ln = tb.operand(site.term["msg_ops"][0])
            for x in walk(idx):
                if x[0] == "bin" and x[1] == "Rem" and x[3][0] == "call" and x[3][1].endswith("::len"):
                    tgt = site.body.blocks[site.term["target"]]
                    cont = x[3][2][0]
                    # the indexed place must be (a projection of) the container whose len() is the modulus
                    for s_ in tgt["stmts"]:
                        if s_["k"] == "assign":
                            for pl in [s_["place"]] + ([s_["rv"]["ref"]] if "ref" in s_["rv"] else []):
                                if any(isinstance(e, dict) and "index" in e for e in pl["p"]):
                                    base = {"l": pl["l"], "p": [e for e in pl["p"] if not (isinstance(e, dict) and "index" in e)]}
                                    if any(y == tb.place(base) for y in walk(cont)) or tb.place(base) == cont:
                                        return "rule", "index is reduced modulo the length of the indexed container"
        if site.term["msg"] in ("RemainderByZero", "DivisionByZero"):
            pass
        if numeric_out_of_scope and site.term["msg"].split(":")[0] in ("Overflow", "OverflowNeg") and site.term["msg"] not in ("Overflow:Shl", "Overflow:Shr"):
            ty = ""
            for o in site.term["msg_ops"]:
                p = o.get("copy") or o.get("move")
                if p is not None:
                    ty = fa.op_ty(o)
            op = site.term["msg"].split(":")[-1]
            if op in ("Add", "Mul", "OverflowNeg") or (op == "Sub" and ty.startswith("i")):
                return "numeric", "arithmetic overflow of a score/counter: numeric, not decided by this property's rules"
    elif site.kind == "call":
        r = discharge_call(prog, ctx, site, fa, tb, eng)
        if r is not None:
            return ("benign" if r.startswith("benign") else "rule"), r
        nme = site.desc
        # Vec/slice index whose index term is `x % container.len()`
        if ("ops::index::Index" in nme or "ops::index::IndexMut" in nme) and len(site.term["args"]) == 2:
            cont = tb.operand(site.term["args"][0])
            idx = tb.operand(site.term["args"][1])
            if rem_by_len(prog, site.body, tb, idx, cont):
                return "rule", "index is reduced modulo the length of the indexed container"
            # the same through a helper whose result is a single expression of its parameters
            if idx[0] == "call" and idx[1] in prog.bodies:
                from terms import inline_call
                it = inline_call(prog, idx[1], idx[2], 1)
                if it is not None and rem_by_len(prog, site.body, tb, it, cont):
                    return "rule", "index (result of %s) is reduced modulo the length of the indexed container" % idx[1].split("::")[-1]
        if nme.endswith("Rng::gen_range"):
            a = tb.operand(site.term["args"][1])
            if a[0] == "agg" and "Range" in a[1]:
                lo, hi = const_value(a[2][0]), const_value(a[2][1])
                if isinstance(lo, int) and isinstance(hi, int) and (lo < hi or (lo == hi and "Inclusive" in a[1])):
                    return "rule", "gen_range over the constant non-empty range %s..%s" % (lo, hi)
            if a[0] == "call" and a[1].endswith("RangeInclusive::<Idx>::new"):
                lo, hi = const_value(a[2][0]), const_value(a[2][1])
                if not (isinstance(lo, int) and isinstance(hi, int)):
                    # bounds written with named constants / negation: fold them
                    from terms import fold, CannotFold
                    try:
                        lo, hi = fold(a[2][0], {}), fold(a[2][1], {})
                    except CannotFold:
                        pass
                if isinstance(lo, int) and isinstance(hi, int) and lo <= hi:
                    return "rule", "gen_range over the constant non-empty range %s..=%s" % (lo, hi)
        if "sync::atomic::Atomic" in nme and nme.split("::")[-1] in ("load", "store"):
            ords = [show(tb.operand(a)) for a in site.term["args"][1:]]
            # load panics for Release / AcqRel, store panics for Acquire / AcqRel
            valid = ("Relaxed", "SeqCst", "Acquire") if nme.split("::")[-1] == "load" else ("Relaxed", "SeqCst", "Release")
            if ords and any(v in ords[-1] for v in valid) and "AcqRel" not in ords[-1]:
                return "rule", "atomic %s with ordering %s is valid" % (nme.split("::")[-1], ords[-1])
    elif site.kind.startswith("explicit:debug_assert"):
        # debug_assert!/debug_assert_eq!/debug_assert_ne!: a development check of an internal invariant, compiled out of the
        # release configuration (which the thorough tier analyses as well).  If its condition can be false the defect is where the
        # invariant is broken, not here; the site is listed in the evidence and not held against the property.
        return "debug_only", "debug assertion (absent from the release configuration)"
    elif site.kind.startswith("explicit"):
        # an explicit panic taken only on the poisoned outcome of acquiring a lock: same argument as lock().unwrap()
        def lock_call(x):
            return x[0] == "call" and ("rwlock::RwLock" in x[1] or "mutex::Mutex" in x[1]) and \
                x[1].split("::")[-1] in ("read", "write", "lock", "try_read", "try_write", "try_lock")
        err_of = None       # the lock call whose Err outcome guards the site
        poisoned = False
        for c, tk in guards_of(prog, site.body, site.bb, tb):
            if c[0] != "discr":
                continue
            x = c[1]
            if lock_call(x) and tk == 1:
                err_of = x
            # switch over the TryLockError inside Err: Poisoned is variant 0, WouldBlock variant 1
            if x[0] == "field" and x[2] == "0" and x[1][0] == "variant" and x[1][2] == "Err" and lock_call(x[1][1]) and tk == 0:
                poisoned = True
        if err_of is not None and (poisoned or not err_of[1].split("::")[-1].startswith("try_")):
            return "rule", ("panic only on a poisoned lock: poisoning requires a panic while the guard is held; the guarded sections are the "
                            "TranspositionTable operations whose own panic sites are part of this inventory")
    if (n, site.key) in reviewed:
        used_reviews.add((n, site.key))
        return "reviewed", reviewed[(n, site.key)]["reason"]
    # the reviewed function was renamed: its old name is gone, a function of the same impl / module has the same site key and the very same
    # multiset of callees as recorded at review time
    scope_ = n.rsplit("::", 1)[0]
    for (fn, key), e in reviewed.items():
        if key == site.key and fn != n and fn not in prog.bodies and fn.rsplit("::", 1)[0] == scope_ and e.get("fingerprint") and \
                e["fingerprint"] == body_fingerprint(prog, n):
            used_reviews.add((fn, key))
            return "reviewed", "(review of %s, renamed, body unchanged) %s" % (fn.split("::")[-1], e["reason"])
    # an unwrap-like site whose receiver expression is the one reviewed in a sibling function of the same impl / module (moved into or
    # out of a helper): the review speaks about that expression
    if site.kind == "call" or site.kind.startswith("call"):
        subj = site_subject(prog, n, site, tb)
        if subj and len(subj) > 12 and "(" in subj:
            for (fn, key), e in reviewed.items():
                if e.get("subject") == subj and key.split("#")[0] == site.key.split("#")[0] and fn != n and fn.rsplit("::", 1)[0] == scope_:
                    used_reviews.add((fn, key))
                    return "reviewed", "(review of the same unwrapped expression in %s, same impl) %s" % (fn.split("::")[-1], e["reason"])
    if site.kind.startswith("assert"):
        # the same checked expression (kind + operands, parameters by name) reviewed in a sibling function of the same impl /
        # module: the site was moved (helper extraction); `unwrap`-like call sites carry no operands and are never transferred
        scope = n.rsplit("::", 1)[0]
        for (fn, key), e in reviewed.items():
            if key == site.key and fn != n and fn.rsplit("::", 1)[0] == scope and "{closure" not in fn and "{closure" not in n:
                used_reviews.add((fn, key))
                return "reviewed", "(review of the same expression in %s, same impl) %s" % (fn.split("::")[-1], e["reason"])
    return None, None
