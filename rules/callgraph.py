"""A1 whole-workspace call graph and A6 effect classification of external callees."""
import json
import os

from facts import callee_name

VERIF = os.path.dirname(os.path.dirname(os.path.abspath(__file__)))


def load_effects():
    with open(os.path.join(VERIF, "tables", "effects.json")) as fh:
        return json.load(fh)


class CallGraph:
    def __init__(self, prog):
        self.prog = prog
        self.edges = {}      # body name -> set(callee names, workspace or external): calls and closures created
        self.refs = {}       # body name -> set(fn names used as values: fn pointers, fn items passed along, fn tables in constants)
        self.sites = {}      # body name -> list of (callee name, term, bb)
        self.addr_taken = set()  # workspace fns used as values (fn pointers / fn items passed around)
        self.indirect = {}   # body name -> list of indirect call terms
        for b in prog.bodies.values():
            es = set()
            rs_ = set()
            ss = []
            for bb, blk in enumerate(b.blocks):
                if blk.get("cleanup"):
                    # cleanup blocks only run drops on unwind; calls there are drop glue
                    pass
                for s in blk["stmts"]:
                    if s["k"] != "assign":
                        continue
                    rv = s["rv"]
                    if "agg" in rv and "closure" in rv["agg"]:
                        es.add(rv["agg"]["closure"])
                    self._fn_consts(rv, rs_)
                t = blk["term"]
                if t["k"] == "call":
                    if "callee" in t:
                        n = callee_name(t)
                        es.add(n)
                        ss.append((n, t, bb))
                        if "shim_fn" in t:
                            f = t["shim_fn"]
                            es.add(f.get("resolved") or f["$fn"])
                    else:
                        self.indirect.setdefault(b.name, []).append(t)
                    for a in t["args"]:
                        if "const" in a and "fn" in a["const"]:
                            f = a["const"]["fn"]
                            n = f.get("resolved") or f["$fn"]
                            # a fn item handed to a (generic) callee is called by it: an edge from here.  It is a zero-sized value of
                            # its own type, statically dispatched - not a possible target of indirect calls elsewhere, which need a
                            # fn POINTER (a reifying cast or a table of pointers: see _fn_consts / consts)
                            es.add(n)
            # closures defined inside are reachable from their parent
            for c in prog.closures_of(b.name):
                if prog.body(c).j.get("direct_parent") == b.name:
                    es.add(c)
            self.edges[b.name] = es
            self.refs[b.name] = rs_
            self.sites[b.name] = ss
        # function pointers stored in constants
        for c in prog.consts.values():
            self._fn_values(c["value"], self.addr_taken)

    def _fn_consts(self, rv, es):
        for k in ("use", "cast", "a", "b"):
            o = rv.get(k)
            if isinstance(o, dict) and "const" in o:
                c = o["const"]
                if "fn" in c:
                    n = c["fn"].get("resolved") or c["fn"]["$fn"]
                    es.add(n)
                    if k == "cast":
                        self.addr_taken.add(n)      # reified into a fn pointer
                elif "val" in c:
                    self._fn_values(c["val"], es)
        for o in rv.get("ops", []):
            if "const" in o:
                c = o["const"]
                if "fn" in c:
                    n = c["fn"].get("resolved") or c["fn"]["$fn"]
                    es.add(n)
                    self.addr_taken.add(n)
                elif "val" in c:
                    self._fn_values(c["val"], es)

    def _fn_values(self, v, out):
        if isinstance(v, dict):
            if "$fn" in v:
                out.add(v["$fn"])
            for x in v.values():
                self._fn_values(x, out)
        elif isinstance(v, list):
            for x in v:
                self._fn_values(x, out)

    def reachable(self, roots, stop=(), fn_values=None):
        """(workspace bodies reachable, external callees reached, has_indirect_calls).
        Call edges and closure creations are always followed.  Function *values* (fn pointers in constants or operands) are
        followed only once an indirect call is reachable: then every fn value referenced from the reachable set, and every
        address-taken workspace fn, is a possible target (over-approximation)."""
        stop = set(stop)
        seen = set()
        ext = {}
        indirect = False
        stack = list(roots)
        refs_pending = set()
        while True:
            while stack:
                n = stack.pop()
                if n in seen or n in stop:
                    continue
                if n not in self.prog.bodies:
                    continue
                seen.add(n)
                if n in self.indirect:
                    indirect = True
                refs_pending |= self.refs.get(n, set())
                for e in self.edges.get(n, ()):
                    if e in self.prog.bodies:
                        stack.append(e)
                    else:
                        ext.setdefault(e, set()).add(n)
            if indirect:
                # fn_values: the caller knows the table the reachable indirect calls go through (it must then check that no other
                # function of the result has an indirect call)
                pool = (refs_pending | self.addr_taken) if fn_values is None else (refs_pending | set(fn_values))
                more = [x for x in pool if x in self.prog.bodies and x not in seen and x not in stop]
                if more:
                    stack.extend(more)
                    continue
            break
        return seen, ext, indirect

    def path_to(self, roots, target_pred):
        """One call path root -> ... -> f where target_pred(f) (f may be external). For diagnostics."""
        from collections import deque
        q = deque((r, (r,)) for r in roots)
        seen = set()
        while q:
            n, path = q.popleft()
            if n in seen:
                continue
            seen.add(n)
            for e in sorted(self.edges.get(n, ())):
                if target_pred(e):
                    return path + (e,)
                if e in self.prog.bodies and e not in seen:
                    q.append((e, path + (e,)))
        return None


def strip_generic_args(name):
    """`HashMap::<K, V, S, A>::iter` -> `HashMap::iter`; `<HashMap<K, V> as IntoIterator>::into_iter` -> `<HashMap as IntoIterator>::into_iter`."""
    out = []
    i = 0
    n = len(name)
    while i < n:
        c = name[i]
        if c == "<":
            prev = name[i - 1] if i > 0 else ""
            if prev.isalnum() or prev == "_" or name[max(0, i - 2):i] == "::":
                depth = 0
                while i < n:
                    if name[i] == "<":
                        depth += 1
                    elif name[i] == ">" and (i == 0 or name[i - 1] != "-"):
                        depth -= 1
                        if depth == 0:
                            break
                    i += 1
                i += 1
                if out and out[-1] == ":" and len(out) > 1 and out[-2] == ":":
                    out = out[:-2]
                continue
        out.append(c)
        i += 1
    return "".join(out)


def classify(name, effects):
    """Effect classes of an external callee: substring match on the generic-free path."""
    out = set()
    norm = strip_generic_args(name)
    for cls, pats in effects["classes"].items():
        for p in pats:
            if p in norm:
                out.add(cls)
    return out
