"""Constant folding of a loop-free function through its decision table: the symbolic paths are
enumerated once (symex), then for given argument values the path whose recorded conditions all
fold to the taken edges is selected and its return term folded.  Only expressions are evaluated;
functions with loops or unknown calls raise CannotFold (fail closed)."""
from symex import SymEx
from terms import fold, CannotFold


class FnModel:
    def __init__(self, prog, body, inline_depth=2, calls=None, max_paths=2000):
        self.body = body
        self.calls = calls
        self.paths = SymEx(prog, body, inline_depth=inline_depth, max_paths=max_paths).run()

    def __call__(self, *args):
        chosen, env = self.select(*args)
        return fold(chosen.ret, env, self.calls)

    def select(self, *args):
        """The path whose recorded conditions all hold for these arguments (and the environment)."""
        env = {i + 1: a for i, a in enumerate(args)}
        chosen = None
        for p in self.paths:
            ok = True
            for c, taken in p.conds:
                v = fold(c, env, self.calls)
                if isinstance(v, bool):
                    v = int(v)
                if isinstance(taken, tuple):
                    if v in taken[1]:
                        ok = False
                        break
                elif v != taken:
                    ok = False
                    break
            if ok:
                if chosen is not None:
                    raise CannotFold("two feasible paths in " + self.body.name)
                chosen = p
        if chosen is None:
            raise CannotFold("no feasible path in %s for %r" % (self.body.name, args))
        return chosen, env
