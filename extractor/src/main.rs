// wcx: fact extractor for the weechess-rs static verification framework.
//
// A rustc_private driver meant to be injected as RUSTC_WORKSPACE_WRAPPER.  For every workspace
// crate it compiles it writes ONE json fact file ($WCX_OUT/<crate>.<pid>.json) holding
//   * every fn / assoc fn / closure body as MIR (mir-opt-level=0), with resolved callees,
//     field names on place projections, decoded constants, macro backtraces and source lines;
//   * every non-generic const item, const-evaluated and decoded by layout;
//   * ADTs (fields, variants, discriminants, Freeze), impls (trait, derived?), unsafe counts.
// Compilation then continues normally so that dependants get their metadata.
#![feature(rustc_private)]
#![feature(box_patterns)]
#![allow(clippy::all)]

extern crate rustc_abi;
extern crate rustc_data_structures;
extern crate rustc_driver;
extern crate rustc_hir;
extern crate rustc_interface;
extern crate rustc_middle;
extern crate rustc_session;
extern crate rustc_span;

mod json;
use json::J;

use rustc_abi::{FieldsShape, Size, TagEncoding, VariantIdx, Variants};
use rustc_driver::Compilation;
use rustc_hir::def::DefKind;
use rustc_hir::def_id::{DefId, LocalDefId, LOCAL_CRATE};
use rustc_interface::interface::Compiler;
use rustc_middle::mir::interpret::{AllocId, Allocation, GlobalAlloc, Scalar};
use rustc_middle::mir::{self, ConstValue};
use rustc_middle::ty::print::{with_no_trimmed_paths, with_no_visible_paths, with_resolve_crate_name};
use rustc_middle::ty::{self, Instance, Ty, TyCtxt, TypeVisitableExt, TypingEnv};
use rustc_span::{ExpnKind, Span};
use std::collections::HashMap;

struct Cb;

impl rustc_driver::Callbacks for Cb {
    fn after_analysis<'tcx>(&mut self, _c: &Compiler, tcx: TyCtxt<'tcx>) -> Compilation {
        let pkg = std::env::var("CARGO_PKG_NAME").unwrap_or_default();
        if let Ok(out) = std::env::var("WCX_OUT") {
            if pkg.starts_with("weechess") || std::env::var("WCX_ALL").is_ok() {
                let j = Ex::new(tcx).dump_crate(&pkg);
                let name = tcx.crate_name(LOCAL_CRATE).to_string();
                let path = format!("{}/{}.{}.json", out, name, std::process::id());
                let tmp = format!("{}.tmp", path);
                std::fs::write(&tmp, j.to_string()).expect("wcx: cannot write fact file");
                std::fs::rename(&tmp, &path).expect("wcx: cannot rename fact file");
            }
        }
        Compilation::Continue
    }
}

fn main() {
    let mut args: Vec<String> = std::env::args().collect();
    // Wrapper mode: cargo passes the real rustc as argv[1].
    if args.len() > 1 && !args[1].starts_with('-') && (args[1].ends_with("rustc") || args[1].contains("/rustc")) {
        args.remove(1);
    }
    rustc_driver::run_compiler(&args, &mut Cb);
}

struct Ex<'tcx> {
    tcx: TyCtxt<'tcx>,
    doc_panics: HashMap<DefId, bool>,
}

fn pname<'tcx>(tcx: TyCtxt<'tcx>, did: DefId) -> String {
    with_no_visible_paths!(with_no_trimmed_paths!(with_resolve_crate_name!(tcx.def_path_str(did))))
}

fn inst_name<'tcx>(tcx: TyCtxt<'tcx>, inst: Instance<'tcx>) -> String {
    match inst.def {
        ty::InstanceKind::ClosureOnceShim { .. } | ty::InstanceKind::FnPtrShim(..) => {
            if let Some(t) = inst.args.types().next() {
                match t.kind() {
                    ty::Closure(d, _) | ty::FnDef(d, _) => return pname(tcx, *d),
                    _ => {}
                }
            }
            pname(tcx, inst.def_id())
        }
        _ => pname(tcx, inst.def_id()),
    }
}

fn tname<'tcx>(ty: Ty<'tcx>) -> String {
    with_no_visible_paths!(with_no_trimmed_paths!(with_resolve_crate_name!(format!("{}", ty))))
}

impl<'tcx> Ex<'tcx> {
    fn new(tcx: TyCtxt<'tcx>) -> Self {
        Ex { tcx, doc_panics: HashMap::new() }
    }

    fn loc(&self, span: Span) -> J {
        let sm = self.tcx.sess.source_map();
        let mut sp = span;
        if sp.from_expansion() {
            sp = sp.source_callsite();
        }
        let lo = sm.lookup_char_pos(sp.lo());
        let file = format!("{}", lo.file.name.prefer_local_unconditionally());
        J::obj(vec![("file", J::S(file)), ("line", J::I(lo.line as i128)), ("col", J::I(lo.col.0 as i128))])
    }

    fn macros(&self, span: Span) -> J {
        let mut v = Vec::new();
        for d in span.macro_backtrace() {
            match d.kind {
                ExpnKind::Macro(_, name) => v.push(J::S(name.to_string())),
                ExpnKind::Desugaring(k) => v.push(J::S(format!("desugar:{:?}", k))),
                ExpnKind::AstPass(k) => v.push(J::S(format!("astpass:{:?}", k))),
                _ => {}
            }
        }
        J::A(v)
    }

    fn has_doc_panics(&mut self, did: DefId) -> bool {
        if let Some(b) = self.doc_panics.get(&did) {
            return *b;
        }
        let mut found = false;
        for a in self.tcx.get_all_attrs(did) {
            if let Some(s) = a.doc_str() {
                if s.as_str().contains("# Panics") {
                    found = true;
                    break;
                }
            }
        }
        self.doc_panics.insert(did, found);
        found
    }

    fn dump_crate(&mut self, pkg: &str) -> J {
        let tcx = self.tcx;
        let args: Vec<String> = std::env::args().collect();
        let is_test = args.iter().any(|a| a == "--test");
        let mut bodies = Vec::new();
        let mut consts = Vec::new();
        for did in tcx.hir_body_owners() {
            match tcx.def_kind(did) {
                DefKind::Fn | DefKind::AssocFn | DefKind::Closure => {
                    bodies.push(self.dump_body(did));
                }
                DefKind::Const { .. } | DefKind::AssocConst { .. } | DefKind::Static { .. } => {
                    if let Some(c) = self.dump_const_item(did) {
                        consts.push(c);
                    }
                }
                _ => {}
            }
        }
        let mut adts = Vec::new();
        let mut impls = Vec::new();
        let mut statics = Vec::new();
        for did in tcx.hir_crate_items(()).definitions() {
            match tcx.def_kind(did) {
                DefKind::Struct | DefKind::Enum | DefKind::Union => adts.push(self.dump_adt(did)),
                DefKind::Impl { .. } => impls.push(self.dump_impl(did)),
                DefKind::Static { .. } => {
                    let ty = tcx.type_of(did).instantiate_identity().skip_norm_wip();
                    statics.push(J::obj(vec![
                        ("name", J::S(pname(tcx, did.to_def_id()))),
                        ("ty", J::S(tname(ty))),
                        ("loc", self.loc(tcx.def_span(did))),
                    ]));
                }
                _ => {}
            }
        }
        J::obj(vec![
            ("crate", J::S(tcx.crate_name(LOCAL_CRATE).to_string())),
            ("pkg", J::S(pkg.to_string())),
            ("is_test", J::B(is_test)),
            ("crate_types", J::A(tcx.crate_types().iter().map(|c| J::S(format!("{:?}", c))).collect())),
            ("opt_level", J::S(format!("{:?}", tcx.sess.opts.optimize))),
            ("debug_assertions", J::B(tcx.sess.opts.debug_assertions)),
            ("overflow_checks", J::B(tcx.sess.overflow_checks())),
            ("bodies", J::A(bodies)),
            ("consts", J::A(consts)),
            ("adts", J::A(adts)),
            ("impls", J::A(impls)),
            ("statics", J::A(statics)),
        ])
    }

    // ------------------------------------------------------------------ ADTs / impls

    fn dump_adt(&mut self, did: LocalDefId) -> J {
        let tcx = self.tcx;
        let adt = tcx.adt_def(did);
        let generics = tcx.generics_of(did);
        let mut variants = Vec::new();
        for (vidx, v) in adt.variants().iter_enumerated() {
            let mut fields = Vec::new();
            for f in v.fields.iter() {
                let fty = tcx.type_of(f.did).instantiate_identity().skip_norm_wip();
                fields.push(J::obj(vec![
                    ("name", J::S(f.name.to_string())),
                    ("ty", J::S(tname(fty))),
                    ("vis", J::S(format!("{:?}", f.vis))),
                    ("public", J::B(f.vis.is_public())),
                ]));
            }
            let discr = if adt.is_enum() {
                J::I(adt.discriminant_for_variant(tcx, vidx).val as i128)
            } else {
                J::Null
            };
            variants.push(J::obj(vec![
                ("name", J::S(v.name.to_string())),
                ("discr", discr),
                ("fields", J::A(fields)),
            ]));
        }
        let ty = tcx.type_of(did).instantiate_identity().skip_norm_wip();
        let env = TypingEnv::non_body_analysis(tcx, did);
        let freeze = if generics.own_params.iter().all(|p| matches!(p.kind, ty::GenericParamDefKind::Lifetime)) {
            J::B(ty.is_freeze(tcx, env))
        } else {
            J::Null
        };
        J::obj(vec![
            ("name", J::S(pname(tcx, did.to_def_id()))),
            ("kind", J::S(if adt.is_enum() { "enum" } else if adt.is_union() { "union" } else { "struct" }.to_string())),
            ("variants", J::A(variants)),
            ("freeze", freeze),
            ("loc", self.loc(tcx.def_span(did))),
        ])
    }

    fn dump_impl(&mut self, did: LocalDefId) -> J {
        let tcx = self.tcx;
        let self_ty = tcx.type_of(did).instantiate_identity().skip_norm_wip();
        let tr = tcx.impl_opt_trait_ref(did).map(|t| t.skip_binder());
        let mut items = Vec::new();
        for it in tcx.associated_items(did).in_definition_order() {
            items.push(J::obj(vec![
                ("name", J::S(it.name().to_string())),
                ("path", J::S(pname(tcx, it.def_id))),
                ("kind", J::S(format!("{:?}", it.tag()))),
            ]));
        }
        let safety = match tr {
            Some(_) => format!("{:?}", tcx.impl_trait_header(did).safety),
            None => "Safe".to_string(),
        };
        J::obj(vec![
            ("self_ty", J::S(tname(self_ty))),
            ("trait", match tr { Some(t) => J::S(pname(tcx, t.def_id)), None => J::Null }),
            ("trait_ref", match tr { Some(t) => J::S(with_no_visible_paths!(with_no_trimmed_paths!(with_resolve_crate_name!(format!("{}", t))))), None => J::Null }),
            ("derived", J::B(tcx.is_automatically_derived(did.to_def_id()))),
            ("safety", J::S(safety)),
            ("items", J::A(items)),
            ("loc", self.loc(tcx.def_span(did))),
        ])
    }

    // ------------------------------------------------------------------ const items

    fn dump_const_item(&mut self, did: LocalDefId) -> Option<J> {
        let tcx = self.tcx;
        let generics = tcx.generics_of(did);
        if generics.requires_monomorphization(tcx) {
            return None;
        }
        let ty = tcx.type_of(did).instantiate_identity().skip_norm_wip();
        let is_static = matches!(tcx.def_kind(did), DefKind::Static { .. });
        let val = if is_static {
            match tcx.eval_static_initializer(did.to_def_id()) {
                Ok(alloc) => {
                    let mut budget = 200_000usize;
                    self.decode_mem(alloc.inner(), Size::ZERO, ty, &mut budget, 0)
                }
                Err(_) => J::Null,
            }
        } else {
            match tcx.const_eval_poly(did.to_def_id()) {
                Ok(v) => {
                    let mut budget = 200_000usize;
                    self.decode_value(v, ty, &mut budget)
                }
                Err(_) => J::Null,
            }
        };
        Some(J::obj(vec![
            ("name", J::S(pname(tcx, did.to_def_id()))),
            ("ty", J::S(tname(ty))),
            ("static", J::B(is_static)),
            ("value", val),
            ("loc", self.loc(tcx.def_span(did))),
        ]))
    }

    // ------------------------------------------------------------------ value decoding

    fn decode_value(&mut self, v: ConstValue, ty: Ty<'tcx>, budget: &mut usize) -> J {
        let tcx = self.tcx;
        match v {
            ConstValue::ZeroSized => self.decode_zst(ty),
            ConstValue::Scalar(Scalar::Int(i)) => {
                let size = i.size();
                let bits = i.to_bits(size);
                let bytes: Vec<u8> = bits.to_le_bytes()[..size.bytes() as usize].to_vec();
                let alloc = Allocation::from_bytes_byte_aligned_immutable(bytes, ());
                self.decode_mem(&alloc, Size::ZERO, ty, budget, 0)
            }
            ConstValue::Scalar(Scalar::Ptr(ptr, _)) => {
                let (prov, off) = ptr.prov_and_relative_offset();
                self.decode_pointee(prov.alloc_id(), off, ty, None, budget, 0)
            }
            ConstValue::Slice { alloc_id, meta } => self.decode_pointee(alloc_id, Size::ZERO, ty, Some(meta), budget, 0),
            ConstValue::Indirect { alloc_id, offset } => match tcx.global_alloc(alloc_id) {
                GlobalAlloc::Memory(a) => self.decode_mem(a.inner(), offset, ty, budget, 0),
                other => J::obj(vec![("$opaque", J::S(format!("{:?}", other)))]),
            },
        }
    }

    fn decode_zst(&mut self, ty: Ty<'tcx>) -> J {
        let tcx = self.tcx;
        match ty.kind() {
            ty::FnDef(d, args) => self.fn_ref(*d, args, TypingEnv::fully_monomorphized()),
            ty::Closure(d, _) => J::obj(vec![("$fn", J::S(pname(tcx, *d)))]),
            _ => J::obj(vec![("$zst", J::S(tname(ty)))]),
        }
    }

    fn fn_ref(&mut self, d: DefId, args: ty::GenericArgsRef<'tcx>, env: TypingEnv<'tcx>) -> J {
        let tcx = self.tcx;
        let mut o = vec![("$fn", J::S(pname(tcx, d)))];
        if let Ok(Some(inst)) = Instance::try_resolve(tcx, env, d, args) {
            o.push(("resolved", J::S(inst_name(tcx, inst))));
        }
        J::obj(o)
    }

    /// `ty` is a pointer-like type (reference / raw pointer / fn pointer); the pointer points at (alloc, off).
    fn decode_pointee(&mut self, alloc_id: AllocId, off: Size, ty: Ty<'tcx>, meta: Option<u64>, budget: &mut usize, depth: usize) -> J {
        let tcx = self.tcx;
        if depth > 12 {
            return J::obj(vec![("$opaque", J::S("depth".into()))]);
        }
        match tcx.global_alloc(alloc_id) {
            GlobalAlloc::Function { instance } => J::obj(vec![("$fn", J::S(inst_name(tcx, instance)))]),
            GlobalAlloc::Static(d) => J::obj(vec![("$static", J::S(pname(tcx, d)))]),
            GlobalAlloc::Memory(a) => {
                let inner = match ty.kind() {
                    ty::Ref(_, t, _) => *t,
                    ty::RawPtr(t, _) => *t,
                    _ => return J::obj(vec![("$opaque", J::S(tname(ty)))]),
                };
                match inner.kind() {
                    ty::Str => {
                        let n = meta.unwrap_or(0) as usize;
                        let bytes = a.inner().inspect_with_uninit_and_ptr_outside_interpreter(off.bytes() as usize..off.bytes() as usize + n);
                        J::obj(vec![("$str", J::S(String::from_utf8_lossy(bytes).to_string()))])
                    }
                    ty::Slice(elem) => {
                        let n = meta.unwrap_or(0);
                        let el = match tcx.layout_of(TypingEnv::fully_monomorphized().as_query_input(*elem)) {
                            Ok(l) => l,
                            Err(_) => return J::obj(vec![("$opaque", J::S(tname(ty)))]),
                        };
                        let mut v = Vec::new();
                        for i in 0..n {
                            if *budget == 0 {
                                v.push(J::obj(vec![("$truncated", J::B(true))]));
                                break;
                            }
                            v.push(self.decode_mem(a.inner(), off + el.size * i, *elem, budget, depth + 1));
                        }
                        J::A(v)
                    }
                    _ => J::obj(vec![("$ref", self.decode_mem(a.inner(), off, inner, budget, depth + 1))]),
                }
            }
            other => J::obj(vec![("$opaque", J::S(format!("{:?}", other)))]),
        }
    }

    fn read_uint(&self, alloc: &Allocation, off: Size, size: Size) -> Option<u128> {
        let lo = off.bytes() as usize;
        let hi = lo + size.bytes() as usize;
        if hi > alloc.len() {
            return None;
        }
        let bytes = alloc.inspect_with_uninit_and_ptr_outside_interpreter(lo..hi);
        let mut v: u128 = 0;
        for (i, b) in bytes.iter().enumerate() {
            v |= (*b as u128) << (8 * i);
        }
        Some(v)
    }

    fn decode_mem(&mut self, alloc: &Allocation, off: Size, ty: Ty<'tcx>, budget: &mut usize, depth: usize) -> J {
        let tcx = self.tcx;
        if *budget == 0 || depth > 12 {
            return J::obj(vec![("$truncated", J::B(true))]);
        }
        *budget -= 1;
        let env = TypingEnv::fully_monomorphized();
        let layout = match tcx.layout_of(env.as_query_input(ty)) {
            Ok(l) => l,
            Err(_) => return J::obj(vec![("$opaque", J::S(tname(ty)))]),
        };
        let size = layout.size;
        let rd = |s: &Self, o: Size, sz: Size| s.read_uint(alloc, o, sz);
        match ty.kind() {
            ty::Bool => rd(self, off, size).map(|v| J::B(v != 0)).unwrap_or(J::Null),
            ty::Char => rd(self, off, size)
                .and_then(|v| char::from_u32(v as u32))
                .map(|c| J::obj(vec![("$char", J::S(c.to_string()))]))
                .unwrap_or(J::Null),
            ty::Uint(_) => rd(self, off, size).map(|v| J::U(v)).unwrap_or(J::Null),
            ty::Int(_) => rd(self, off, size)
                .map(|v| {
                    let bits = size.bits() as u32;
                    let sv = if bits == 128 { v as i128 } else {
                        let shift = 128 - bits;
                        ((v << shift) as i128) >> shift
                    };
                    J::I(sv)
                })
                .unwrap_or(J::Null),
            ty::Float(ft) => rd(self, off, size)
                .map(|v| match ft {
                    ty::FloatTy::F32 => J::F(f32::from_bits(v as u32) as f64),
                    ty::FloatTy::F64 => J::F(f64::from_bits(v as u64)),
                    _ => J::Null,
                })
                .unwrap_or(J::Null),
            ty::Tuple(tys) => {
                let mut v = Vec::new();
                for (i, t) in tys.iter().enumerate() {
                    let fo = layout.fields.offset(i);
                    v.push(self.decode_mem(alloc, off + fo, t, budget, depth + 1));
                }
                J::A(v)
            }
            ty::Array(elem, _) => {
                let (stride, count) = match &layout.fields {
                    FieldsShape::Array { stride, count } => (*stride, *count),
                    _ => return J::obj(vec![("$opaque", J::S(tname(ty)))]),
                };
                let mut v = Vec::new();
                for i in 0..count {
                    if *budget == 0 {
                        v.push(J::obj(vec![("$truncated", J::B(true))]));
                        break;
                    }
                    v.push(self.decode_mem(alloc, off + stride * i, *elem, budget, depth + 1));
                }
                J::A(v)
            }
            ty::Adt(def, args) if def.is_struct() => {
                let mut o: Vec<(String, J)> = vec![("$ty".to_string(), J::S(pname(tcx, def.did())))];
                let v = def.non_enum_variant();
                for (i, f) in v.fields.iter().enumerate() {
                    let fty = f.ty(tcx, args);
                    let fty = tcx.normalize_erasing_regions(env, ty::Unnormalized::new_wip(fty));
                    let fl = match tcx.layout_of(env.as_query_input(fty)) {
                        Ok(l) => l,
                        Err(_) => continue,
                    };
                    if fl.size.bytes() == 0 {
                        continue;
                    }
                    let fo = layout.fields.offset(i);
                    o.push((f.name.to_string(), self.decode_mem(alloc, off + fo, fty, budget, depth + 1)));
                }
                J::O(o)
            }
            ty::Adt(def, args) if def.is_enum() => {
                let vidx: Option<VariantIdx> = match &layout.variants {
                    Variants::Single { index } => Some(*index),
                    Variants::Empty => None,
                    Variants::Multiple { tag, tag_encoding, tag_field, .. } => {
                        let tsize = tag.size(&tcx);
                        let to = layout.fields.offset(tag_field.as_usize());
                        match rd(self, off + to, tsize) {
                            None => None,
                            Some(tagv) => match tag_encoding {
                                TagEncoding::Direct => {
                                    let mut found = None;
                                    for (i, d) in def.discriminants(tcx) {
                                        let mask = if tsize.bits() == 128 { u128::MAX } else { (1u128 << tsize.bits()) - 1 };
                                        if d.val & mask == tagv {
                                            found = Some(i);
                                        }
                                    }
                                    found
                                }
                                TagEncoding::Niche { untagged_variant, .. } if alloc.provenance().ptrs().get(&(off + to)).is_some() => {
                                    // the niche lives in a pointer and the bytes carry provenance: a real pointer, i.e. the dataful variant
                                    Some(*untagged_variant)
                                }
                                TagEncoding::Niche { untagged_variant, niche_variants, niche_start } => {
                                    let mask = if tsize.bits() == 128 { u128::MAX } else { (1u128 << tsize.bits()) - 1 };
                                    let rel = tagv.wrapping_sub(*niche_start) & mask;
                                    let lo = niche_variants.start().as_u32() as u128;
                                    let hi = niche_variants.end().as_u32() as u128;
                                    if rel <= hi - lo {
                                        Some(VariantIdx::from_u32((lo + rel) as u32))
                                    } else {
                                        Some(*untagged_variant)
                                    }
                                }
                            },
                        }
                    }
                };
                let Some(vidx) = vidx else {
                    return J::obj(vec![("$opaque", J::S(tname(ty)))]);
                };
                let v = def.variant(vidx);
                let mut o: Vec<(String, J)> = vec![
                    ("$ty".to_string(), J::S(pname(tcx, def.did()))),
                    ("$variant".to_string(), J::S(v.name.to_string())),
                    ("$discr".to_string(), J::I(def.discriminant_for_variant(tcx, vidx).val as i128)),
                ];
                let vl = layout.for_variant(&ty::layout::LayoutCx::new(tcx, env), vidx);
                for (i, f) in v.fields.iter().enumerate() {
                    let fty = f.ty(tcx, args);
                    let fty = tcx.normalize_erasing_regions(env, ty::Unnormalized::new_wip(fty));
                    let fl = match tcx.layout_of(env.as_query_input(fty)) {
                        Ok(l) => l,
                        Err(_) => continue,
                    };
                    if fl.size.bytes() == 0 {
                        continue;
                    }
                    let fo = vl.fields.offset(i);
                    o.push((f.name.to_string(), self.decode_mem(alloc, off + fo, fty, budget, depth + 1)));
                }
                J::O(o)
            }
            ty::Ref(_, inner, _) | ty::RawPtr(inner, _) => {
                let psize = tcx.data_layout.pointer_size();
                let prov = alloc.provenance().ptrs().get(&off).copied();
                let addr = rd(self, off, psize).unwrap_or(0);
                let meta = if matches!(inner.kind(), ty::Str | ty::Slice(_)) {
                    rd(self, off + psize, psize).map(|v| v as u64)
                } else {
                    None
                };
                match prov {
                    Some(p) => self.decode_pointee(p.alloc_id(), Size::from_bytes(addr as u64), ty, meta, budget, depth + 1),
                    None => J::obj(vec![("$rawaddr", J::U(addr))]),
                }
            }
            ty::FnPtr(..) => {
                let prov = alloc.provenance().ptrs().get(&off).copied();
                match prov {
                    Some(p) => match tcx.global_alloc(p.alloc_id()) {
                        GlobalAlloc::Function { instance } => J::obj(vec![("$fn", J::S(inst_name(tcx, instance)))]),
                        other => J::obj(vec![("$opaque", J::S(format!("{:?}", other)))]),
                    },
                    None => J::Null,
                }
            }
            ty::FnDef(..) | ty::Closure(..) => self.decode_zst(ty),
            _ => J::obj(vec![("$opaque", J::S(tname(ty)))]),
        }
    }

    // ------------------------------------------------------------------ MIR bodies

    fn dump_body(&mut self, did: LocalDefId) -> J {
        let tcx = self.tcx;
        let def_id = did.to_def_id();
        let body = tcx.optimized_mir(def_id);
        let env = TypingEnv::post_analysis(tcx, did);
        let kind = tcx.def_kind(did);
        let mut o: Vec<(&str, J)> = Vec::new();
        o.push(("name", J::S(pname(tcx, def_id))));
        o.push(("kind", J::S(format!("{:?}", kind))));
        o.push(("loc", self.loc(tcx.def_span(did))));
        o.push(("macros", self.macros(tcx.def_span(did))));
        o.push(("arg_count", J::I(body.arg_count as i128)));
        if matches!(kind, DefKind::Fn | DefKind::AssocFn) {
            o.push(("public", J::B(tcx.visibility(def_id).is_public())));
            let sig = tcx.fn_sig(def_id).instantiate_identity().skip_norm_wip().skip_binder();
            o.push(("unsafe_fn", J::B(!sig.safety().is_safe())));
            if let Some(ai) = tcx.opt_associated_item(def_id) {
                o.push(("impl_of", match tcx.impl_of_assoc(def_id) { Some(i) => {
                    let self_ty = tcx.type_of(i).instantiate_identity().skip_norm_wip();
                    J::obj(vec![
                        ("self_ty", J::S(tname(self_ty))),
                        ("trait", match tcx.impl_opt_trait_ref(i) { Some(t) => J::S(pname(tcx, t.skip_binder().def_id)), None => J::Null }),
                        ("derived", J::B(tcx.is_automatically_derived(i))),
                    ])
                }, None => J::Null }));
                o.push(("has_self", J::B(ai.is_method())));
            }
        } else {
            o.push(("parent", J::S(pname(tcx, tcx.typeck_root_def_id(def_id)))));
            o.push(("direct_parent", J::S(pname(tcx, tcx.parent(def_id)))));
        }
        o.push(("unsafe_blocks", J::I(self.count_unsafe_blocks(did) as i128)));

        // locals
        let mut names: HashMap<usize, String> = HashMap::new();
        let mut dbg = Vec::new();
        for vdi in body.var_debug_info.iter() {
            match &vdi.value {
                mir::VarDebugInfoContents::Place(p) => {
                    if p.projection.is_empty() {
                        names.entry(p.local.as_usize()).or_insert(vdi.name.to_string());
                    }
                    dbg.push(J::obj(vec![("name", J::S(vdi.name.to_string())), ("place", self.place(body, *p))]));
                }
                mir::VarDebugInfoContents::Const(c) => {
                    dbg.push(J::obj(vec![("name", J::S(vdi.name.to_string())), ("const", self.constant(c, env))]));
                }
            }
        }
        let mut locals = Vec::new();
        for (l, d) in body.local_decls.iter_enumerated() {
            let mut lo = vec![("ty", J::S(tname(d.ty)))];
            if let Some(n) = names.get(&l.as_usize()) {
                lo.push(("name", J::S(n.clone())));
            }
            lo.push(("mut", J::B(d.mutability.is_mut())));
            locals.push(J::obj(lo));
        }
        o.push(("locals", J::A(locals)));
        o.push(("debug", J::A(dbg)));

        let mut blocks = Vec::new();
        for (_bb, data) in body.basic_blocks.iter_enumerated() {
            let mut stmts = Vec::new();
            for s in data.statements.iter() {
                if let Some(j) = self.stmt(body, env, s) {
                    stmts.push(j);
                }
            }
            let term = self.term(body, env, data.terminator());
            blocks.push(J::obj(vec![("stmts", J::A(stmts)), ("term", term), ("cleanup", J::B(data.is_cleanup))]));
        }
        o.push(("blocks", J::A(blocks)));
        J::obj(o)
    }

    fn count_unsafe_blocks(&self, did: LocalDefId) -> usize {
        use rustc_hir::intravisit::{self, Visitor};
        struct V(usize);
        impl<'v> Visitor<'v> for V {
            fn visit_block(&mut self, b: &'v rustc_hir::Block<'v>) {
                if let rustc_hir::BlockCheckMode::UnsafeBlock(rustc_hir::UnsafeSource::UserProvided) = b.rules {
                    self.0 += 1;
                }
                intravisit::walk_block(self, b);
            }
        }
        let tcx = self.tcx;
        // Closures are visited as part of their parent body; count only on the owner itself.
        if matches!(tcx.def_kind(did), DefKind::Closure) {
            return 0;
        }
        match tcx.hir_maybe_body_owned_by(did) {
            Some(body) => {
                let mut v = V(0);
                v.visit_body(body);
                v.0
            }
            None => 0,
        }
    }

    fn place(&mut self, body: &mir::Body<'tcx>, p: mir::Place<'tcx>) -> J {
        let tcx = self.tcx;
        let mut proj = Vec::new();
        let mut pty = mir::PlaceTy::from_ty(body.local_decls[p.local].ty);
        for elem in p.projection.iter() {
            let j = match elem {
                mir::ProjectionElem::Deref => J::S("*".into()),
                mir::ProjectionElem::Field(f, fty) => {
                    let name = match pty.ty.kind() {
                        ty::Adt(def, _) => {
                            let v = match pty.variant_index {
                                Some(v) => def.variant(v),
                                None if !def.is_enum() => def.non_enum_variant(),
                                None => def.variant(VariantIdx::from_u32(0)),
                            };
                            v.fields.get(f).map(|fd| fd.name.to_string()).unwrap_or(format!("{}", f.as_usize()))
                        }
                        _ => format!("{}", f.as_usize()),
                    };
                    J::obj(vec![("f", J::S(name)), ("i", J::I(f.as_usize() as i128)), ("ty", J::S(tname(fty))), ("of", J::S(tname(pty.ty)))])
                }
                mir::ProjectionElem::Index(l) => J::obj(vec![("index", J::I(l.as_usize() as i128))]),
                mir::ProjectionElem::ConstantIndex { offset, min_length, from_end } => J::obj(vec![
                    ("cindex", J::I(offset as i128)),
                    ("min_length", J::I(min_length as i128)),
                    ("from_end", J::B(from_end)),
                ]),
                mir::ProjectionElem::Subslice { from, to, from_end } => {
                    J::obj(vec![("subslice", J::A(vec![J::I(from as i128), J::I(to as i128)])), ("from_end", J::B(from_end))])
                }
                mir::ProjectionElem::Downcast(name, v) => J::obj(vec![
                    ("downcast", J::S(name.map(|s| s.to_string()).unwrap_or_default())),
                    ("v", J::I(v.as_u32() as i128)),
                ]),
                mir::ProjectionElem::OpaqueCast(t) => J::obj(vec![("opaque_cast", J::S(tname(t)))]),
                mir::ProjectionElem::UnwrapUnsafeBinder(t) => J::obj(vec![("unwrap_binder", J::S(tname(t)))]),
            };
            proj.push(j);
            pty = pty.projection_ty(tcx, elem);
        }
        J::obj(vec![("l", J::I(p.local.as_usize() as i128)), ("p", J::A(proj))])
    }

    fn constant(&mut self, c: &mir::ConstOperand<'tcx>, env: TypingEnv<'tcx>) -> J {
        let tcx = self.tcx;
        let ty = c.const_.ty();
        let mut o: Vec<(&str, J)> = vec![("ty", J::S(tname(ty)))];
        match c.const_ {
            mir::Const::Unevaluated(uv, _) => {
                o.push(("path", J::S(pname(tcx, uv.def))));
                if let Some(p) = uv.promoted {
                    o.push(("promoted", J::I(p.as_usize() as i128)));
                }
            }
            mir::Const::Ty(_, ct) => {
                if let ty::ConstKind::Unevaluated(uv) = ct.kind() {
                    o.push(("path", J::S(pname(tcx, uv.def))));
                }
            }
            mir::Const::Val(..) => {}
        }
        if let ty::FnDef(d, args) = ty.kind() {
            o.push(("fn", self.fn_ref(*d, args, env)));
        } else if let ty::Closure(d, _) = ty.kind() {
            o.push(("fn", J::obj(vec![("$fn", J::S(pname(tcx, *d)))])));
        } else if !ty.has_non_region_param() {
            // (generic functions: promoteds that do not depend on the parameters still evaluate; others return TooGeneric)
            let evaluated = match c.const_ {
                mir::Const::Ty(_, ct) if ct.has_non_region_param() => Err(()),
                _ => c.const_.eval(tcx, env, c.span).map_err(|_| ()),
            };
            if let Ok(v) = evaluated {
                let mut budget = 600usize;
                o.push(("val", self.decode_value(v, ty, &mut budget)));
            }
        }
        J::obj(o)
    }

    fn operand(&mut self, body: &mir::Body<'tcx>, env: TypingEnv<'tcx>, op: &mir::Operand<'tcx>) -> J {
        match op {
            mir::Operand::Copy(p) => J::obj(vec![("copy", self.place(body, *p))]),
            mir::Operand::Move(p) => J::obj(vec![("move", self.place(body, *p))]),
            mir::Operand::Constant(c) => J::obj(vec![("const", self.constant(c, env))]),
            #[allow(unreachable_patterns)]
            _ => J::obj(vec![("other", J::S(format!("{:?}", op)))]),
        }
    }

    fn rvalue(&mut self, body: &mir::Body<'tcx>, env: TypingEnv<'tcx>, rv: &mir::Rvalue<'tcx>) -> J {
        let tcx = self.tcx;
        match rv {
            mir::Rvalue::Use(op, _) => J::obj(vec![("use", self.operand(body, env, op))]),
            mir::Rvalue::Repeat(op, n) => J::obj(vec![("repeat", self.operand(body, env, op)), ("count", J::S(format!("{}", n)))]),
            mir::Rvalue::Ref(_, bk, p) => J::obj(vec![
                ("ref", self.place(body, *p)),
                ("mutbl", J::B(matches!(bk, mir::BorrowKind::Mut { .. }))),
                ("bk", J::S(format!("{:?}", bk))),
            ]),
            mir::Rvalue::ThreadLocalRef(d) => J::obj(vec![("thread_local", J::S(pname(tcx, *d)))]),
            mir::Rvalue::RawPtr(k, p) => J::obj(vec![("rawptr", self.place(body, *p)), ("k", J::S(format!("{:?}", k)))]),
            mir::Rvalue::Cast(k, op, t) => J::obj(vec![
                ("cast", self.operand(body, env, op)),
                ("kind", J::S(format!("{:?}", k))),
                ("to", J::S(tname(*t))),
                ("from", J::S(tname(op.ty(&body.local_decls, tcx)))),
            ]),
            mir::Rvalue::BinaryOp(bop, box (a, b)) => J::obj(vec![
                ("binop", J::S(format!("{:?}", bop))),
                ("a", self.operand(body, env, a)),
                ("b", self.operand(body, env, b)),
                ("ty", J::S(tname(a.ty(&body.local_decls, tcx)))),
            ]),
            mir::Rvalue::UnaryOp(uop, a) => J::obj(vec![
                ("unop", J::S(format!("{:?}", uop))),
                ("a", self.operand(body, env, a)),
                ("ty", J::S(tname(a.ty(&body.local_decls, tcx)))),
            ]),
            mir::Rvalue::Discriminant(p) => J::obj(vec![("discr", self.place(body, *p))]),
            mir::Rvalue::Aggregate(box k, ops) => {
                let kj = match k {
                    mir::AggregateKind::Array(t) => J::obj(vec![("array", J::S(tname(*t)))]),
                    mir::AggregateKind::Tuple => J::obj(vec![("tuple", J::B(true))]),
                    mir::AggregateKind::Adt(d, v, _, _, active) => {
                        let adt = tcx.adt_def(*d);
                        let var = adt.variant(*v);
                        J::obj(vec![
                            ("adt", J::S(pname(tcx, *d))),
                            ("variant", J::S(var.name.to_string())),
                            ("vidx", J::I(v.as_u32() as i128)),
                            ("fields", J::A(var.fields.iter().map(|f| J::S(f.name.to_string())).collect())),
                            ("active", match active { Some(f) => J::I(f.as_usize() as i128), None => J::Null }),
                        ])
                    }
                    mir::AggregateKind::Closure(d, _) => J::obj(vec![("closure", J::S(pname(tcx, *d)))]),
                    mir::AggregateKind::Coroutine(d, _) => J::obj(vec![("coroutine", J::S(pname(tcx, *d)))]),
                    mir::AggregateKind::CoroutineClosure(d, _) => J::obj(vec![("coroutine_closure", J::S(pname(tcx, *d)))]),
                    mir::AggregateKind::RawPtr(t, _) => J::obj(vec![("rawptr", J::S(tname(*t)))]),
                };
                J::obj(vec![("agg", kj), ("ops", J::A(ops.iter().map(|o| self.operand(body, env, o)).collect()))])
            }
            mir::Rvalue::CopyForDeref(p) => J::obj(vec![("use", J::obj(vec![("copy", self.place(body, *p))])), ("deref_copy", J::B(true))]),
            mir::Rvalue::WrapUnsafeBinder(op, _) => J::obj(vec![("use", self.operand(body, env, op))]),
            #[allow(unreachable_patterns)]
            other => J::obj(vec![("other", J::S(format!("{:?}", other)))]),
        }
    }

    fn stmt(&mut self, body: &mir::Body<'tcx>, env: TypingEnv<'tcx>, s: &mir::Statement<'tcx>) -> Option<J> {
        let span = s.source_info.span;
        let (k, mut o): (&str, Vec<(&str, J)>) = match &s.kind {
            mir::StatementKind::Assign(box (p, rv)) => ("assign", vec![("place", self.place(body, *p)), ("rv", self.rvalue(body, env, rv))]),
            mir::StatementKind::SetDiscriminant { place, variant_index } => {
                ("set_discr", vec![("place", self.place(body, **place)), ("v", J::I(variant_index.as_u32() as i128))])
            }
            mir::StatementKind::Intrinsic(box i) => ("intrinsic", vec![("text", J::S(format!("{:?}", i)))]),
            mir::StatementKind::StorageLive(_)
            | mir::StatementKind::StorageDead(_)
            | mir::StatementKind::Nop
            | mir::StatementKind::FakeRead(..)
            | mir::StatementKind::PlaceMention(..)
            | mir::StatementKind::AscribeUserType(..)
            | mir::StatementKind::Coverage(..)
            | mir::StatementKind::ConstEvalCounter
            | mir::StatementKind::BackwardIncompatibleDropHint { .. } => return None,
            #[allow(unreachable_patterns)]
            other => ("other", vec![("text", J::S(format!("{:?}", other)))]),
        };
        o.insert(0, ("k", J::S(k.to_string())));
        o.push(("line", self.line(span)));
        let m = self.macros(span);
        if let J::A(v) = &m {
            if !v.is_empty() {
                o.push(("macros", m));
            }
        }
        Some(J::obj(o))
    }

    fn line(&self, span: Span) -> J {
        let sm = self.tcx.sess.source_map();
        let mut sp = span;
        if sp.from_expansion() {
            sp = sp.source_callsite();
        }
        J::I(sm.lookup_char_pos(sp.lo()).line as i128)
    }

    fn term(&mut self, body: &mir::Body<'tcx>, env: TypingEnv<'tcx>, t: &mir::Terminator<'tcx>) -> J {
        let tcx = self.tcx;
        let span = t.source_info.span;
        let bbj = |b: mir::BasicBlock| J::I(b.as_usize() as i128);
        let unwind = |u: &mir::UnwindAction| match u {
            mir::UnwindAction::Cleanup(b) => J::I(b.as_usize() as i128),
            _ => J::Null,
        };
        let (k, mut o): (&str, Vec<(&str, J)>) = match &t.kind {
            mir::TerminatorKind::Goto { target } => ("goto", vec![("target", bbj(*target))]),
            mir::TerminatorKind::SwitchInt { discr, targets } => {
                let mut cases = Vec::new();
                for (v, b) in targets.iter() {
                    cases.push(J::A(vec![J::U(v), bbj(b)]));
                }
                ("switch", vec![
                    ("discr", self.operand(body, env, discr)),
                    ("discr_ty", J::S(tname(discr.ty(&body.local_decls, tcx)))),
                    ("cases", J::A(cases)),
                    ("otherwise", bbj(targets.otherwise())),
                ])
            }
            mir::TerminatorKind::UnwindResume => ("resume", vec![]),
            mir::TerminatorKind::UnwindTerminate(_) => ("terminate", vec![]),
            mir::TerminatorKind::Return => ("return", vec![]),
            mir::TerminatorKind::Unreachable => ("unreachable", vec![]),
            mir::TerminatorKind::Drop { place, target, unwind: u, .. } => ("drop", vec![
                ("place", self.place(body, *place)),
                ("ty", J::S(tname(place.ty(&body.local_decls, tcx).ty))),
                ("target", bbj(*target)),
                ("unwind", unwind(u)),
            ]),
            mir::TerminatorKind::Call { func, args, destination, target, unwind: u, fn_span, .. } => {
                let mut o: Vec<(&str, J)> = Vec::new();
                let fty = func.ty(&body.local_decls, tcx);
                match fty.kind() {
                    ty::FnDef(d, gargs) => {
                        o.push(("callee", J::S(pname(tcx, *d))));
                        o.push(("callee_crate", J::S(tcx.crate_name(d.krate).to_string())));
                        if let Some(tr) = tcx.trait_of_assoc(*d) {
                            o.push(("callee_trait", J::S(pname(tcx, tr))));
                        }
                        let mut ga = Vec::new();
                        for a in gargs.iter() {
                            if let Some(t) = a.as_type() {
                                ga.push(J::S(tname(t)));
                            } else if let Some(c) = a.as_const() {
                                ga.push(J::S(format!("const {}", c)));
                            }
                        }
                        o.push(("generics", J::A(ga)));
                        let mut doc = self.has_doc_panics(*d);
                        if let Ok(Some(inst)) = Instance::try_resolve(tcx, env, *d, gargs) {
                            let rd = inst.def_id();
                            o.push(("resolved", J::S(inst_name(tcx, inst))));
                            o.push(("resolved_crate", J::S(tcx.crate_name(rd.krate).to_string())));
                            o.push(("instance_kind", J::S(format!("{:?}", std::mem::discriminant(&inst.def)).replace("Discriminant", ""))));
                            o.push(("instance", J::S(match inst.def {
                                ty::InstanceKind::Item(_) => "item".into(),
                                ty::InstanceKind::Intrinsic(_) => "intrinsic".into(),
                                ty::InstanceKind::Virtual(..) => "virtual".into(),
                                ty::InstanceKind::ClosureOnceShim { .. } => "closure_once_shim".into(),
                                ty::InstanceKind::FnPtrShim(..) => "fn_ptr_shim".into(),
                                ty::InstanceKind::DropGlue(..) => "drop_glue".into(),
                                ty::InstanceKind::CloneShim(..) => "clone_shim".into(),
                                ty::InstanceKind::ReifyShim(..) => "reify_shim".into(),
                                _ => format!("{:?}", inst.def).split('(').next().unwrap_or("").to_string(),
                            })));
                            if rd != *d {
                                doc = doc || self.has_doc_panics(rd);
                            }
                            // For FnPtrShim (calling a fn pointer / fn item through Fn traits) record the target type
                            if let ty::InstanceKind::FnPtrShim(_, t) = inst.def {
                                o.push(("shim_ty", J::S(tname(t))));
                                if let ty::FnDef(fd, fargs) = t.kind() {
                                    o.push(("shim_fn", self.fn_ref(*fd, fargs, env)));
                                }
                            }
                        }
                        o.push(("doc_panics", J::B(doc)));
                    }
                    _ => {
                        o.push(("indirect", self.operand(body, env, func)));
                        o.push(("indirect_ty", J::S(tname(fty))));
                    }
                }
                o.push(("args", J::A(args.iter().map(|a| self.operand(body, env, &a.node)).collect())));
                o.push(("dest", self.place(body, *destination)));
                o.push(("dest_ty", J::S(tname(destination.ty(&body.local_decls, tcx).ty))));
                o.push(("target", match target { Some(b) => bbj(*b), None => J::Null }));
                o.push(("unwind", unwind(u)));
                o.push(("fn_macros", self.macros(*fn_span)));
                ("call", o)
            }
            mir::TerminatorKind::TailCall { .. } => ("tailcall", vec![("text", J::S(format!("{:?}", t.kind)))]),
            mir::TerminatorKind::Assert { cond, expected, msg, target, unwind: u } => {
                let (mk, mops): (String, Vec<J>) = match &**msg {
                    mir::AssertKind::BoundsCheck { len, index } => {
                        ("BoundsCheck".into(), vec![self.operand(body, env, len), self.operand(body, env, index)])
                    }
                    mir::AssertKind::Overflow(op, a, b) => {
                        (format!("Overflow:{:?}", op), vec![self.operand(body, env, a), self.operand(body, env, b)])
                    }
                    mir::AssertKind::OverflowNeg(a) => ("OverflowNeg".into(), vec![self.operand(body, env, a)]),
                    mir::AssertKind::DivisionByZero(a) => ("DivisionByZero".into(), vec![self.operand(body, env, a)]),
                    mir::AssertKind::RemainderByZero(a) => ("RemainderByZero".into(), vec![self.operand(body, env, a)]),
                    other => (format!("{:?}", other).split(|c: char| !c.is_alphanumeric()).next().unwrap_or("Other").to_string(), vec![]),
                };
                ("assert", vec![
                    ("cond", self.operand(body, env, cond)),
                    ("expected", J::B(*expected)),
                    ("msg", J::S(mk)),
                    ("msg_ops", J::A(mops)),
                    ("target", bbj(*target)),
                    ("unwind", unwind(u)),
                ])
            }
            mir::TerminatorKind::FalseEdge { real_target, .. } => ("goto", vec![("target", bbj(*real_target))]),
            mir::TerminatorKind::FalseUnwind { real_target, .. } => ("goto", vec![("target", bbj(*real_target))]),
            other => ("other", vec![("text", J::S(format!("{:?}", other)))]),
        };
        o.insert(0, ("k", J::S(k.to_string())));
        o.push(("line", self.line(span)));
        let m = self.macros(span);
        if let J::A(v) = &m {
            if !v.is_empty() {
                o.push(("macros", m));
            }
        }
        J::obj(o)
    }
}
