// Minimal JSON value + serializer (no external crates are available offline for a rustc_private driver).
use std::fmt::{self, Write};

pub enum J {
    Null,
    B(bool),
    I(i128),
    U(u128),
    F(f64),
    S(String),
    A(Vec<J>),
    O(Vec<(String, J)>),
}

impl J {
    pub fn obj(v: Vec<(&str, J)>) -> J {
        J::O(v.into_iter().map(|(k, v)| (k.to_string(), v)).collect())
    }
}

fn esc(s: &str, f: &mut fmt::Formatter<'_>) -> fmt::Result {
    f.write_char('"')?;
    for c in s.chars() {
        match c {
            '"' => f.write_str("\\\"")?,
            '\\' => f.write_str("\\\\")?,
            '\n' => f.write_str("\\n")?,
            '\r' => f.write_str("\\r")?,
            '\t' => f.write_str("\\t")?,
            c if (c as u32) < 0x20 => write!(f, "\\u{:04x}", c as u32)?,
            c => f.write_char(c)?,
        }
    }
    f.write_char('"')
}

impl fmt::Display for J {
    fn fmt(&self, f: &mut fmt::Formatter<'_>) -> fmt::Result {
        match self {
            J::Null => f.write_str("null"),
            J::B(b) => write!(f, "{}", b),
            J::I(i) => write!(f, "{}", i),
            J::U(u) => write!(f, "{}", u),
            J::F(x) => {
                if x.is_finite() {
                    write!(f, "{:?}", x)
                } else {
                    f.write_str("null")
                }
            }
            J::S(s) => esc(s, f),
            J::A(v) => {
                f.write_char('[')?;
                for (i, x) in v.iter().enumerate() {
                    if i > 0 {
                        f.write_char(',')?;
                    }
                    write!(f, "{}", x)?;
                }
                f.write_char(']')
            }
            J::O(v) => {
                f.write_char('{')?;
                for (i, (k, x)) in v.iter().enumerate() {
                    if i > 0 {
                        f.write_char(',')?;
                    }
                    esc(k, f)?;
                    f.write_char(':')?;
                    write!(f, "{}", x)?;
                }
                f.write_char('}')
            }
        }
    }
}
