#!/usr/bin/env python3
"""Rewrites the seeded-change matrix in DESIGN.md (between the MATRIX markers) from seeded/RESULTS.json."""
import json
import os
import re

VERIF = os.path.dirname(os.path.dirname(os.path.abspath(__file__)))


def rules_of(v):
    out = []
    for f in v["failed"]:
        m = re.match(r"\[(\w+)\]\s+(\S+)", f)
        if m and m.group(2) not in out:
            out.append(m.group(2))
    return out


def main():
    res = json.load(open(os.path.join(VERIF, "seeded", "RESULTS.json")))
    lines = ["| change | what it does (one line) | own check: rules that report it | also reported by |", "|---|---|---|---|"]
    for mid in sorted(res):
        own = mid.split("-")[0]
        meta = {}
        try:
            meta = json.load(open(os.path.join(VERIF, "seeded", mid, "meta.json")))
        except OSError:
            pass
        summ = (meta.get("summary") or "").replace("|", "/").replace("\n", " ")
        summ = summ[:150] + ("…" if len(summ) > 150 else "")
        r = res[mid]
        ownv = r.get(own)
        if ownv and ownv["verdict"] == "FIRES":
            own_txt = ", ".join(rules_of(ownv)[:4])
        elif ownv:
            own_txt = "**not reported**"
        else:
            own_txt = "(no check)"
        also = []
        for p in sorted(r):
            if p in (own, "_error"):
                continue
            if r[p]["verdict"] == "FIRES":
                also.append("%s (%s)" % (p, ", ".join(rules_of(r[p])[:2])))
        lines.append("| %s | %s | %s | %s |" % (mid, summ, own_txt, "; ".join(also) or "—"))
    text = "\n".join(lines)
    p = os.path.join(VERIF, "DESIGN.md")
    s = open(p).read()
    if "@@MATRIX@@" in s:
        s = s.replace("@@MATRIX@@", "<!-- MATRIX:BEGIN -->\n" + text + "\n<!-- MATRIX:END -->")
    else:
        s = re.sub(r"<!-- MATRIX:BEGIN -->.*?<!-- MATRIX:END -->", lambda m: "<!-- MATRIX:BEGIN -->\n" + text + "\n<!-- MATRIX:END -->", s, flags=re.S)
    open(p, "w").write(s)
    print("matrix rows:", len(lines) - 2)


if __name__ == "__main__":
    main()
