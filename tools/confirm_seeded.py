#!/usr/bin/env python3
"""Confirms a mutation produced by a sub-agent in its scratch worktree and, if confirmed, files it under /verif/seeded/.

usage: confirm_seeded.py <worktree> <mN> <dest-id>
  e.g. confirm_seeded.py /tmp/wt/C15 m1 C15-m1

Checks (all run here, in the scratch worktree, never in /repo):
  1. demo passes on the unmodified tree
  2. demo fails with the patch
  3. the whole existing suite still passes with the patch (43 tests)
"""
import json
import os
import re
import shutil
import subprocess
import sys
import time


def sh(cmd, cwd, timeout=3000):
    env = dict(os.environ, CARGO_NET_OFFLINE="true")
    t0 = time.time()
    try:
        r = subprocess.run(cmd, cwd=cwd, shell=True, executable='/bin/bash', env=env, stdout=subprocess.PIPE, stderr=subprocess.STDOUT, text=True, timeout=timeout)
        return r.returncode, r.stdout, time.time() - t0
    except subprocess.TimeoutExpired as e:
        return 124, (e.stdout or "") + "\nTIMEOUT", time.time() - t0


def clean(wt):
    sh("git checkout -q -- . && rm -rf weechess-core/tests weechess-engine/tests weechess-cli/tests", wt)


def install_demo(wt, demo, runmd):
    cmds = []
    placed = []
    for f in sorted(os.listdir(demo)):
        p = os.path.join(demo, f)
        if f == "RUN.md" or f.endswith(".diff"):
            continue
        m = re.search(r"(weechess-(?:core|engine)/tests)/" + re.escape(f), runmd)
        if m:
            d = os.path.join(wt, m.group(1))
            os.makedirs(d, exist_ok=True)
            shutil.copy(p, os.path.join(d, f))
            placed.append(os.path.join(m.group(1), f))
            continue
        if re.search(r">>\s*weechess-engine/src/searcher\.rs", runmd) or "appended" in runmd.lower() or "append" in runmd.lower():
            with open(os.path.join(wt, "weechess-engine/src/searcher.rs"), "a") as out:
                out.write("\n" + open(p).read())
            placed.append("append:" + f)
            continue
        # default: integration test of the package named in the cargo command
        pkg = "weechess-core" if re.search(r"-p\s+weechess_core[^\n]*--test\s+" + re.escape(f[:-3]), runmd) or \
            (re.search(r"-p\s+weechess_core", runmd) and not re.search(r"-p\s+weechess_engine", runmd)) else "weechess-engine"
        d = os.path.join(wt, pkg, "tests")
        os.makedirs(d, exist_ok=True)
        shutil.copy(p, os.path.join(d, f))
        placed.append(pkg + "/tests/" + f)
        continue
        d = os.path.join(wt, "weechess-engine/tests")
        os.makedirs(d, exist_ok=True)
        shutil.copy(p, os.path.join(d, f))
        placed.append("weechess-engine/tests/" + f)
    for line in runmd.splitlines():
        line = line.strip().strip("`")
        if line.startswith("cargo test") and "--offline" in line:
            cmds.append(line)
    # de-duplicate, keep order
    seen = set()
    cmds = [c for c in cmds if not (c in seen or seen.add(c))]
    return placed, cmds


def run_demo(wt, cmds):
    rc_all = 0
    outs = []
    for c in cmds:
        rc, out, secs = sh(c + " 2>&1 | tail -40; exit ${PIPESTATUS[0]}", wt, timeout=1500)
        outs.append({"cmd": c, "rc": rc, "secs": round(secs, 1), "tail": out[-1500:]})
        if rc != 0:
            rc_all = rc
    return rc_all, outs


def main():
    wt, mn, dest = sys.argv[1], sys.argv[2], sys.argv[3]
    out_dir = os.path.join(wt, "_out", mn)
    patch = os.path.join(out_dir, "patch.diff")
    demo = os.path.join(out_dir, "demo")
    runmd = open(os.path.join(demo, "RUN.md")).read()
    meta = json.load(open(os.path.join(out_dir, "meta.json")))
    res = {"id": dest, "worktree": wt, "ran": []}
    # 1. unmodified + demo
    clean(wt)
    placed, cmds = install_demo(wt, demo, runmd)
    res["demo_files"] = placed
    res["demo_cmds"] = cmds
    rc1, o1 = run_demo(wt, cmds)
    res["demo_passes_without_patch"] = (rc1 == 0 and bool(cmds))
    res["ran"].append({"step": "demo on unmodified tree", "runs": o1})
    # 2. patched + demo
    clean(wt)
    rc, out, _ = sh("git apply --whitespace=nowarn %s" % patch, wt)
    res["patch_applies"] = rc == 0
    placed, cmds = install_demo(wt, demo, runmd)
    rc2, o2 = run_demo(wt, cmds)
    res["demo_fails_with_patch"] = rc2 != 0
    res["ran"].append({"step": "demo with patch", "runs": o2})
    # 3. patched suite
    clean(wt)
    sh("git apply --whitespace=nowarn %s" % patch, wt)
    rc3, out3, secs = sh("cargo test --workspace --no-fail-fast --offline 2>&1 | grep -E '^test result|FAILED|^error' ; exit ${PIPESTATUS[0]}", wt, timeout=2400)
    passed = sum(int(x) for x in re.findall(r"test result: ok\. (\d+) passed", out3))
    res["suite_passes_with_patch"] = rc3 == 0 and passed == 43 and "FAILED" not in out3
    res["suite_passed_count"] = passed
    res["ran"].append({"step": "cargo test --workspace --no-fail-fast --offline (with patch)", "rc": rc3, "secs": round(secs, 1), "out": out3[-800:]})
    clean(wt)
    res["confirmed"] = bool(res["patch_applies"] and res["demo_passes_without_patch"] and res["demo_fails_with_patch"] and res["suite_passes_with_patch"])
    os.makedirs("/tmp/wt/confirm", exist_ok=True)
    json.dump(res, open("/tmp/wt/confirm/%s.json" % dest, "w"), indent=1)
    if res["confirmed"]:
        d = os.path.join("/verif/seeded", dest)
        shutil.rmtree(d, ignore_errors=True)
        os.makedirs(d)
        shutil.copy(patch, os.path.join(d, "patch.diff"))
        shutil.copytree(demo, os.path.join(d, "demo"))
        m = {
            "id": dest,
            "property": meta.get("property"),
            "summary": meta.get("summary"),
            "needs_to_manifest": meta.get("needs_to_manifest"),
            "files_touched": meta.get("files_touched"),
            "origin": "independent sub-agent given only the property text and a scratch worktree",
            "confirmed_by_me": {
                "where": "scratch worktree %s (base = /repo HEAD with the fix: commits)" % wt,
                "demo_files": res["demo_files"],
                "demo_cmds": res["demo_cmds"],
                "demo_passes_without_patch": True,
                "demo_fails_with_patch": True,
                "suite_passes_with_patch": "43 passed (cargo test --workspace --no-fail-fast --offline)",
            },
        }
        json.dump(m, open(os.path.join(d, "meta.json"), "w"), indent=1)
    print(dest, "CONFIRMED" if res["confirmed"] else "NOT CONFIRMED",
          {k: res[k] for k in ("patch_applies", "demo_passes_without_patch", "demo_fails_with_patch", "suite_passes_with_patch")})


if __name__ == "__main__":
    main()
