#!/usr/bin/env python3
"""Adds a `fingerprint` to every entry of tables/reviewed_sites.json: a hash of the multiset of callees of the reviewed function on the
current /repo tree.  Run by hand after reviewing a site (never by a check).  The rule engine uses it only to carry a review over to a
RENAMED function: same impl or module, same site key, old name gone, identical callee multiset."""
import json
import os
import sys

VERIF = os.path.dirname(os.path.dirname(os.path.abspath(__file__)))
sys.path.insert(0, os.path.join(VERIF, "rules"))
import extract  # noqa: E402
import facts  # noqa: E402
from discharge import body_fingerprint, site_subject  # noqa: E402
import panics  # noqa: E402


def main():
    d, _ = extract.ensure_facts("dev")
    prog = facts.Program(d)
    p = os.path.join(VERIF, "tables", "reviewed_sites.json")
    r = json.load(open(p))
    n = 0
    for e in r["sites"]:
        b = prog.bodies.get(e["function"])
        if b is None:
            print("not on this tree:", e["function"])
            continue
        e["fingerprint"] = body_fingerprint(prog, e["function"])
        # receiver expression of unwrap-like call sites
        for site in panics.inventory(prog, prog.body(e["function"])):
            if site.key == e["key"]:
                subj = site_subject(prog, e["function"], site)
                if subj:
                    e["subject"] = subj
        n += 1
    json.dump(r, open(p, "w"), indent=1)
    print("fingerprinted", n, "of", len(r["sites"]))


if __name__ == "__main__":
    main()
