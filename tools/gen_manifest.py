#!/usr/bin/env python3
"""Regenerates /verif/MANIFEST.json from the table below (single source for check registration)."""
import json
import os

VERIF = os.path.dirname(os.path.dirname(os.path.abspath(__file__)))

TB_COMMON = ("Trusted base: rustc front end / const evaluator / MIR construction (nightly pinned by the repo), the extractor's decoding of "
             "MIR and constants, std/regex/rayon/rand_chacha/ciborium/num_enum behaving as documented.")

CHECKS = {
    "C20": dict(
        category="proof",
        technique="static analysis: MIR term extraction + constant folding over the packed-move layout constants, sibling (getter/setter) agreement, "
                  "per-path call counting in constructors, aggregate-construction and derive inventory, read-set rule for the derived predicates",
        text="Proof over the 15 layout constants and the wiring of the 10 accessor pairs, 4 bit helpers and 6 constructors: same slot on both "
             "sides, contiguous/wide-enough/disjoint masks, helpers inverse on the domain, OR-only stores at most once per constructor path from "
             "literal 0, Move values assembled only in by_moving or derived code, Eq/Hash/serde derived on the raw u32, is_capture/is_promotion/is_castle read only their own attribute. These obligations entail "
             "the attribute round trip for every constructor input in the stated domain, which an exhaustive runtime sweep could only sample per build.",
        design_ref="DESIGN.md section 4, C20",
        note=TB_COMMON + " ciborium round-trips a u32; num_enum into()/try_from_primitive are inverse on discriminants."),
    "C15": dict(
        category="proof",
        technique="static analysis: path-sensitive MIR term propagation (guards on hit/overwrite/evict paths), sibling routing-term agreement, "
                  "write inventory over slot and counter fields, must-pass-through and lock-acquisition discipline on the RwLock wrappers, unsafe inventory",
        text="Proof that the table is a faithful bounded map under all interleavings: T6-T8 (no unsafe, data only behind RwLock, exactly one blocking guard "
             "held across the whole table operation on every path) reduce every concurrent history to a sequential one; T1-T5 are structural invariants of "
             "the sequential code (hit only under full-key equality, identical routing, slots only written Some((key, entry)), eviction only after the scan, "
             "used_slots incremented exactly on filling an empty slot, capacity = buckets x slot count). Exploration could only sample interleavings and keys.",
        design_ref="DESIGN.md section 4, C15",
        note=TB_COMMON + " std::sync::RwLock gives mutual exclusion; slice iterators visit elements in index order. Zero buckets/tables excluded (property scope)."),
    "C08": dict(
        category="proof",
        technique="static analysis: influence (data + control dependence) analysis of every XOR-accumulate in ZobristHasher::hash mapped to State fields "
                  "through accessor read-sets, loop-distinctness of folded keys, full-enumeration drivers of the loops around the placement XOR, key-table provenance/arity in ZobristHasher::with, call-graph effect check, "
                  "def-use provenance of every key consumed by table/history/book",
        text="Proof (up to the assumed 2^-64 collision chance of independent keys) that the hash is 0 XOR per-component keys: every rule-relevant component "
             "(placement, side, castling rights, en passant target) influences exactly its own folded keys, the clock influences none, keys come from the "
             "caller's Rng with enough arity, no key can be folded twice inside a loop, the placement loops run over every colour, kind and set bit, hash is pure, and every consumer key is the result of this hash. "
             "Holds for all positions/seeds at once; tests sample a handful of positions.",
        design_ref="DESIGN.md section 4, C08",
        note=TB_COMMON + " 64-bit collisions of independent random keys are ignored; rule H5.component deliberately rejects keys that mix several State components (unproven refinements)."),
    "C19": dict(
        category="proof",
        technique="static analysis: whole-workspace call-graph reachability from Searcher::analyze with an effect table for nondeterminism sources, "
                  "RNG construction/use provenance, constant folding of the worker-count condition over iteration indices 0..2, static/thread-local inventory",
        text="Proof that everything reachable from the public search entry is a deterministic function of (position, seed, depth): no OS randomness, clock, "
             "environment, thread identity, hash-container iteration or address exposure is reachable (one reviewed exception: HashMap::new, unobservable "
             "because the map is never iterated); every RNG is constructed from the caller's seed or from draws of such a generator; the worker count folds "
             "to 1 for the first three iterations; events have a single producer; no mutable process-wide state exists; the CLI passes --seed unchanged.",
        design_ref="DESIGN.md section 4, C19",
        note=TB_COMMON + " tables/effects.json is complete for the nondet class; rayon with one element, rand_chacha, f32 arithmetic and stable sorts are deterministic."),
    "C18": dict(
        category="proof",
        technique="static analysis: forward must-be-empty dataflow (move/drop/take aware) over the CFG region of the ucinewgame arm of Client::exec, "
                  "type-walk carrier discovery, static inventory, argument provenance go -> Search::spawn -> Searcher::analyze",
        text="Proof that the first search after ucinewgame receives no previous artifact: every loop-carried local of the UCI loop whose type can contain a "
             "SearchArtifact is empty on all paths from the ucinewgame arm back to the command loop, no static/thread-local can carry search memory, and `go` "
             "hands exactly carrier.take() through spawn/analyze unchanged. Covers all command histories (running or collected searches) at once.",
        design_ref="DESIGN.md section 4, C18",
        note=TB_COMMON + " MIR drop elaboration is trusted. A clear-and-reuse implementation (keeping allocations) would be reported: it needs its own proof."),
    "C09": dict(
        category="proof",
        technique="static analysis: constant folding of the extracted lookup index term over all 107,648 (square, relevant subset) pairs against an independent "
                  "geometry oracle, reader/writer term agreement, decision-table folding of Square::offset, per-path effect sequences of the slow ray computation, "
                  "decoded offset/mask tables",
        text="Proof on the literals plus structural wiring: the 128 magic numbers are perfect hashes (only constructive collisions) for the geometric relevance "
             "masks at the declared widths under the index term actually used by the lookup; the table fill uses the same term, masks and widths for every "
             "b in 0..2^width and stores the slow computation, which cuts each of the piece's rays at the nearest blocker; slide masks, direction/knight/king/pawn "
             "offsets and rank/file masks equal geometry; Square::offset never wraps (64x25 cases folded); BitBoard::shift clears the leaving file.",
        design_ref="DESIGN.md section 4, C09",
        note=TB_COMMON + " Three loop shapes are read, not proved (compute_ray, compute_blockers_from_index, iteration over Square::ALL); lazy_static initialises each table once."),
    "C01": dict(
        category="other",
        technique="static analysis: MIR term extraction and sibling agreement across the per-kind generators, dominator/must-pass-through checks on the "
                  "legality filter, decision-table extraction, constant folding of castle mask/square terms for the 4 (side, colour) pairs against a geometry oracle",
        text="Decides only the structural clauses (necessary conditions) G1-G11: generator coverage, piece-kind agreement, destination-set conjuncts, "
             "every candidate filtered by try_as_legal_move whose Some is guarded by the king-safety test on the successor, castle path/check masks and "
             "king squares equal to geometry and wired to occupancy / opponent attacks under the matching right, colour-direction and promotion tables, "
             "pawn capture offset pairing, en passant candidates, perft wiring, the generated list handed to the caller untouched (G11), plus the leaper-table geometry rules of C09. Equality of the generated move set with the FIDE rules over all positions "
             "and perft counts are NOT decided by static analysis.",
        design_ref="DESIGN.md section 4, C01",
        note=TB_COMMON + " Relies on C09 (attack tables) and C20 (move encoding). A sound legality fast path that bypasses the king-safety test would be reported (G4)."),
    "C02": dict(
        category="other",
        technique="static analysis: inventory of all bitboard/right/counter updates in State::by_performing_move with their dominating branch conditions, "
                  "path-sensitive extraction of the returned State fields (432 Ok paths), geometry oracle for corners and castle squares, guard analysis of the coordinate resolver",
        text="Decides only structural clauses U0-U6: copy-make on a clone of the piece map, mover leaves origin/lands on destination, castling relocates the "
             "mover's rook corner -> passed square on the king's rank, each right is and-ed with 'own rook on own corner' on the successor board and a king move "
             "clears the mover's rights, en passant victim/target directions, captures clear the opposing colour / promotions replace the pawn, side to move and "
             "both counters on every Ok path, and the resolver applies a move only under 'exactly one legal move matches' (else UnknownMove/AmbiguousMove). "
             "Successor correctness over all (position, move) pairs and sequences is NOT decided.",
        design_ref="DESIGN.md section 4, C02",
        note=TB_COMMON + " Relies on C20 (move attributes) and C01 (legal move list). Other sound ways of maintaining rights (move-based instead of board-based) would be reported as unrecognised."),
    "C17": dict(
        category="other",
        technique="static analysis: dominator / must-pass-through analysis of analyze_recursive (history test before table probe, quiescence, generation, recursion), "
                  "guard extraction of the draw return, key-term agreement, hash-map mutation inventory of the repetition history",
        text="Decides structural clauses D1-D6: the repetition test precedes every later stage of a node, fires exactly under depth > 0 and a history hit, returns "
             "the draw constant, uses the same hash term as the table, the root hash is recorded before the first iteration in the history that workers read and "
             "the artifact returns, the history never shrinks, recursion deepens and the root starts at depth 0. That the search then still finds the alternative "
             "mating move is game-theoretic and NOT decided.",
        design_ref="DESIGN.md section 4, C17",
        note=TB_COMMON + " Relies on C08 (the hash identifies the position)."),
    "C05": dict(
        category="other",
        technique="static analysis: must-pass-through (edge-sensitive) analysis of Evaluator::evaluate, conjunct inventory of the king-escape shortcut, guard "
                  "extraction of the terminal returns, monotonicity abstract interpretation plus constant folding of mate_in_ply, shared legality-filter rule of C01",
        text="Decides structural clauses V1-V3: the heuristic part is reachable only with a legal move present or via (not in check and an EMPTY, unattacked "
             "king neighbour), mate values are returned only under no-move and check with the sign determined by perspective, stalemate is the constant 0, the mate "
             "score is non-increasing in ply and never below the threshold shared with is_terminal and the search cut-off. Not decided: a numeric bound keeping "
             "heuristic scores of non-terminal positions inside the thresholds.",
        design_ref="DESIGN.md section 4, C05",
        note=TB_COMMON + " Relies on C01 (legal move list; its G4 rule is re-run here) and C10 (check detection)."),
    "C03": dict(
        category="other",
        technique="static analysis: value-provenance of every move stored in the table / replayed into a reported line (def-use terms, path-sensitive term propagation "
                  "of the line iterator), dominance of recursion and inserts by the legality test, argument plumbing; re-runs C08's hash rules and C15's sequential table rules",
        text="Decides the structural route 'legal where written, key identifies legality, faithful table': every insert stores under hash(game_state) the move payload of "
             "try_as_legal_move(game_state); the line walk reads under hash(current state) with the same hasher/tables, applies that move to that state and advances; the "
             "root priority move is re-validated; recursion passes memory unchanged. With the C08/C15 rules re-run here this entails that replayed moves are legal up to "
             "64-bit collisions, for all seeds, interleavings and reused artifacts. NOT decided: non-empty line, at least one report, timing/eviction effects.",
        design_ref="DESIGN.md section 4, C03",
        note=TB_COMMON + " 64-bit hash collisions ignored. Read-side validation (route A) would also be sound but is not what the code does; only route B is recognised."),
    "C16": dict(
        category="other",
        technique="static analysis: path-sensitive term propagation of the book scan closure (key/move/advance/order), term checks of lookup and append, generic-argument "
                  "comparison of the build-time and run-time hasher construction, must-pass-through on the per-game builder closure; re-runs C08's hash rules",
        text="Decides structural clauses O1-O6: entries are (hash(state), a member of compute_legal_moves(state)) with the state advanced afterwards; lookup reads with the "
             "book's hasher and returns the stored set unchanged; build script and engine construct the hasher identically from the published seed; depth constant 10 applied "
             "by take(); append unions; every parsed move of every game is appended. With C08 (re-run) equal keys imply equal legal moves. Corpus replay is NOT decided.",
        design_ref="DESIGN.md section 4, C16",
        note=TB_COMMON + " env!/include_bytes! make seed and data file compile-time dependencies; ciborium round-trips the map."),
    "C14": dict(
        category="proof",
        technique="static analysis: call-graph scoped panic-site inventory (MIR asserts, documented-panicking callees, explicit panics) discharged by an "
                  "inter-procedural interval analysis with branch refinement and newtype invariants (checked at every construction site, closed world), "
                  "callee-specific rules (radix, regex capture groups parsed from the literal, guarded slices), and a reviewed-site table",
        text="Proof relative to 7 individually reviewed sites: all 65 panic sites in the 74 workspace functions reachable from the FEN/SAN readers and the UCI text "
             "layer (including Search::spawn, its closures and wait_cancel) are excluded for every input string: overflow/bounds/division asserts by intervals under "
             "verified invariants (Square<=63, Rank/File<=7, PieceIndex<=14), ArrayMap indexing by the ArrayKey bound rule, regex group indexing by analysing the "
             "pattern literal, the rest by named reasons. Dev-profile MIR is the superset (overflow checks on), so the release profile is covered as well.",
        design_ref="DESIGN.md section 4, C14",
        note=TB_COMMON + " The regex crate never panics on a haystack; allocation failure and closed stdout are outside the input quantifier; chess-logic crashes on "
             "syntactically valid but illegal positions (no king) are explicitly not decided. tables/reviewed_sites.json is part of the trusted base."),
    "C04": dict(
        category="other",
        technique="static analysis: call-graph scoped panic-site inventory with interval/rule/reviewed discharge (shared engine of C14) over everything reachable from "
                  "Searcher::analyze, use-tracking of every Result<_, SearchInterrupt>, dominator and must-pass-through checks on poll placement and the control loop, "
                  "term checks of the cancellation token, shared root rule of C17",
        text="Decides structural clauses X1-X8: the 167 panic sites reachable from the search/control threads are excluded (136 discharged, 31 add/mul/neg overflows of "
             "scores and counters listed as numeric, not decided); interrupts are propagated by every caller and end the deepening loop; counting and the poll test "
             "dominate each node's later stages; one shared AtomicBool; every outcome of recv() cancels then joins, receiver dropped after the join; sink errors are "
             "discarded; loop bounded by max_depth; the root is never answered by the repetition shortcut. Latency of Stop and OS scheduling are NOT decided.",
        design_ref="DESIGN.md section 4, C04",
        note=TB_COMMON + " 38 individually reviewed sites (tables/reviewed_sites.json) are part of the trusted base; legal positions (with kings) are assumed as the property states."),
    "C10": dict(
        category="other",
        technique="static analysis: aggregate-construction, field-write and &mut inventories over Board (immutability), closure-capture resolution of the cache "
                  "initialiser, term checks of is_check / AttackMap::from_occupancy, decoded fn-pointer dispatch table vs Piece discriminants",
        text="Cache clause at proof strength (B1-B4): Boards are only assembled in Board::new, nothing writes or mutably borrows their fields, the attack cell is "
             "only filled by get_or_init with the board's own data for the colour selecting the cell - so cached answers are functions of immutable data and cannot "
             "depend on query/clone order. B5-B7 are structural clauses: check = king squares meet attacks of the opposing colour; attack map = union over the six piece "
             "kinds against the shared occupancy minus own squares, pawn-only under kind == Pawn; dispatch table entry i calls the attack function of Piece variant i. "
             "Equality with geometry over all placements is not re-proved (C09 + B6).",
        design_ref="DESIGN.md section 4, C10",
        note=TB_COMMON + " OnceCell::get_or_init initialises at most once; relies on C09 for the per-piece sets."),
    "C11": dict(
        category="other",
        technique="static analysis: reader/writer table extraction from MIR decision tables and guard conditions (piece, side, castling letters), constant folding of "
                  "from_char against the Display tables, capture-group numbering of the decoded regex literal vs. the State components it feeds, dominance order of "
                  "the writer's fields, rejection-point inventory of the readers",
        text="Decides the reader/writer agreement clauses F1-F8, each necessary for the round trip: the 12 piece tokens, side letters, castling letters and their "
             "KQkq order, square text (file letter, rank digit), regex group k feeding State component k unmodified, board orientation of writer and reader cursor, "
             "usize counters on both sides, and that the readers reject only at the reviewed failure points. Equality after the round trip over all positions and "
             "strings, and the merging of empty runs, are NOT decided.",
        design_ref="DESIGN.md section 4, C11",
        note=TB_COMMON + " F8 freezes the number of rejection points per reader (7/4/1/1): a sound extra validation would be reported and needs review."),
    "C12": dict(
        category="other",
        technique="static analysis: guard extraction for the 42 character arms of the SAN scanner, closure-capture resolution of the 8 field tests of MoveQuery::test with "
                  "must-pass-through on every non-false return, the tested query resolved to the caller's parameter in find/filter, reachability order of the scanner stages, writer call-sequence comparison",
        text="Decides structural clauses Q1-Q6: every scanner character sets the rank/file/piece it denotes (letters from the writer's own table), UCI promotion letters, "
             "each query field compared with the like-named move attribute and nothing but `false` returned before all 8 tests ran, right-to-left stage order with left-over "
             "rejection and Pawn default, castling by prefix (O-O-O before O-O), LAN and bestmove writers emitting origin, destination, lower-case promotion. Uniqueness "
             "of the resolved move over all positions/spellings is NOT decided.",
        design_ref="DESIGN.md section 4, C12",
        note=TB_COMMON + " Relies on C20 for the move accessors."),
    "C13": dict(
        category="other",
        technique="static analysis: swap-parity abstract interpretation of Evaluator::evaluate (structure of the per-term double call, accumulators, difference, weighting), "
                  "constant folding of the operator impls for oddness, shared terminal-return rule of C05, folding of the piece-square index term for both colours over 64 squares",
        text="Decides the negation clause: evaluate(s, White) = -evaluate(s, Black) for every position, because the result is 0 plus odd contributions "
             "(f(p) - f(!p)) * weight with perspective-independent weights and odd scaling, the stop flag is shared, and terminal returns are +/- mate by perspective "
             "or 0. Mirror clauses decided as well: the piece-square table index of a white piece on s equals that of a black piece on the mirrored square (T1), "
             "and every registered term function is colour-parametric - no colour constant, no branch on which colour the perspective is, no direction helper "
             "outside the piece-square orientation (M1). Mirror symmetry of the numeric content of the terms is NOT decided.",
        design_ref="DESIGN.md section 4, C13",
        note=TB_COMMON + " The term functions are assumed to use `perspective` only to select the side."),
    "C07": dict(
        category="other",
        technique="static analysis: CFG region analysis of Client::exec's command arms on MIR (dominators, must-pass-through), decoded format templates of every print, "
                  "forward may-hold (typestate) analysis of live Search values with callee summaries, call-graph effect analysis of the isready arm, "
                  "def-use provenance of the printed move and of every assignment to the session position, loop-exit dominance in the deepening loop",
        text="Decides the wiring clauses of the session: all seven commands dispatched on the first token; `uci` prints id name, id author, then uciok last; `isready` "
             "prints readyok, reaches no blocking callee and touches no search state; no Search is live when Search::spawn is called and a Search's only end of life "
             "is wait_cancel (Stop sent, search joined, writer joined); bestmove is printed at exactly two sites, each at most once per go, and every path through "
             "`go` reaches the book print or the spawn; the printed move is an element of the book lookup on / the first move of the last reported line for the "
             "tracked position; quit/EOF return Ok and the CLI exits non-zero only on Err; current_position is assigned only from State::default(), the parsed FEN, "
             "or by_performing_moves(current_position, all move tokens in order), and every successful position command re-installs the base first; the deepening "
             "loop is not left before the iteration's workers ran. NOT decided: reply timing, that a started search always reports a line before it is stopped, "
             "legality of the searched or book move (C03/C16 rules), output interleaving between threads.",
        design_ref="DESIGN.md section 4, C07",
        note=TB_COMMON + " Effect table tables/effects.json names the blocking callees."),
    "C06": dict(
        category="other",
        technique="static analysis: term and dominance rules over the MIR of analyze_recursive / quiescence_search / analyze_iterative for the negamax, fail-hard "
                  "alpha-beta and bound-typed transposition-table discipline (window swap and negation, cut-off value and stored bound kind, provenance of every "
                  "assignment to alpha/beta, final entry kind, terminal scoring arguments, remaining-depth guard of every use of a probed entry, root window, max merge)",
        text="Does NOT decide the property's claim (a reported mate score is a forced mate; forced mates within the depth are found): that is a statement about the "
             "game-theoretic value over all positions, depths, seeds and schedules and needs an exact oracle. Decides the discipline each clause of which is a "
             "necessary condition of it: children searched with (-beta, -alpha) and used negated, at ply+1 with one extension added to both depths; `child >= beta` "
             "returns beta and stores (LowerBound, beta, cutting move, depths); alpha only ever the caller's alpha, max with a LowerBound entry, a child value under "
             "`not >= beta and > alpha`, or the quiescence stand-pat under `alpha < stand-pat`; beta only the caller's or min with an UpperBound entry; the final "
             "entry is (UpperBound unless a child raised alpha, then Exact; best move; depths; alpha) and alpha is returned; a node without a searched child is "
             "scored evaluate(state, side to move, ply of the node); every use of a probed entry is under entry.max_depth - entry.depth >= max_depth - "
             "current_depth, returned only if Exact or the window closed; root window (-mate_in_ply(0), mate_in_ply(0)) at ply 0; workers merged by max; "
             "deepening stops early only at best_eval >= POS_INF; quiescence: stand-pat for quiet positions, fail-hard on stand-pat >= beta, captures only; "
             "Evaluation's negation and ordering are numeric; mate scores monotone in the ply (C05 V3 re-run); a constant score is returned by a node only on a path "
             "guarded by the history lookup (R14); the successor function's rules (C02 U) are re-run.",
        design_ref="DESIGN.md section 4, C06",
        note=TB_COMMON + " C03 (only legal moves searched), C05 (terminal scores), C08/C15 (table keys and faithfulness) are assumed."),
}


def _amend(pid, field, old, new):
    """Later additions to a check are spliced into the table's text (asserting that the anchor text is still there)."""
    assert old in CHECKS[pid][field], (pid, field, old[:50])
    CHECKS[pid][field] = CHECKS[pid][field].replace(old, new, 1)


_amend("C04", "technique", "term checks of the cancellation token, shared root rule of C17",
       "term checks of the cancellation token, symbolic-path ranking argument for the principal-line walk, cycle / must-pass analysis of the deepening loop "
       "for stop polls, shared root rule of C17")
_amend("C04", "text", "Decides structural clauses X1-X8: the 167 panic sites reachable from the search/control threads are excluded (136 discharged, 31 add/mul/neg overflows of",
       "Decides structural clauses X1-X9: the panic sites reachable from the search/control threads are excluded (discharged; add/mul/neg overflows of")
_amend("C04", "text", "loop bounded by max_depth; the root is never answered by the repetition shortcut.",
       "loop bounded by max_depth and left on an empty line; the principal-line walk is bounded by a stepped counter (X8); every iteration of the deepening loop "
       "passes an unconditional poll of the stop flag, the first excepted (X9); the root is never answered by the repetition shortcut.")
_amend("C14", "technique", "guarded slices), and a reviewed-site table",
       "guarded slices), a reviewed-site table, a taint rule following the text-controlled FEN counters past the chess-logic boundary (P5), SCC check of the text layer (P4)")
_amend("C14", "text", "Proof relative to 7 individually reviewed sites: all 65 panic sites in the 74 workspace functions reachable",
       "Proof relative to the individually reviewed sites: all panic sites in the workspace functions reachable")
_amend("C14", "text", "so the release profile is covered as well.",
       "so the release profile is covered as well. P5: no checked arithmetic on the move counters parsed from the FEN anywhere reachable from the UCI loop "
       "(no boundary); P4: the text layer is not recursive.")
_amend("C06", "technique", "root window, max merge)",
       "root window, max merge, classification of every exit of the deepening loop, mutation inventory of the node's move buffer)")
_amend("C06", "text", "deepening stops early only at best_eval >= POS_INF;",
       "deepening stops early only at best_eval >= POS_INF, and every exit of the deepening loop is the depth limit, that mate stop, an interrupt / stop request or a "
       "root without a line (R10); the node's move buffer is never shortened between generation and the move loop, which walks all of it (R13);")
_amend("C13", "technique", "folding of the piece-square index term for both colours over 64 squares",
       "folding of the piece-square index term for both colours over 64 squares, exhaustive folding of every square-derived sub-expression of the terms over all "
       "square assignments against its rank-flipped image (symbolic paths), colour-exchange comparison of the position summary, purity (no thread-local / "
       "mutable static) of everything reachable from the evaluation")
_amend("C13", "text", "Mirror symmetry of the numeric content of the terms is NOT decided.",
       "Further: every expression a term builds from position squares behaves the same on the rank-flipped squares, folded for all 64 or 64x64 assignments (M2); "
       "the position summary is unchanged under exchange of the colour constants (M3); the evaluation reads no thread-local or mutable static (M4). Rank geometry "
       "expressed on bitboards and squares handed to unfoldable functions are NOT decided.")
_amend("C16", "technique", "must-pass-through on the per-game builder closure;",
       "must-pass-through on the per-game builder closure, the builder's splitting idiom read from its MIR and applied to the repository's book files (static data), "
       "stage whitelist of the games pipeline;")
_amend("C16", "text", "every parsed move of every game is appended.",
       "every parsed move of every game is appended; every chunk of the book files that is a game passes the builder's filter and nothing between the split and the "
       "per-game fold can drop or regroup games.")
_amend("C17", "technique", "hash-map mutation inventory of the repetition history",
       "hash-map mutation inventory of the repetition history, provenance of the (hasher, tables, history) working set")
_amend("C17", "text", "Decides structural clauses D1-D6:", "Decides structural clauses D1-D8:")
_amend("C17", "text", "recursion deepens and the root starts at depth 0.",
       "recursion deepens and the root starts at depth 0; a history taken over from an earlier artifact comes with that artifact's hasher (D8); table entries "
       "written before a position was recorded are the listed known finding (D7).")
_amend("C18", "technique", "type-walk carrier discovery,", "type-walk carrier discovery plus locals written through &mut by the collection of a search,")
_amend("C01", "technique", "against a geometry oracle", "against a geometry oracle; re-runs C02's successor rules and C10's attack-map rules")
_amend("C05", "technique", "shared legality-filter rule of C01", "shared rules of C01 (legality filter, generator coverage, pawn rules) and C10 (check test, attack-map construction)")
_amend("C07", "technique", "loop-exit dominance in the deepening loop",
       "loop-exit dominance in the deepening loop; re-runs C02's successor rules, C15's store rules and C08's hash rules")
_amend("C12", "technique", "writer call-sequence comparison", "writer call-sequence comparison; re-runs C02's resolution rule and C11's square-text rule")
_amend("C10", "technique", "decoded fn-pointer dispatch table vs Piece discriminants", "decoded fn-pointer dispatch table vs Piece discriminants, guard inventory of the accumulation "
       "(every piece contributes); re-runs C09's reader/writer slot rule and lookup-purity rule")
_amend("C09", "technique", "constant folding", "reachability-scoped state inventory (no thread-local / mutable static behind the lookups), constant folding")
_amend("C06", "technique", "mutation inventory of the node's move buffer)", "mutation inventory of the node's move buffer, dominance and path rules that every legal move reaches the recursive call); "
       "re-runs C05's terminal-test rules and C08's hash rules")
_amend("C05", "technique", "monotonicity abstract interpretation plus constant folding of mate_in_ply,", "monotonicity abstract interpretation plus constant folding of mate_in_ply, constant inventory of the "
       "heuristic terms against the mate threshold, guard extraction for mate scores built inside the search,")
_amend("C13", "technique", "purity (no thread-local / mutable static) of everything reachable from the evaluation",
       "purity (no thread-local / mutable static) of everything reachable from the evaluation; re-runs C05's terminal rules, C10's attack-map rules and C02's successor rules")
_amend("C18", "technique", "argument provenance go -> Search::spawn -> Searcher::analyze", "argument provenance go -> Search::spawn -> Searcher::analyze, path rule that no command line is swallowed before dispatch")
_amend("C19", "technique", "static/thread-local inventory", "static/thread-local inventory; re-runs C04's control-loop rule")
_amend("C08", "technique", "def-use provenance of every key consumed by table/history/book", "def-use provenance of every key consumed by table/history/book; re-runs C15's key-compare, routing and slot-write rules")


NOT_BUILT_REASON = "check not built yet (see DESIGN.md for the plan)"
NA = {
}


def main():
    props = [json.loads(l) for l in open(os.path.join(VERIF, "properties.jsonl"))]
    checks = []
    na = []
    for p in props:
        pid = p["id"]
        if pid in CHECKS:
            c = CHECKS[pid]
            checks.append({
                "property_id": pid,
                "quick_cmd": "./check %s --tier quick" % pid,
                "thorough_cmd": "./check %s --tier thorough" % pid,
                "evidence_file": "evidence/%s.json" % pid,
                "replay_cmd_template": "./check %s --replay {path}" % pid,
                "engine": "wcx-rules",
                "level_claimed": {"category": c["category"], "text": c["text"], "design_ref": c["design_ref"]},
                "level_note": c["note"],
                "technique": c["technique"],
            })
        else:
            na.append({"property_id": pid, "reason": NA.get(pid, NOT_BUILT_REASON)})
    man = {
        "version": 1,
        "setup_cmd": "./setup.sh",
        "hooks": {
            "guard": "weechess_verif",
            "enable": "none needed: the extractor is a rustc_private driver injected with RUSTC_WORKSPACE_WRAPPER under cargo check; it sees private "
                      "items, so no source hooks exist in /repo (only the unguarded fix: commits listed in known_findings.json)",
            "baseline_off_cmd": "cd /repo && cargo test --workspace --no-fail-fast --offline",
            "source_commits": [],
            "add_only": True,
        },
        "engines": [
            {"name": "wcx", "path": "extractor/", "serves_properties": sorted(CHECKS),
             "kind_free_text": "rustc_private driver (RUSTC_WORKSPACE_WRAPPER): dumps MIR with resolved callees, decoded constants, ADTs and impls of every workspace unit as JSON facts"},
            {"name": "wcx-rules", "path": "rules/", "serves_properties": sorted(CHECKS),
             "kind_free_text": "Python 3 rule engine over the facts: CFG/dominators, def-use term extraction, path-sensitive term propagation, constant folding, "
                               "call graph / effect tables; one module per property under rules/props/"},
        ],
        "checks": checks,
        "notes": "Static analysis only. Every check re-extracts facts from /repo's current working tree (cached by a hash of the tree). "
                 "exit 2 + 'ERROR' means the tree does not build or the extractor failed (neither pass nor violation).",
        "not_applicable": na,
    }
    with open(os.path.join(VERIF, "MANIFEST.json"), "w") as fh:
        json.dump(man, fh, indent=1)
    print("MANIFEST.json: %d checks, %d not_applicable" % (len(checks), len(na)))


if __name__ == "__main__":
    main()
