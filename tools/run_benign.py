#!/usr/bin/env python3
"""Runs every registered check against behaviour-preserving refactors delivered by a sub-agent (or stored under /verif/benign).

usage: run_benign.py [--jobs N] <dir-with-r*/patch.diff> ...     prints which checks (if any) report each refactor"""
import json
import os
import sys
from concurrent.futures import ThreadPoolExecutor
import queue

VERIF = os.path.dirname(os.path.dirname(os.path.abspath(__file__)))
sys.path.insert(0, os.path.join(VERIF, "rules"))
import extract  # noqa: E402
import variants  # noqa: E402


def main():
    args = sys.argv[1:]
    jobs = 4
    if args and args[0] == "--jobs":
        jobs = int(args[1])
        args = args[2:]
    props = [c["property_id"] for c in json.load(open(os.path.join(VERIF, "MANIFEST.json")))["checks"]]
    patches = []
    for d in args:
        for r in sorted(os.listdir(d)):
            p = os.path.join(d, r, "patch.diff")
            if os.path.exists(p):
                patches.append(p)
    slots = queue.Queue()
    for i in range(jobs):
        slots.put(i)

    def one(p):
        i = slots.get()
        try:
            res = variants.run_variant(p, props, target=extract.worker_target(i))
        finally:
            slots.put(i)
        return p, res
    summary = {}
    with ThreadPoolExecutor(max_workers=jobs) as pool:
        for p, res in pool.map(one, patches):
            key = os.path.basename(os.path.dirname(p)) if "/benign/" in os.path.abspath(p) else p
            if "_error" in res or "_skipped" in res:
                summary[key] = {"verdict": "error"}
            else:
                summary[key] = {"verdict": "silent" if all(v[0] == 0 for v in res.values()) else "fires",
                                "fires": {k: [f[:300] for f in v[1][:4]] for k, v in res.items() if v[0] != 0}}
            if "_error" in res or "_skipped" in res:
                print("%s: ERROR %s" % (p, (res.get("_error") or res.get("_skipped"))[-300:]))
                continue
            fired = sorted(k for k, v in res.items() if v[0] != 0)
            print("%s: %s" % (p, "silent" if not fired else "FIRES " + ",".join(fired)))
            for k in fired:
                for f in res[k][1][:6]:
                    print("      %s %s" % (k, f[:400]))


    return summary


if __name__ == "__main__":
    sm = main()
    corpus = os.path.join(VERIF, "benign")
    if any(os.path.abspath(a).startswith(corpus) for a in sys.argv[1:] if not a.startswith("-")):
        path = os.path.join(VERIF, "benign", "RESULTS.json")
        old = {}
        if os.path.exists(path):
            old = json.load(open(path))
        old.update(sm)
        json.dump(old, open(path, "w"), indent=1, sort_keys=True)
