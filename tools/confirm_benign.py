#!/usr/bin/env python3
"""Confirms behaviour-preserving changes delivered by sub-agents (the existing suite, unedited, passes with the patch) and files
them under /verif/benign/<id>/ as a regression corpus for false alarms.

usage: confirm_benign.py <scratch-worktree> <prefix> <dir-with-r*/patch.diff> ...
  e.g. confirm_benign.py /tmp/wt2/cb1 C15s /tmp/wt2/keep/C15s/_out

Each patch is applied in the scratch worktree (never in /repo), `cargo test --workspace --no-fail-fast --offline` is run,
the worktree is restored.  Only patches with 43 passing tests are filed."""
import json
import os
import re
import shutil
import subprocess
import sys

VERIF = os.path.dirname(os.path.dirname(os.path.abspath(__file__)))


def sh(cmd, cwd, timeout=3000):
    env = dict(os.environ, CARGO_NET_OFFLINE="true")
    r = subprocess.run(cmd, cwd=cwd, shell=True, executable="/bin/bash", env=env, stdout=subprocess.PIPE, stderr=subprocess.STDOUT, text=True, timeout=timeout)
    return r.returncode, r.stdout


def main():
    wt, prefix = sys.argv[1], sys.argv[2]
    for d in sys.argv[3:]:
        for r in sorted(os.listdir(d)):
            patch = os.path.join(d, r, "patch.diff")
            if not os.path.exists(patch):
                continue
            dest = "%s-%s" % (prefix, r)
            sh("git checkout -q -- . && git clean -fdq -e target", wt)
            rc, out = sh("git apply --whitespace=nowarn %s" % patch, wt)
            if rc != 0:
                print(dest, "PATCH DOES NOT APPLY")
                continue
            rc, out = sh("cargo test --workspace --no-fail-fast --offline 2>&1 | grep -E '^test result|FAILED|^error' ; exit ${PIPESTATUS[0]}", wt)
            passed = sum(int(x) for x in re.findall(r"test result: ok\. (\d+) passed", out))
            ok = rc == 0 and passed == 43 and "FAILED" not in out
            sh("git checkout -q -- . && git clean -fdq -e target", wt)
            print(dest, "CONFIRMED" if ok else "NOT CONFIRMED (%d passed, rc=%d)" % (passed, rc))
            if not ok:
                continue
            out_dir = os.path.join(VERIF, "benign", dest)
            shutil.rmtree(out_dir, ignore_errors=True)
            os.makedirs(out_dir)
            shutil.copy(patch, os.path.join(out_dir, "patch.diff"))
            meta = {}
            try:
                meta = json.load(open(os.path.join(d, r, "meta.json")))
            except (OSError, ValueError):
                pass
            json.dump({
                "id": dest,
                "property_in_view": meta.get("property"),
                "summary": meta.get("summary"),
                "why_equivalent": meta.get("why_equivalent"),
                "files_touched": meta.get("files_touched"),
                "origin": "independent sub-agent given only the property text and a scratch worktree, asked for a behaviour-preserving change",
                "confirmed_by_me": {"suite_passes_with_patch": "43 passed (cargo test --workspace --no-fail-fast --offline) in scratch worktree %s" % wt},
            }, open(os.path.join(out_dir, "meta.json"), "w"), indent=1)


if __name__ == "__main__":
    main()
