#!/usr/bin/env python3
"""Runs every seeded mutant (and optionally the variant kits) against the registered checks and records which checks fire.

usage: run_seeded.py [--jobs N] [ids...]      writes /verif/seeded/RESULTS.json and prints a matrix"""
import json
import os
import shutil
import subprocess
import sys
from concurrent.futures import ThreadPoolExecutor

VERIF = os.path.dirname(os.path.dirname(os.path.abspath(__file__)))
sys.path.insert(0, os.path.join(VERIF, "rules"))


def registered():
    man = json.load(open(os.path.join(VERIF, "MANIFEST.json")))
    return [c["property_id"] for c in man["checks"]]


def worker_target(i):
    base = os.path.join(VERIF, ".cache", "target")
    t = os.path.join(VERIF, ".cache", "target_w%d" % i)
    if not os.path.isdir(t):
        subprocess.run(["cp", "-a", base, t], check=True)
    return t


def run_one(args):
    mid, props, slot = args
    env = dict(os.environ, WCX_TARGET=worker_target(slot))
    patch = os.path.join(VERIF, "seeded", mid, "patch.diff")
    r = subprocess.run([sys.executable, os.path.join(VERIF, "rules", "variants.py"), "run", patch] + props,
                       env=env, stdout=subprocess.PIPE, stderr=subprocess.STDOUT, text=True)
    res = {}
    cur = None
    for line in r.stdout.splitlines():
        if line.startswith("== "):
            cur = line[3:].split(":")[0]
            res[cur] = {"verdict": line.split(": ", 1)[1].strip(), "failed": []}
        elif cur and line.startswith("    ["):
            res[cur]["failed"].append(line.strip()[:400])
    if r.returncode == 2 or not res:
        res["_error"] = r.stdout[-600:]
    return mid, res


def main():
    args = sys.argv[1:]
    jobs = 4
    if args and args[0] == "--jobs":
        jobs = int(args[1])
        args = args[2:]
    ids = args or sorted(d for d in os.listdir(os.path.join(VERIF, "seeded")) if os.path.isdir(os.path.join(VERIF, "seeded", d)))
    props = registered()
    tasks = [(mid, props, i % jobs) for i, mid in enumerate(ids)]
    # one thread per slot so that a slot's target dir is never used concurrently
    by_slot = {}
    for t in tasks:
        by_slot.setdefault(t[2], []).append(t)
    results = {}

    def run_slot(ts):
        out = []
        for t in ts:
            out.append(run_one(t))
            print("done", t[0], file=sys.stderr)
        return out
    with ThreadPoolExecutor(max_workers=jobs) as ex:
        for out in ex.map(run_slot, by_slot.values()):
            for mid, res in out:
                results[mid] = res
    path = os.path.join(VERIF, "seeded", "RESULTS.json")
    old = {}
    if os.path.exists(path):
        old = json.load(open(path))
    old.update(results)
    json.dump(old, open(path, "w"), indent=1, sort_keys=True)
    for mid in sorted(results):
        res = results[mid]
        own = mid.split("-")[0]
        fired = sorted(p for p, v in res.items() if p != "_error" and v["verdict"] == "FIRES")
        flag = "CAUGHT" if own in fired else ("caught-by-other" if fired else ("ERROR" if "_error" in res else "MISSED"))
        if own not in props:
            flag += " (own check not built)"
        print("%-8s %-28s fires: %s" % (mid, flag, ",".join(fired)))


if __name__ == "__main__":
    main()
