#!/bin/bash
# Offline setup: build the extractor (rustc_private driver) and warm the dependency target dir
# by running one extraction over /repo.  Everything lives under /verif/.cache and /verif/extractor/target.
set -e
cd "$(dirname "$0")"
export CARGO_NET_OFFLINE=true
(cd extractor && cargo build --release --offline)
python3 rules/main.py --warm
